//! C16 — clock-domain crossings are always caught.
//!
//! One generated multi-domain design, four analyses (DESIGN.md C16):
//! (i)   fully annotated: MismatchClockDomain ⇔ some crossing item lies
//!       outside `unsafe (cdc)` (model of `cdc_ir`), and every report sits on
//!       a crossing item;
//! (ii)  all domains collapsed into one ('a, '_ or no annotation) ⇒ none;
//! (iii) every crossing item wrapped in `unsafe (cdc)` ⇒ none;
//! (iv)  annotations of variables / outputs / interface instances whose
//!       domain is fixed by their one non-crossing assignment or always_ff
//!       clock replaced by inference ⇒ the verdict of (i).

use crate::cdc_ir::*;
use crate::pipe;
use std::collections::BTreeSet;
use vcore::{CaseCfg, Ctx, Draw, Outcome, hash_str, json};

struct G<'d> {
    d: &'d mut Draw,
    dsg: Design,
    /// signals that may be read by later items, per domain
    avail: Vec<(SigId, Dom)>,
    n_out: usize,
    n_var: usize,
    classes: BTreeSet<String>,
}

impl<'d> G<'d> {
    fn add_sig(&mut self, name: String, w: usize, dom: Dom, class: Class) -> SigId {
        self.dsg.sigs.push(Sig {
            name,
            w,
            dom,
            class,
        });
        self.dsg.sigs.len() - 1
    }

    fn other_dom(&mut self, not: Dom) -> Dom {
        let others: Vec<Dom> = self.dsg.doms.iter().copied().filter(|x| *x != not).collect();
        *self.d.pick(&others)
    }

    /// a named domain other than `not` (targets cannot live in `'_`)
    fn other_named(&mut self, not: Dom) -> Dom {
        let others: Vec<Dom> = self.dsg.doms.iter().copied().filter(|x| *x != not && *x != Dom::U).collect();
        *self.d.pick(&others)
    }

    /// a fresh left-hand side signal of width `w` in domain `dom`
    fn target(&mut self, w: usize, dom: Dom, allow_member: bool) -> SigId {
        // the implicit domain has no variables of its own: a `'_` variable is
        // an *inferred* one, which is what variant (iv) is about
        debug_assert!(dom != Dom::U);
        if allow_member {
            // an unassigned member of an interface instance of that domain
            let cand: Vec<SigId> = self
                .dsg
                .ifs
                .iter()
                .filter(|i| i.dom == dom)
                .flat_map(|i| i.members.iter().copied())
                .filter(|m| self.dsg.sigs[*m].w == w && !self.assigned(*m))
                .collect();
            if !cand.is_empty() && self.d.chance(1, 2) {
                let m = *self.d.pick(&cand);
                self.classes.insert("flow:interface-member".into());
                return m;
            }
        }
        if self.d.chance(1, 3) {
            self.n_out += 1;
            let n = format!("o{}", self.n_out);
            self.add_sig(n, w, dom, Class::Out)
        } else {
            self.n_var += 1;
            let n = format!("x{}", self.n_var);
            self.add_sig(n, w, dom, Class::Var)
        }
    }

    fn assigned(&self, s: SigId) -> bool {
        self.dsg.items.iter().any(|it| self.dsg.item_targets(it).contains(&s))
    }

    /// an operand of width `w` from domain `dom`
    fn operand(&mut self, w: usize, dom: Dom) -> Ex {
        let mut cand: Vec<SigId> = self
            .avail
            .iter()
            .filter(|(s, dm)| *dm == dom && self.dsg.sigs[*s].w >= w)
            .map(|x| x.0)
            .collect();
        // inputs of that domain
        for (id, s) in self.dsg.sigs.iter().enumerate() {
            if s.class == Class::In && s.dom == dom && s.w >= w && s.w == 4 {
                cand.push(id);
            }
        }
        let s = *self.d.pick(&cand);
        let sw = self.dsg.sigs[s].w;
        if matches!(self.dsg.sigs[s].class, Class::Member(_)) {
            self.classes.insert("flow:interface-member".into());
        }
        if sw == w {
            Ex::S(s, None)
        } else {
            let lo = self.d.below_usize(sw - w + 1);
            Ex::S(s, Some((lo + w - 1, lo)))
        }
    }

    fn cond_sig(&self, dom: Dom) -> SigId {
        self.dsg.sigs.iter().position(|s| s.class == Class::In && s.dom == dom && s.w == 1).unwrap()
    }
    fn idx_sig(&self, dom: Dom) -> SigId {
        self.dsg.sigs.iter().position(|s| s.class == Class::In && s.dom == dom && s.w == 2).unwrap()
    }

    /// right-hand side of width `w`; operands from `dom`, except that a
    /// `foreign` domain (if given) supplies exactly one operand
    fn rhs(&mut self, w: usize, dom: Dom, foreign: Option<Dom>) -> Ex {
        let shape = self.d.weighted(&[6, 4, 2, 2, if w >= 2 { 2 } else { 0 }, if w == 1 { 2 } else { 0 }, 1]);
        let f = foreign.unwrap_or(dom);
        match shape {
            0 => self.operand(w, f),
            1 => {
                let op = *self.d.pick(&['&', '|', '^', '+']);
                let a = self.operand(w, dom);
                let b = self.operand(w, f);
                if self.d.bool() { Ex::Bin(op, Box::new(a), Box::new(b)) } else { Ex::Bin(op, Box::new(b), Box::new(a)) }
            }
            2 => Ex::Not(Box::new(self.operand(w, f))),
            3 => {
                // ternary: the foreign signal is the selector or a data leg
                let (cd, ad) = if foreign.is_some() && self.d.bool() { (f, dom) } else { (dom, f) };
                let c = Ex::S(self.cond_sig(cd), None);
                let a = self.operand(w, ad);
                let b = if self.d.bool() { self.operand(w, dom) } else { Ex::K(w, self.d.below(16) as u64) };
                Ex::Tern(Box::new(c), Box::new(a), Box::new(b))
            }
            4 => {
                let w1 = 1 + self.d.below_usize(w - 1);
                let a = self.operand(w1, f);
                let b = if self.d.bool() { self.operand(w - w1, dom) } else { Ex::K(w - w1, self.d.below(8) as u64) };
                if self.d.bool() { Ex::Cat(Box::new(a), Box::new(b)) } else { Ex::Cat(Box::new(b), Box::new(a)) }
            }
            5 => {
                // dynamic bit select: data and index, one of them foreign
                let (dd, id) = if foreign.is_some() && self.d.bool() { (dom, f) } else { (f, dom) };
                let data = self
                    .dsg
                    .sigs
                    .iter()
                    .position(|s| s.class == Class::In && s.dom == dd && s.w == 4)
                    .unwrap();
                Ex::Dyn(data, self.idx_sig(id))
            }
            _ => {
                if foreign.is_some() {
                    self.operand(w, f)
                } else {
                    Ex::K(w, self.d.below(16) as u64)
                }
            }
        }
    }
}

pub struct Case {
    pub dsg: Design,
    pub classes: BTreeSet<String>,
    /// signals / interface instances whose annotation inference can replace
    pub infer_sigs: BTreeSet<SigId>,
    pub infer_ifs: BTreeSet<usize>,
    /// an inferred signal is read by an item placed before its assignment
    pub use_before_def: bool,
}

pub fn generate(d: &mut Draw) -> Case {
    let mut doms = vec![Dom::A, Dom::B];
    if d.chance(1, 4) {
        doms.push(Dom::C);
    }
    if d.chance(1, 3) {
        doms.push(Dom::U);
    }
    let use_reset = d.chance(1, 2);
    let mut g = G {
        d,
        dsg: Design {
            doms: doms.clone(),
            sigs: vec![],
            items: vec![],
            children: vec![],
            ifs: vec![],
            use_reset,
        },
        avail: vec![],
        n_out: 0,
        n_var: 0,
        classes: BTreeSet::new(),
    };
    for dm in &doms {
        let l = dm.letter();
        g.add_sig(format!("clk_{l}"), 1, *dm, Class::Clk);
        if use_reset {
            g.add_sig(format!("rst_{l}"), 1, *dm, Class::Rst);
        }
        g.add_sig(format!("i_{l}0"), 4, *dm, Class::In);
        g.add_sig(format!("i_{l}1"), 4, *dm, Class::In);
        g.add_sig(format!("c_{l}"), 1, *dm, Class::In);
        g.add_sig(format!("n_{l}"), 2, *dm, Class::In);
    }
    let named: Vec<Dom> = doms.iter().copied().filter(|x| *x != Dom::U).collect();
    // interface instances
    let nif = g.d.weighted(&[3, 3, 1]);
    for k in 0..nif {
        let dom = *g.d.pick(&named);
        let nm = 1 + g.d.below_usize(2);
        let mut members = vec![];
        for j in 0..nm {
            let w = *g.d.pick(&[4usize, 1, 2]);
            members.push(g.add_sig(format!("bus{k}.v{j}"), w, dom, Class::Member(k)));
        }
        g.dsg.ifs.push(IfInst {
            name: format!("bus{k}"),
            dom,
            members,
        });
    }
    // how many crossings this design gets: none is as likely as some
    let budget = g.d.weighted(&[5, 5, 2]);
    let nitems = 2 + g.d.below_usize(5);
    let mut crossings_left = budget;
    for n in 0..nitems {
        let dom = *g.d.pick(&named);
        let remaining = nitems - n;
        let cross = crossings_left > 0 && (g.d.below_usize(remaining) < crossings_left);
        if cross {
            crossings_left -= 1;
        }
        let foreign = if cross { Some(g.other_dom(dom)) } else { None };
        let w = *g.d.pick(&[4usize, 1, 2]);
        // ---- a select whose data branches carry no domain -------------------
        let dataless = g.d.chance(1, 7);
        let kind = if dataless { 9 } else { g.d.weighted(&[5, 3, 1, 4, 3]) };
        let item = match kind {
            9 => {
                // the selector alone moves information: crossing iff it is foreign
                let crossing_sel = g.d.bool();
                let sd = if crossing_sel { g.other_dom(dom) } else { dom };
                let mixed = g.d.chance(1, 4);
                let data = |g: &mut G, k: usize| -> Ex {
                    if mixed && k == 0 {
                        g.operand(w, dom)
                    } else if g.d.chance(1, 3) {
                        Ex::P(w)
                    } else {
                        Ex::K(w, g.d.below(16) as u64)
                    }
                };
                let (a, b, c3) = (data(&mut g, 0), data(&mut g, 1), data(&mut g, 2));
                let c1 = Ex::S(g.cond_sig(sd), None);
                let n2 = Ex::S(g.idx_sig(sd), None);
                let form = g.d.below_usize(8);
                g.classes.insert("dataless-select".into());
                g.classes.insert(
                    format!(
                        "dataless-select:{}:{}",
                        ["if-expr", "case-expr", "switch-expr", "if-stmt", "case-stmt", "default+if-stmt", "ff-if", "inst-input"][form],
                        if crossing_sel { "foreign-selector" } else { "same-domain-selector" }
                    ),
                );
                match form {
                    0 => IK::Assign {
                        lhs: Lhs::One(g.target(w, dom, true), LSel::All),
                        rhs: Ex::Tern(Box::new(c1), Box::new(a), Box::new(b)),
                    },
                    1 => IK::Assign {
                        lhs: Lhs::One(g.target(w, dom, true), LSel::All),
                        rhs: Ex::CaseX(Box::new(n2), Box::new(a), Box::new(b), Box::new(c3)),
                    },
                    2 => IK::Assign {
                        lhs: Lhs::One(g.target(w, dom, true), LSel::All),
                        rhs: Ex::SwitchX(Box::new(c1), Box::new(a), Box::new(b)),
                    },
                    3 => IK::CombIf {
                        lhs: Lhs::One(g.target(w, dom, true), LSel::All),
                        c: c1,
                        a,
                        b,
                    },
                    4 => IK::CombCase {
                        lhs: Lhs::One(g.target(w, dom, false), LSel::All),
                        sel: n2,
                        a,
                        b,
                    },
                    5 => IK::Comb {
                        lhs: Lhs::One(g.target(w, dom, true), LSel::All),
                        dflt: a,
                        cond: Some((c1, b)),
                    },
                    6 => IK::Ff {
                        clk: dom,
                        rst: None,
                        lhs: Lhs::One(g.target(w, dom, true), LSel::All),
                        cond: Some(c1),
                        rhs: b,
                    },
                    _ => {
                        g.dsg.children.push(Child {
                            groups: vec![(None, vec![w], vec![w])],
                        });
                        g.classes.insert("flow:instance".into());
                        let t = g.target(w, dom, false);
                        IK::Inst {
                            child: g.dsg.children.len() - 1,
                            ins: vec![Ex::Tern(Box::new(c1), Box::new(a), Box::new(b))],
                            outs: vec![Lhs::One(t, LSel::All)],
                        }
                    }
                }
            }
            0 => {
                // assign; crossing position: rhs, dynamic lhs index, concatenated lhs
                let pos = if cross { g.d.weighted(&[5, 2, 2]) } else { g.d.weighted(&[8, 1, 1]) };
                match pos {
                    1 => {
                        let t = g.target(4, dom, false);
                        let idx = g.idx_sig(foreign.unwrap_or(dom));
                        let rhs = g.rhs(1, dom, None);
                        if cross {
                            g.classes.insert("cross:lhs-dynamic-index".into());
                        }
                        IK::Assign {
                            lhs: Lhs::One(t, LSel::Dyn(idx)),
                            rhs,
                        }
                    }
                    2 => {
                        let t1 = g.target(2, dom, false);
                        let d2 = if cross { g.other_named(dom) } else { dom };
                        let t2 = g.target(2, d2, false);
                        // the right-hand side needs a signal, else nothing crosses
                        let rhs = if cross { Ex::S(g.dsg.sigs.iter().position(|s| s.class == Class::In && s.dom == dom && s.w == 4).unwrap(), None) } else { g.rhs(4, dom, None) };
                        if cross {
                            g.classes.insert("cross:concat-lhs".into());
                        }
                        IK::Assign {
                            lhs: if g.d.bool() { Lhs::Cat(t1, t2) } else { Lhs::Cat(t2, t1) },
                            rhs,
                        }
                    }
                    _ => {
                        let t = g.target(w, dom, true);
                        let rhs = g.rhs(w, dom, foreign);
                        if cross {
                            g.classes.insert("cross:assign-rhs".into());
                        }
                        let lsel = if w == 4 && g.d.chance(1, 6) { None } else { Some(()) };
                        match lsel {
                            Some(()) => IK::Assign {
                                lhs: Lhs::One(t, LSel::All),
                                rhs,
                            },
                            None => {
                                // single-bit write of a wider target
                                let rhs1 = g.rhs(1, dom, foreign);
                                IK::Assign {
                                    lhs: Lhs::One(t, LSel::Bit(g.d.below_usize(4))),
                                    rhs: rhs1,
                                }
                            }
                        }
                    }
                }
            }
            1 => {
                // always_comb default + if; crossing in data or in the condition
                let t = g.target(w, dom, true);
                let in_cond = cross && g.d.chance(1, 2);
                let dflt = if g.d.chance(1, 3) { Ex::K(w, 0) } else { g.rhs(w, dom, None) };
                let cond = if in_cond || g.d.chance(2, 3) {
                    let cd = if in_cond { foreign.unwrap() } else { dom };
                    let c = Ex::S(g.cond_sig(cd), None);
                    let then = g.rhs(w, dom, if in_cond { None } else { foreign });
                    Some((c, then))
                } else {
                    None
                };
                let dflt = if cross && !in_cond && cond.is_none() { g.rhs(w, dom, foreign) } else { dflt };
                if cross {
                    g.classes.insert(if in_cond { "cross:comb-condition".into() } else { "cross:comb-data".into() });
                }
                IK::Comb {
                    lhs: Lhs::One(t, LSel::All),
                    dflt,
                    cond,
                }
            }
            2 => {
                let t = g.target(w, dom, false);
                let in_sel = cross && g.d.bool();
                let sel = Ex::S(g.idx_sig(if in_sel { foreign.unwrap() } else { dom }), None);
                let a = g.rhs(w, dom, if in_sel { None } else { foreign });
                let b = g.rhs(w, dom, None);
                if cross {
                    g.classes.insert(if in_sel { "cross:case-selector".into() } else { "cross:comb-data".into() });
                }
                IK::CombCase {
                    lhs: Lhs::One(t, LSel::All),
                    sel,
                    a,
                    b,
                }
            }
            3 => {
                // always_ff: crossing through data, condition, clock or reset
                let t = g.target(w, dom, true);
                let pos = if cross { g.d.weighted(&[4, 2, 3, if use_reset { 2 } else { 0 }]) } else { 0 };
                let f = foreign.unwrap_or(dom);
                let clk = if pos == 2 { f } else { dom };
                let rst = if use_reset && (pos == 3 || g.d.chance(1, 2)) {
                    Some(if pos == 3 { f } else { dom })
                } else {
                    None
                };
                let cond = if pos == 1 || g.d.chance(1, 3) {
                    Some(Ex::S(g.cond_sig(if pos == 1 { f } else { dom }), None))
                } else {
                    None
                };
                let rhs = g.rhs(w, dom, if pos == 0 { foreign } else { None });
                if cross {
                    g.classes.insert(
                        match pos {
                            0 => "cross:ff-data",
                            1 => "cross:ff-condition",
                            2 => "cross:ff-clock",
                            _ => "cross:ff-reset",
                        }
                        .into(),
                    );
                }
                IK::Ff {
                    clk,
                    rst,
                    lhs: Lhs::One(t, LSel::All),
                    cond,
                    rhs,
                }
            }
            _ => {
                // instance: one or two child-side domains
                let two = g.d.chance(1, 3);
                let annotated = two || g.d.bool();
                let mut groups = vec![];
                let ng = if two { 2 } else { 1 };
                for gi in 0..ng {
                    let nin = 1 + g.d.below_usize(2);
                    let nout = if gi == 0 { 1 } else { g.d.below_usize(2) };
                    let ins: Vec<usize> = (0..nin).map(|_| *g.d.pick(&[4usize, 1, 2])).collect();
                    let outs: Vec<usize> = (0..nout).map(|_| *g.d.pick(&[4usize, 1, 2])).collect();
                    let letter = if annotated { Some(['p', 'q'][gi]) } else { None };
                    groups.push((letter, ins, outs));
                }
                // parent side: group k lives in its own parent domain (two
                // groups may map to different parent domains without any crossing)
                let gdoms: Vec<Dom> = (0..ng).map(|k| if k == 0 { dom } else { *g.d.pick(&named) }).collect();
                let cross_group = g.d.below_usize(ng);
                // a constant first connection hides the comparison partner: rare
                let const_first = cross && g.d.chance(1, 12);
                let mut ins = vec![];
                let mut outs = vec![];
                for (k, (_, gi, go)) in groups.iter().enumerate() {
                    let gd = gdoms[k];
                    let nconn = gi.len() + go.len();
                    let fpos = if cross && k == cross_group {
                        Some(if const_first { 1 + g.d.below_usize(nconn - 1) } else { g.d.below_usize(nconn) })
                    } else {
                        None
                    };
                    for (j, w) in gi.iter().enumerate() {
                        let e = if const_first && k == cross_group && j == 0 {
                            Ex::K(*w, 1)
                        } else if fpos == Some(j) {
                            let fd = g.other_dom(gd);
                            g.operand(*w, fd)
                        } else if g.d.chance(1, 5) {
                            g.rhs(*w, gd, None)
                        } else {
                            g.operand(*w, gd)
                        };
                        ins.push(e);
                    }
                    for (j, w) in go.iter().enumerate() {
                        let td = if fpos == Some(gi.len() + j) { g.other_named(gd) } else { gd };
                        let t = g.target(*w, td, false);
                        outs.push(Lhs::One(t, LSel::All));
                    }
                }
                g.dsg.children.push(Child { groups });
                g.classes.insert("flow:instance".into());
                if cross {
                    g.classes.insert(if const_first { "cross:instance(constant first)".into() } else { "cross:instance".into() });
                }
                IK::Inst {
                    child: g.dsg.children.len() - 1,
                    ins,
                    outs,
                }
            }
        };
        let it = Item {
            kind: item,
            unsafe_cdc: false,
        };
        // what it writes becomes readable by later items (in its declared domain)
        for t in g.dsg.item_targets(&it) {
            let dm = g.dsg.sigs[t].dom;
            let whole = match &it.kind {
                IK::Assign { lhs: Lhs::One(_, LSel::All), .. } | IK::Assign { lhs: Lhs::Cat(..), .. } => true,
                IK::Assign { .. } => false,
                _ => true,
            };
            if whole {
                g.avail.push((t, dm));
            }
        }
        g.dsg.items.push(it);
    }
    // ---- a synchroniser: first flop inside unsafe (cdc), used outside -----------
    let mut forced_unsafe: Vec<usize> = vec![];
    if g.d.chance(1, 4) {
        let db = *g.d.pick(&named);
        let da = g.other_dom(db);
        let w = *g.d.pick(&[1usize, 4, 2]);
        g.n_var += 1;
        let s0 = g.add_sig(format!("sync{}_0", g.n_var), w, db, Class::Var);
        let src = g.operand(w, da);
        forced_unsafe.push(g.dsg.items.len());
        g.dsg.items.push(Item {
            kind: IK::Ff {
                clk: db,
                rst: None,
                lhs: Lhs::One(s0, LSel::All),
                cond: None,
                rhs: src,
            },
            unsafe_cdc: true,
        });
        g.classes.insert("sync-register".into());
        // second flop in the same domain: must be clean
        if g.d.chance(3, 4) {
            let s1 = g.add_sig(format!("sync{}_1", g.n_var), w, db, Class::Var);
            g.dsg.items.push(Item {
                kind: IK::Ff {
                    clk: db,
                    rst: None,
                    lhs: Lhs::One(s1, LSel::All),
                    cond: None,
                    rhs: Ex::S(s0, None),
                },
                unsafe_cdc: false,
            });
            g.avail.push((s1, db));
            g.classes.insert("sync-register:second-flop-same-domain".into());
        }
        // read back into another named domain: must be a crossing
        if g.d.chance(1, 2) {
            let dt = g.other_named(db);
            let t = g.target(w, dt, false);
            g.dsg.items.push(Item {
                kind: IK::Assign {
                    lhs: Lhs::One(t, LSel::All),
                    rhs: Ex::S(s0, None),
                },
                unsafe_cdc: false,
            });
            g.classes.insert("sync-register:read-back-into-other-domain".into());
        }
    }
    // ---- unsafe (cdc) placement ---------------------------------------------
    for i in 0..g.dsg.items.len() {
        if forced_unsafe.contains(&i) {
            continue;
        }
        let crossing = g.dsg.item_crossing(&g.dsg.items[i]);
        let wrap = if crossing { g.d.chance(2, 5) } else { g.d.chance(1, 8) };
        g.dsg.items[i].unsafe_cdc = wrap;
        if wrap {
            g.classes.insert(if crossing { "unsafe:around-crossing".into() } else { "unsafe:around-clean-item".into() });
        }
    }
    // ---- what inference may replace -----------------------------------------
    let mut infer_sigs = BTreeSet::new();
    let mut blocked_ifs: BTreeSet<usize> = BTreeSet::new();
    let mut member_ok: BTreeSet<SigId> = BTreeSet::new();
    for it in &g.dsg.items {
        // an always_ff destination takes its domain from the clock, whatever
        // the data is (this is what makes an un-annotated synchroniser work)
        let ff_by_clock = match &it.kind {
            IK::Ff { clk, lhs: Lhs::One(t, _), .. } => g.dsg.sigs[*t].dom == *clk,
            _ => false,
        };
        let ok = ff_by_clock
            || (!g.dsg.item_crossing(it) && g.dsg.item_rhs_has_signal(it) && !matches!(it.kind, IK::Inst { .. }));
        for t in g.dsg.item_targets(it) {
            match g.dsg.sigs[t].class {
                Class::Var | Class::Out => {
                    // a dynamically indexed destination left to inference is a
                    // listed finding: kept at a low rate
                    let dyn_lhs = matches!(&it.kind, IK::Assign { lhs: Lhs::One(_, LSel::Dyn(_)), .. });
                    if ok && (!dyn_lhs || g.d.chance(1, 5)) {
                        infer_sigs.insert(t);
                    } else if ok {
                        g.classes.insert("excluded:inference-of-dynamically-indexed-destination".into());
                    }
                }
                Class::Member(k) => {
                    if ok {
                        member_ok.insert(t);
                    } else {
                        blocked_ifs.insert(k);
                    }
                }
                _ => {}
            }
        }
    }
    let mut infer_ifs = BTreeSet::new();
    for (k, ifc) in g.dsg.ifs.iter().enumerate() {
        // every member must get its domain from its own assignment
        if !blocked_ifs.contains(&k) && ifc.members.iter().all(|m| member_ok.contains(m)) {
            infer_ifs.insert(k);
        }
    }
    // keep a random subset (the empty choice sequence keeps all)
    let drop_some = g.d.chance(1, 3);
    if drop_some {
        let keep: Vec<SigId> = infer_sigs.iter().copied().collect();
        for s in keep {
            if g.d.bool() {
                infer_sigs.remove(&s);
            }
        }
    }
    // ---- rarely: move a reader in front of the assignment it depends on ------
    let mut use_before_def = false;
    if g.d.chance(1, 15) && g.dsg.items.len() >= 2 {
        let n = g.dsg.items.len();
        let j = 1 + g.d.below_usize(n - 1);
        let it = g.dsg.items.remove(j);
        let pos = g.d.below_usize(j);
        g.dsg.items.insert(pos, it);
        g.classes.insert("order:item-moved-earlier".into());
    }
    // does any item read an inferred signal before the item that assigns it?
    let mut defined: BTreeSet<SigId> = BTreeSet::new();
    for it in &g.dsg.items {
        for r in g.dsg.item_reads(it) {
            let is_inferred = infer_sigs.contains(&r)
                || matches!(g.dsg.sigs[r].class, Class::Member(k) if infer_ifs.contains(&k));
            if is_inferred && !defined.contains(&r) {
                use_before_def = true;
            }
        }
        for t in g.dsg.item_targets(it) {
            defined.insert(t);
        }
    }
    if use_before_def {
        g.classes.insert("order:inferred-signal-read-before-its-assignment".into());
    }
    Case {
        dsg: g.dsg,
        classes: g.classes,
        infer_sigs,
        infer_ifs,
        use_before_def,
    }
}

struct Verdict {
    /// 1-based lines carrying a MismatchClockDomain label
    lines: Vec<Vec<usize>>,
    other_error: Option<String>,
}

fn analyse(text: &str) -> Option<Verdict> {
    let diags = pipe::analyze_fresh(text)?;
    let mut v = Verdict {
        lines: vec![],
        other_error: None,
    };
    for dg in diags {
        if dg.code == "mismatch_clock_domain" {
            v.lines.push(dg.spans.iter().map(|s| pipe::line_of(text, s.0)).collect());
        } else if dg.is_error && v.other_error.is_none() {
            v.other_error = Some(dg.code.clone());
        }
    }
    Some(v)
}

pub fn decide(d: &mut Draw) -> Outcome {
    let c = generate(d);
    let dsg = &c.dsg;
    let crossing: Vec<bool> = dsg.items.iter().map(|it| dsg.item_crossing(it)).collect();
    let open_crossing: Vec<bool> = dsg.items.iter().zip(&crossing).map(|(it, x)| *x && !it.unsafe_cdc).collect();
    let expect_error = open_crossing.iter().any(|x| *x);
    let mut classes: Vec<String> = c.classes.iter().cloned().collect();

    // ---- (i) fully annotated ------------------------------------------------
    let (text_i, ranges) = dsg.text(&Mode::Full, false);
    let Some(vi) = analyse(&text_i) else {
        return Outcome::fail("harness:generated-design-does-not-parse", "variant (i) does not parse", json!({"src": text_i}));
    };
    if let Some(e) = &vi.other_error {
        return Outcome::skip(format!("other error: {e}"));
    }
    let got_error = !vi.lines.is_empty();
    let fail = |sig: &str, msg: String, text: &str| {
        Outcome::fail(sig, format!("{msg}\n--- design ---\n{text}"), json!({"src": text}))
    };
    if expect_error && !got_error {
        // name the shape if every open crossing is an instance whose first
        // connection is a constant
        let all_const_first = dsg
            .items
            .iter()
            .zip(&open_crossing)
            .filter(|(_, o)| **o)
            .all(|(it, _)| dsg.inst_first_conn_constant(it));
        let all_elsif = dsg
            .items
            .iter()
            .zip(&open_crossing)
            .filter(|(_, o)| **o)
            .all(|(it, _)| dsg.ff_reset_elsif_cond_only(it));
        let sig = if all_const_first {
            "crossing-missed:instance-first-connection-constant"
        } else if all_elsif {
            "crossing-missed:if_reset-else-if-condition"
        } else {
            "crossing-missed"
        };
        let which: Vec<usize> = (0..dsg.items.len()).filter(|i| open_crossing[*i]).collect();
        return fail(
            sig,
            format!("items {which:?} (0-based, lines {:?}) connect different clock domains outside unsafe (cdc), but no MismatchClockDomain is reported", which.iter().map(|i| ranges[*i]).collect::<Vec<_>>()),
            &text_i,
        );
    }
    if !expect_error && got_error {
        return fail(
            "false-crossing",
            format!("MismatchClockDomain reported at lines {:?}, but every item stays in one domain or is inside unsafe (cdc)", vi.lines),
            &text_i,
        );
    }
    // every report must sit on an open crossing item, every open crossing item must be reported
    let item_of = |line: usize| ranges.iter().position(|(a, b)| *a <= line && line <= *b);
    let mut reported_items: BTreeSet<usize> = BTreeSet::new();
    let mut unattributed = 0;
    for ls in &vi.lines {
        let items: BTreeSet<usize> = ls.iter().filter_map(|l| item_of(*l)).collect();
        if items.is_empty() {
            // both labels on declarations (always_ff clock vs reset ports)
            unattributed += 1;
            continue;
        }
        if !items.iter().any(|i| open_crossing[*i]) {
            return fail(
                "false-crossing:located-on-clean-item",
                format!("a MismatchClockDomain report points at lines {ls:?}, none of which belongs to a crossing item outside unsafe (cdc)"),
                &text_i,
            );
        }
        reported_items.extend(items);
    }
    for i in 0..dsg.items.len() {
        if open_crossing[i] && !reported_items.contains(&i) {
            let ff_with_reset = matches!(dsg.items[i].kind, IK::Ff { rst: Some(_), .. });
            if unattributed > 0 && ff_with_reset {
                classes.push("located:clock-vs-reset-on-declarations".into());
                continue;
            }
            let sig = if dsg.inst_first_conn_constant(&dsg.items[i]) {
                "crossing-missed:instance-first-connection-constant"
            } else if dsg.ff_reset_elsif_cond_only(&dsg.items[i]) {
                "crossing-missed:if_reset-else-if-condition"
            } else {
                "crossing-missed:one-of-several"
            };
            return fail(
                sig,
                format!("item {i} (lines {:?}) connects different clock domains outside unsafe (cdc); other crossings are reported, this one is not", ranges[i]),
                &text_i,
            );
        }
    }
    // ---- (ii) collapse ------------------------------------------------------
    let mode_ii = match d.weighted(&[2, 2, 1]) {
        0 => Mode::CollapseNamed,
        1 => Mode::CollapseUnderscore,
        _ => Mode::CollapseBare,
    };
    let (text_ii, _) = dsg.text(&mode_ii, false);
    match analyse(&text_ii) {
        None => return fail("harness:generated-design-does-not-parse", "variant (ii) does not parse".into(), &text_ii),
        Some(v) => {
            if let Some(e) = v.other_error {
                return Outcome::skip(format!("collapsed variant: other error: {e}"));
            }
            if !v.lines.is_empty() {
                return fail(
                    "collapsed-design-reported",
                    format!("all domains collapsed into one ({mode_ii:?}), yet MismatchClockDomain is reported at lines {:?}", v.lines),
                    &text_ii,
                );
            }
        }
    }
    classes.push(format!("collapse:{}", match mode_ii { Mode::CollapseNamed => "'a", Mode::CollapseUnderscore => "'_", _ => "bare" }));
    // ---- (iii) every crossing inside unsafe (cdc) -----------------------------
    if crossing.iter().any(|x| *x) {
        let (text_iii, _) = dsg.text(&Mode::Full, true);
        match analyse(&text_iii) {
            None => return fail("harness:generated-design-does-not-parse", "variant (iii) does not parse".into(), &text_iii),
            Some(v) => {
                if v.other_error.is_none() && !v.lines.is_empty() {
                    return fail(
                        "unsafe-cdc-not-honoured",
                        format!("every crossing item is wrapped in unsafe (cdc), yet MismatchClockDomain is reported at lines {:?}", v.lines),
                        &text_iii,
                    );
                }
            }
        }
        classes.push("variant:all-crossings-wrapped".into());
    }
    // ---- (iv) inference instead of annotation ---------------------------------
    if !c.infer_sigs.is_empty() || !c.infer_ifs.is_empty() {
        let mode_iv = Mode::Infer {
            sigs: c.infer_sigs.clone(),
            ifs: c.infer_ifs.clone(),
            underscore: d.bool(),
        };
        let (text_iv, _) = dsg.text(&mode_iv, false);
        match analyse(&text_iv) {
            None => return fail("harness:generated-design-does-not-parse", "variant (iv) does not parse".into(), &text_iv),
            Some(v) => {
                if let Some(e) = v.other_error {
                    return Outcome::skip(format!("inferred variant: other error: {e}"));
                }
                let got_iv = !v.lines.is_empty();
                if got_iv != got_error {
                    let dyn_lhs_inferred = dsg.items.iter().any(|it| {
                        matches!(&it.kind, IK::Assign { lhs: Lhs::One(t, LSel::Dyn(_)), .. } if c.infer_sigs.contains(t))
                    });
                    let sig = if dyn_lhs_inferred && got_iv && !got_error {
                        "inferred-differs:lhs-index-checked-before-inference"
                    } else if c.use_before_def && got_iv && !got_error {
                        "inferred-differs:read-before-inferring-assignment"
                    } else {
                        "inferred-differs"
                    };
                    let names: Vec<&str> = c.infer_sigs.iter().map(|s| dsg.sigs[*s].name.as_str()).collect();
                    let ifn: Vec<&str> = c.infer_ifs.iter().map(|k| dsg.ifs[*k].name.as_str()).collect();
                    return fail(
                        sig,
                        format!(
                            "with explicit annotations the design is {}, with the annotations of {names:?} / interface instances {ifn:?} left to inference it is {} (lines {:?})",
                            if got_error { "rejected" } else { "accepted" },
                            if got_iv { "rejected" } else { "accepted" },
                            v.lines
                        ),
                        &text_iv,
                    );
                }
            }
        }
        classes.push("variant:inferred".into());
        classes.push(format!("inferred-signals:{}", (c.infer_sigs.len() + c.infer_ifs.len()).min(4)));
    }
    classes.push(if expect_error { "verdict:rejected".into() } else { "verdict:accepted".into() });
    classes.push(format!("crossings:{}", crossing.iter().filter(|x| **x).count().min(3)));
    classes.push(format!("domains:{}", dsg.doms.len()));
    if dsg.doms.contains(&Dom::U) {
        classes.push("domain:'_".into());
    }
    let through = c.classes.contains("flow:instance") || c.classes.contains("flow:interface-member");
    Outcome::pass(hash_str(&text_i), dsg.doms.len() >= 2 && through, classes, text_i)
}

pub fn run(ctx: &Ctx) {
    let n = ctx.scale(1500, 60_000);
    ctx.run("domains", crate::c15::shrink_cfg(CaseCfg::cases(n).choices(1200)), |d: &mut Draw| crate::c15::expose(decide(d)));
    ctx.assume("a crossing = one declaration whose connected signals (lhs, rhs operands, select indices, guarding conditions, always_ff clock/reset; per child-domain port group for an instance) lie in ≥ 2 domains; constants have no domain; '_ is a domain of its own");
    ctx.assume("inference replaces an annotation only for a variable / output / interface instance assigned by exactly one non-crossing item (first right-hand side has a signal, or always_ff clock)");
    ctx.finish(
        "exploration",
        "multi-domain designs (2–4 domains incl. '_; assign / always_comb / always_ff / instances / interface members; 0–2 crossings by kind) analysed four ways: annotated vs model with per-item location, collapsed, all crossings wrapped, inferred; non-trivial = ≥ 2 domains and a flow through an instance or interface member",
    );
}
