//! Generator of the C15 driver dialect.  Segment-first: every variable unit
//! (scalar, array element, struct field) gets a *write plan* placed around
//! the boundary (whole, adjacent split, one-bit overlap, one-bit gap, twice,
//! never), every segment gets an owner process, then each process body is
//! built around its segments with branch shapes that are complete, or
//! incomplete by one arm / one bit.

use crate::drv_ir::*;
use std::collections::BTreeSet;
use vcore::Draw;

#[derive(Clone, Copy, PartialEq, Debug)]
enum Kind {
    Comb,
    Ff,
    Inst,
    Assign,
}

#[derive(Clone, Debug)]
enum Tgt {
    One(Ref),
    /// `for i in 0..n { a[i] = …; }` over the first `n` elements of array `var`
    ArrLoop { var: usize, n: usize },
}

impl Tgt {
    fn var(&self) -> usize {
        match self {
            Tgt::One(r) => r.var,
            Tgt::ArrLoop { var, .. } => *var,
        }
    }
}

pub struct GenOut {
    pub design: Design,
    pub classes: BTreeSet<String>,
    /// an adjacent / overlapping / gapped split is present
    pub boundary: bool,
}

struct Ctx<'a> {
    vars: &'a [VarDecl],
    /// variables whose bits may be read by the current process
    readable: Vec<usize>,
    /// own targets that may be read (lower target ids), always_comb only
    own: Vec<Ref>,
    in_loop: bool,
    sel_next: usize,
    var_cond: bool,
}

fn sub_ref(t: &Ref, off: usize, w: usize) -> Ref {
    // the `w`-bit slice starting `off` bits into `t` (t must be constant)
    let base = match &t.sel {
        Sel::All => 0,
        Sel::Bit(Ix::C(b)) => *b,
        Sel::Bit(Ix::L(_)) => 0,
        Sel::Rng(_, l) => *l,
    };
    let lo = base + off;
    Ref {
        var: t.var,
        elem: t.elem.clone(),
        field: t.field,
        sel: if w == 1 { Sel::Bit(Ix::C(lo)) } else { Sel::Rng(lo + w - 1, lo) },
    }
}

fn leaf(d: &mut Draw, w: usize, cx: &Ctx) -> Expr {
    let have_var = !cx.readable.is_empty();
    let have_own = !cx.own.is_empty();
    let loop_bit = cx.in_loop && w == 1;
    let k = d.weighted(&[
        4,
        2,
        if have_var { 4 } else { 0 },
        if have_own { 3 } else { 0 },
        if loop_bit { 6 } else { 0 },
    ]);
    match k {
        0 => {
            let span = if w <= 8 && d.bool() { 8 } else { 200 };
            let lo = d.below_usize(span - w + 1);
            Expr::D(lo + w - 1, lo)
        }
        1 => Expr::K(w, d.below(256) as u64),
        2 => {
            let u = *d.pick(&cx.readable);
            let vd = &cx.vars[u];
            let elem = Ix::C(if vd.array { d.below_usize(vd.elems) } else { 0 });
            let field = if vd.fields.is_empty() { None } else { Some(d.below_usize(vd.fields.len())) };
            let uw = vd.unit_width(field);
            let unit = Ref {
                var: u,
                elem,
                field,
                sel: Sel::All,
            };
            if uw == w && d.bool() {
                Expr::Rd(unit)
            } else if uw >= w {
                // reads of a wide variable prefer slices that touch a word boundary
                let off = if uw > 64 && d.bool() {
                    let b = if uw > 128 && d.bool() { 128 } else { 64 };
                    let lo_min = (b + 1usize).saturating_sub(w);
                    let lo_max = b.min(uw - w);
                    if lo_min <= lo_max { lo_min + d.below_usize(lo_max - lo_min + 1) } else { d.below_usize(uw - w + 1) }
                } else {
                    d.below_usize(uw - w + 1)
                };
                Expr::Rd(sub_ref(&unit, off, w))
            } else {
                Expr::Cat(vec![Expr::K(w - uw, d.below(4) as u64), Expr::Rd(unit)])
            }
        }
        3 => {
            let t = d.pick(&cx.own).clone();
            let tw = t.width(cx.vars);
            if tw == w {
                Expr::Rd(t)
            } else if tw > w {
                let off = d.below_usize(tw - w + 1);
                Expr::Rd(sub_ref(&t, off, w))
            } else {
                Expr::Cat(vec![Expr::K(w - tw, 0), Expr::Rd(t)])
            }
        }
        _ => Expr::DL(0),
    }
}

fn expr(d: &mut Draw, w: usize, cx: &Ctx) -> Expr {
    match d.weighted(&[12, 4, if w >= 2 { 2 } else { 0 }, 1]) {
        0 => leaf(d, w, cx),
        1 => {
            let op = *d.pick(&['&', '|', '^']);
            Expr::Bin(op, Box::new(leaf(d, w, cx)), Box::new(leaf(d, w, cx)))
        }
        2 => {
            let w1 = 1 + d.below_usize(w - 1);
            Expr::Cat(vec![leaf(d, w1, cx), leaf(d, w - w1, cx)])
        }
        _ => Expr::Not(Box::new(leaf(d, w, cx))),
    }
}

fn cond(d: &mut Draw, cx: &mut Ctx) -> Expr {
    if cx.var_cond && d.chance(1, 3) {
        // a variable bit as the condition (read in a condition)
        if !cx.own.is_empty() && d.bool() {
            let t = d.pick(&cx.own).clone();
            let tw = t.width(cx.vars);
            return Expr::Rd(sub_ref(&t, d.below_usize(tw), 1));
        }
        if !cx.readable.is_empty() {
            return leaf_var_bit(d, cx);
        }
    }
    let k = cx.sel_next % 16;
    cx.sel_next += 1;
    Expr::S(k, k)
}

fn leaf_var_bit(d: &mut Draw, cx: &Ctx) -> Expr {
    let u = *d.pick(&cx.readable);
    let vd = &cx.vars[u];
    let elem = Ix::C(if vd.array { d.below_usize(vd.elems) } else { 0 });
    let field = if vd.fields.is_empty() { None } else { Some(d.below_usize(vd.fields.len())) };
    let uw = vd.unit_width(field);
    let unit = Ref {
        var: u,
        elem,
        field,
        sel: Sel::All,
    };
    Expr::Rd(sub_ref(&unit, d.below_usize(uw), 1))
}

fn asg(d: &mut Draw, t: &Ref, cx: &Ctx) -> Stmt {
    Stmt::Asg(t.clone(), expr(d, t.width(cx.vars), cx))
}

/// t without its top bit (t at least 2 bits wide, constant)
fn drop_top(t: &Ref, vars: &[VarDecl]) -> Ref {
    let w = t.width(vars);
    sub_ref(t, 0, w - 1)
}

fn case_sel(cx: &mut Ctx, sw: usize) -> Expr {
    let k = cx.sel_next % (16 - sw + 1);
    cx.sel_next += sw;
    Expr::S(k + sw - 1, k)
}

/// statements that make `t` written in an always_comb, in one of the shapes
/// of the property; `tail` receives statements to be placed at the end of the
/// process (a late covering write)
fn comb_chunk(d: &mut Draw, t: &Ref, cx: &mut Ctx, cls: &mut BTreeSet<String>, tail: &mut Vec<Stmt>) -> Vec<Stmt> {
    let w = t.width(cx.vars);
    let loopable = w >= 2 && w <= 16 && t.field.is_none() && !matches!(t.sel, Sel::Bit(_));
    let k = d.weighted(&[
        6,  // plain
        6,  // default then override
        6,  // if / else
        3,  // if without else
        3,  // case with default
        2,  // case without default, not full
        1,  // case without default, full
        2,  // switch with default
        1,  // switch without default
        if w >= 2 { 3 } else { 0 },  // one arm misses one bit
        if loopable { 4 } else { 0 }, // bit loop
        3,  // nested if
        1,  // incomplete, covered by a late write
        if cx.own.is_empty() { 0 } else { 2 }, // read in one arm, written in the other
        if cx.own.is_empty() || w < 2 { 0 } else { 1 }, // low bit written, all read, all written
        if w >= 2 { 9 } else { 0 }, // defaults split over nesting levels, then a nested branch
    ]);
    match k {
        0 => {
            cls.insert("comb:plain".into());
            vec![asg(d, t, cx)]
        }
        1 => {
            cls.insert("comb:default-then-override".into());
            let a = asg(d, t, cx);
            let c = cond(d, cx);
            let b = if w >= 2 && d.chance(1, 3) {
                asg(d, &drop_top(t, cx.vars), cx)
            } else {
                asg(d, t, cx)
            };
            vec![
                a,
                Stmt::If {
                    c,
                    t: vec![b],
                    e: None,
                },
            ]
        }
        2 => {
            cls.insert("comb:if-else".into());
            let c = cond(d, cx);
            let a = asg(d, t, cx);
            let b = asg(d, t, cx);
            vec![Stmt::If {
                c,
                t: vec![a],
                e: Some(vec![b]),
            }]
        }
        3 => {
            cls.insert("comb:if-no-else".into());
            let c = cond(d, cx);
            let a = asg(d, t, cx);
            vec![Stmt::If {
                c,
                t: vec![a],
                e: None,
            }]
        }
        4..=6 => {
            let sw = 2;
            let s = case_sel(cx, sw);
            let (arms_pats, def): (Vec<Vec<Pat>>, bool) = match k {
                4 => {
                    cls.insert("comb:case-default".into());
                    match d.below(3) {
                        0 => (vec![vec![Pat::V(0)]], true),
                        1 => (vec![vec![Pat::V(0), Pat::V(2)], vec![Pat::V(1)]], true),
                        _ => (vec![vec![Pat::R(0, 1)], vec![Pat::V(3)]], true),
                    }
                }
                5 => {
                    cls.insert("comb:case-no-default".into());
                    match d.below(3) {
                        0 => (vec![vec![Pat::V(0)], vec![Pat::V(1)]], false),
                        1 => (vec![vec![Pat::V(0)], vec![Pat::V(1)], vec![Pat::V(2)]], false),
                        _ => (vec![vec![Pat::R(0, 2)]], false),
                    }
                }
                _ => {
                    cls.insert("comb:case-full-no-default".into());
                    match d.below(2) {
                        0 => (
                            vec![vec![Pat::V(0)], vec![Pat::V(1)], vec![Pat::V(2)], vec![Pat::V(3)]],
                            false,
                        ),
                        _ => (vec![vec![Pat::R(0, 1)], vec![Pat::V(2), Pat::V(3)]], false),
                    }
                }
            };
            // one arm may skip the write (only when a default exists, so that
            // the no-default shapes stay exactly at their boundary)
            let skip = if def && d.chance(1, 5) { Some(d.below_usize(arms_pats.len())) } else { None };
            if skip.is_some() {
                cls.insert("comb:case-arm-missing".into());
            }
            let arms: Vec<(Vec<Pat>, Vec<Stmt>)> = arms_pats
                .into_iter()
                .enumerate()
                .map(|(i, p)| (p, if Some(i) == skip { vec![] } else { vec![asg(d, t, cx)] }))
                .collect();
            let defb = if def { Some(vec![asg(d, t, cx)]) } else { None };
            vec![Stmt::Case {
                s,
                sw,
                arms,
                def: defb,
            }]
        }
        7 | 8 => {
            let n = 1 + d.below_usize(2);
            let arms: Vec<(Expr, Vec<Stmt>)> = (0..n)
                .map(|_| {
                    let c = cond(d, cx);
                    (c, vec![asg(d, t, cx)])
                })
                .collect();
            let def = if k == 7 {
                cls.insert("comb:switch-default".into());
                Some(vec![asg(d, t, cx)])
            } else {
                cls.insert("comb:switch-no-default".into());
                None
            };
            vec![Stmt::Switch { arms, def }]
        }
        9 => {
            cls.insert("comb:arm-misses-one-bit".into());
            let c = cond(d, cx);
            let a = asg(d, t, cx);
            let b = asg(d, &drop_top(t, cx.vars), cx);
            let (x, y) = if d.bool() { (a, b) } else { (b, a) };
            vec![Stmt::If {
                c,
                t: vec![x],
                e: Some(vec![y]),
            }]
        }
        10 => {
            // bit loop over the target's range
            let (lo, hi) = match &t.sel {
                Sel::Rng(h, l) => (*l, *h),
                _ => (0, w - 1),
            };
            let bit = Ref {
                var: t.var,
                elem: t.elem.clone(),
                field: None,
                sel: Sel::Bit(Ix::L(0)),
            };
            let saved = cx.in_loop;
            cx.in_loop = true;
            let shape = d.weighted(&[4, 2, 2, 2]);
            let (hi_excl, body) = match shape {
                0 => {
                    cls.insert("comb:loop-complete".into());
                    (hi + 1, vec![asg(d, &bit, cx)])
                }
                1 => {
                    cls.insert("comb:loop-misses-top-bit".into());
                    (hi, vec![asg(d, &bit, cx)])
                }
                2 => {
                    cls.insert("comb:loop-if-no-else".into());
                    let a = asg(d, &bit, cx);
                    (
                        hi + 1,
                        vec![Stmt::If {
                            c: Expr::SL(0),
                            t: vec![a],
                            e: None,
                        }],
                    )
                }
                _ => {
                    cls.insert("comb:loop-if-else".into());
                    let a = asg(d, &bit, cx);
                    let b = asg(d, &bit, cx);
                    (
                        hi + 1,
                        vec![Stmt::If {
                            c: Expr::SL(0),
                            t: vec![a],
                            e: Some(vec![b]),
                        }],
                    )
                }
            };
            cx.in_loop = saved;
            if hi_excl <= lo {
                return vec![asg(d, t, cx)];
            }
            vec![Stmt::For {
                lo,
                hi: hi_excl,
                body,
            }]
        }
        11 => {
            let c1 = cond(d, cx);
            let c2 = cond(d, cx);
            let a = asg(d, t, cx);
            let b = asg(d, t, cx);
            let c = asg(d, t, cx);
            let inner_else = if d.chance(3, 4) {
                cls.insert("comb:nested-if-complete".into());
                Some(vec![b])
            } else {
                cls.insert("comb:nested-if-inner-no-else".into());
                None
            };
            vec![Stmt::If {
                c: c1,
                t: vec![Stmt::If {
                    c: c2,
                    t: vec![a],
                    e: inner_else,
                }],
                e: Some(vec![c]),
            }]
        }
        13 => {
            // an earlier target of this process receives a value read from
            // `t` in one arm; `t` is written in the other arm only
            cls.insert("comb:read-and-write-on-disjoint-arms".into());
            let sink = d.pick(&cx.own).clone();
            let sw = sink.width(cx.vars);
            let rd = if w >= sw {
                Expr::Rd(sub_ref(t, d.below_usize(w - sw + 1), sw))
            } else {
                Expr::Cat(vec![Expr::K(sw - w, 0), Expr::Rd(t.clone())])
            };
            let c = cond(d, cx);
            let wr = asg(d, t, cx);
            let rd_stmt = Stmt::Asg(sink, rd);
            let (x, y) = if d.bool() { (rd_stmt, wr) } else { (wr, rd_stmt) };
            vec![Stmt::If {
                c,
                t: vec![x],
                e: Some(vec![y]),
            }]
        }
        14 => {
            cls.insert("comb:part-written-all-read-all-written".into());
            let sink = d.pick(&cx.own).clone();
            let sw = sink.width(cx.vars);
            let rd = if w >= sw {
                // a slice that contains the not yet written top bit
                Expr::Rd(sub_ref(t, w - sw, sw))
            } else {
                Expr::Cat(vec![Expr::K(sw - w, 0), Expr::Rd(t.clone())])
            };
            let first = asg(d, &sub_ref(t, 0, 1), cx);
            let low_too = Stmt::Asg(sink.clone(), {
                // the sink also reads the already written low bit
                let lowbit = Expr::Rd(sub_ref(t, 0, 1));
                if sw == 1 {
                    Expr::Bin('&', Box::new(lowbit), Box::new(Expr::Rd(sub_ref(t, w - 1, 1))))
                } else {
                    Expr::Bin('^', Box::new(rd), Box::new(Expr::Cat(vec![Expr::K(sw - 1, 0), lowbit])))
                }
            });
            let last = asg(d, t, cx);
            vec![first, low_too, last]
        }
        15 => {
            // the defaults of `t` are split over two (three) nesting levels; a
            // nested case / if without default is covered only by their union
            cls.insert("nest:split-defaults".into());
            let three = w >= 3 && d.chance(1, 4);
            let ka = 1 + d.below_usize(if three { w - 2 } else { w - 1 });
            let kb = if three { 1 + d.below_usize(w - ka - 1) } else { w - ka };
            let a = sub_ref(t, 0, ka);
            let mut b = sub_ref(t, ka, kb);
            let c3 = if three { Some(sub_ref(t, ka + kb, w - ka - kb)) } else { None };
            // boundary: the union misses one bit
            let miss = d.chance(1, 4);
            let mut drop_b_in_else = false;
            if miss {
                cls.insert("nest:union-misses-a-bit".into());
                if kb >= 2 {
                    b = sub_ref(t, ka, kb - 1);
                } else {
                    drop_b_in_else = true;
                }
            }
            let in_loop = d.chance(1, 5);
            let c1 = if in_loop { Expr::SL(0) } else { cond(d, cx) };
            let top = asg(d, &a, cx);
            let narrower_default = d.chance(1, 3);
            // innermost statement: no default, or a default that writes less than `t`
            let inner_case = |d: &mut Draw, cx: &mut Ctx| -> Stmt {
                let s = case_sel(cx, 2);
                let arm0 = asg(d, t, cx);
                let arm1 = asg(d, t, cx);
                let def = if narrower_default { Some(vec![asg(d, &a, cx)]) } else { None };
                Stmt::Case {
                    s,
                    sw: 2,
                    arms: vec![(vec![Pat::V(0)], vec![arm0]), (vec![Pat::V(1), Pat::V(2)], vec![arm1])],
                    def,
                }
            };
            let inner_if = |d: &mut Draw, cx: &mut Ctx| -> Stmt {
                let c = cond(d, cx);
                let x = asg(d, t, cx);
                Stmt::If {
                    c,
                    t: vec![x],
                    e: None,
                }
            };
            let body: Stmt = if let Some(c3r) = c3 {
                cls.insert("nest:three-levels".into());
                let wb = asg(d, &b, cx);
                let wc = asg(d, &c3r, cx);
                let wc2 = asg(d, &c3r, cx);
                let s = case_sel(cx, 2);
                let innermost = if d.bool() { inner_if(d, cx) } else { inner_case(d, cx) };
                let mut else_b = vec![];
                if !drop_b_in_else {
                    else_b.push(asg(d, &b, cx));
                }
                else_b.push(asg(d, &c3r, cx));
                Stmt::If {
                    c: c1,
                    t: vec![
                        wb,
                        Stmt::Case {
                            s,
                            sw: 2,
                            arms: vec![(vec![Pat::V(1)], vec![wc, innermost])],
                            def: Some(vec![wc2]),
                        },
                    ],
                    e: Some(else_b),
                }
            } else if d.bool() {
                cls.insert("nest:if>case".into());
                let wb = asg(d, &b, cx);
                let inner = inner_case(d, cx);
                let else_b = if drop_b_in_else { vec![] } else { vec![asg(d, &b, cx)] };
                Stmt::If {
                    c: c1,
                    t: vec![wb, inner],
                    e: Some(else_b),
                }
            } else {
                cls.insert("nest:case>if".into());
                let wb = asg(d, &b, cx);
                let inner = if d.chance(1, 4) { inner_case(d, cx) } else { inner_if(d, cx) };
                let def_b = if drop_b_in_else { vec![] } else { vec![asg(d, &b, cx)] };
                let s = if in_loop { Expr::S(1, 0) } else { case_sel(cx, 2) };
                Stmt::Case {
                    s,
                    sw: 2,
                    arms: vec![(vec![Pat::V(0), Pat::V(3)], vec![wb, inner])],
                    def: Some(def_b),
                }
            };
            if in_loop {
                cls.insert("nest:default-before-unrolled-for".into());
                vec![
                    top,
                    Stmt::For {
                        lo: 0,
                        hi: 2,
                        body: vec![body],
                    },
                ]
            } else {
                vec![top, body]
            }
        }
        _ => {
            cls.insert("comb:incomplete-then-late-cover".into());
            let c = cond(d, cx);
            let a = asg(d, t, cx);
            tail.push(asg(d, t, cx));
            vec![Stmt::If {
                c,
                t: vec![a],
                e: None,
            }]
        }
    }
}

fn ff_chunk(d: &mut Draw, t: &Ref, cx: &mut Ctx, cls: &mut BTreeSet<String>) -> Vec<Stmt> {
    let w = t.width(cx.vars);
    let loopable = w >= 2 && w <= 16 && t.field.is_none() && !matches!(t.sel, Sel::Bit(_));
    match d.weighted(&[6, 4, 3, 2, if loopable { 2 } else { 0 }]) {
        0 => vec![asg(d, t, cx)],
        1 => {
            cls.insert("ff:if-no-else".into());
            let c = cond(d, cx);
            let a = asg(d, t, cx);
            vec![Stmt::If {
                c,
                t: vec![a],
                e: None,
            }]
        }
        2 => {
            let c = cond(d, cx);
            let a = asg(d, t, cx);
            let b = asg(d, t, cx);
            vec![Stmt::If {
                c,
                t: vec![a],
                e: Some(vec![b]),
            }]
        }
        3 => {
            cls.insert("ff:case-no-default".into());
            let s = case_sel(cx, 2);
            let a = asg(d, t, cx);
            vec![Stmt::Case {
                s,
                sw: 2,
                arms: vec![(vec![Pat::V(1)], vec![a])],
                def: None,
            }]
        }
        _ => {
            cls.insert("ff:loop".into());
            let (lo, hi) = match &t.sel {
                Sel::Rng(h, l) => (*l, *h),
                _ => (0, w - 1),
            };
            let bit = Ref {
                var: t.var,
                elem: t.elem.clone(),
                field: None,
                sel: Sel::Bit(Ix::L(0)),
            };
            let saved = cx.in_loop;
            cx.in_loop = true;
            let a = asg(d, &bit, cx);
            cx.in_loop = saved;
            vec![Stmt::For {
                lo,
                hi: hi + 1,
                body: vec![a],
            }]
        }
    }
}

fn arr_loop(d: &mut Draw, var: usize, n: usize, cx: &mut Ctx) -> Stmt {
    let el = Ref {
        var,
        elem: Ix::L(0),
        field: None,
        sel: Sel::All,
    };
    let w = cx.vars[var].width;
    // element loops keep the loop variable out of the right-hand side
    let saved = cx.in_loop;
    cx.in_loop = false;
    let e = expr(d, w, cx);
    cx.in_loop = saved;
    Stmt::For {
        lo: 0,
        hi: n,
        body: vec![Stmt::Asg(el, e)],
    }
}

pub fn generate(d: &mut Draw) -> GenOut {
    let mut cls: BTreeSet<String> = BTreeSet::new();
    // ---- variables --------------------------------------------------------
    let nvars = 2 + d.below_usize(4);
    // one variable wider than a machine word in about a quarter of the designs
    let wide_at = if d.chance(1, 4) { Some(d.below_usize(nvars)) } else { None };
    let mut vars: Vec<VarDecl> = vec![];
    for i in 0..nvars {
        let out = i == 0 || d.chance(1, 3);
        let shape = if wide_at == Some(i) {
            3
        } else if out {
            d.weighted(&[6, 2])
        } else {
            d.weighted(&[6, 2, 2])
        };
        let mut v = VarDecl {
            name: String::new(),
            out,
            array: false,
            elems: 1,
            fields: vec![],
            width: 1,
            sname: format!("S{i}"),
        };
        match shape {
            0 => {
                v.width = *d.pick(&[2usize, 1, 3, 4, 4, 6, 8]);
                v.name = format!("{}{i}", if out { "o" } else { "x" });
            }
            3 => {
                v.width = *d.pick(&[65usize, 64, 128, 129, 72, 100, 130, 192, 200, 96]);
                v.name = format!("{}{i}", if out { "ow" } else { "w" });
                cls.insert("wide:variable(64..200 bits)".into());
            }
            1 => {
                v.array = true;
                v.elems = 2 + d.below_usize(2);
                v.width = *d.pick(&[2usize, 1, 4]);
                v.name = format!("{}{i}", if out { "oa" } else { "a" });
            }
            _ => {
                let nf = 2 + d.below_usize(2);
                for k in 0..nf {
                    v.fields.push((format!("f{k}"), 1 + d.below_usize(3)));
                }
                v.width = v.fields.iter().map(|f| f.1).sum();
                v.name = format!("s{i}");
            }
        }
        vars.push(v);
    }
    // ---- block process slots ------------------------------------------------
    let nslots = 1 + d.below_usize(3);
    let slot_kind: Vec<Kind> = (0..nslots)
        .map(|_| match d.weighted(&[5, 2, 2]) {
            0 => Kind::Comb,
            1 => Kind::Ff,
            _ => Kind::Inst,
        })
        .collect();
    // owners: 0..nslots are the slots, higher numbers are single `assign`s
    let mut next_assign = nslots;
    let mut segs: Vec<(Tgt, usize)> = vec![];
    let mut boundary = false;
    let pick_owner = |d: &mut Draw, next_assign: &mut usize, not: Option<usize>| -> usize {
        for _ in 0..4 {
            let k = d.below_usize(nslots + 2);
            if k >= nslots {
                *next_assign += 1;
                return *next_assign - 1;
            }
            if Some(k) != not {
                return k;
            }
        }
        *next_assign += 1;
        *next_assign - 1
    };
    for (vi, v) in vars.iter().enumerate() {
        // an array entirely written by one loop
        if v.array && d.chance(1, 4) {
            let blocks: Vec<usize> = (0..nslots).filter(|s| slot_kind[*s] != Kind::Inst).collect();
            if !blocks.is_empty() {
                let o = *d.pick(&blocks);
                let n = if d.chance(1, 3) {
                    cls.insert("plan:array-loop-misses-last".into());
                    boundary = true;
                    v.elems - 1
                } else {
                    cls.insert("plan:array-loop".into());
                    v.elems
                };
                segs.push((Tgt::ArrLoop { var: vi, n }, o));
                continue;
            }
        }
        for e in 0..v.elems {
            let fields: Vec<Option<usize>> = if v.fields.is_empty() {
                vec![None]
            } else {
                (0..v.fields.len()).map(Some).collect()
            };
            for f in fields {
                let w = v.unit_width(f);
                let unit = Ref {
                    var: vi,
                    elem: Ix::C(e),
                    field: f,
                    sel: Sel::All,
                };
                if w > 64 {
                    // segments placed around the 64 / 128 bit word boundaries
                    let bounds: Vec<usize> = [64usize, 128].into_iter().filter(|b| *b < w).collect();
                    let mut ranges: Vec<(usize, usize)> = vec![]; // (lo, hi)
                    let shape = if bounds.is_empty() { 6 } else { d.weighted(&[5, 3, 3, 4, 3, 2, 1, 1]) };
                    let bnd = if bounds.is_empty() { 0 } else { *d.pick(&bounds) };
                    // a split point at, just below or just above the boundary
                    let k = if bounds.is_empty() { 1 } else { (bnd + d.below_usize(3)).saturating_sub(1).clamp(1, w - 1) };
                    match shape {
                        0 => {
                            cls.insert("wide:adjacent-at-word-boundary".into());
                            ranges.push((0, k - 1));
                            ranges.push((k, w - 1));
                        }
                        1 => {
                            cls.insert("wide:one-bit-overlap-at-word-boundary".into());
                            ranges.push((0, k));
                            ranges.push((k, w - 1));
                        }
                        2 => {
                            cls.insert("wide:one-bit-gap-at-word-boundary".into());
                            ranges.push((0, k - 1));
                            if k + 1 < w {
                                ranges.push((k + 1, w - 1));
                            }
                        }
                        3 => {
                            // a part-select that crosses the boundary, plus the rest
                            cls.insert("wide:select-crossing-word-boundary".into());
                            let lo = bnd - 1 - d.below_usize(40.min(bnd - 1));
                            let hi = (bnd + d.below_usize(40)).min(w - 1);
                            let skew = d.weighted(&[4, 1, 1]); // exact / overlap below / gap below
                            if lo >= 1 {
                                let below_hi = match skew {
                                    1 => lo,
                                    2 => lo.saturating_sub(2),
                                    _ => lo - 1,
                                };
                                ranges.push((0, below_hi.min(lo)));
                            }
                            ranges.push((lo, hi));
                            if hi + 1 < w {
                                ranges.push((hi + 1, w - 1));
                            }
                        }
                        4 => {
                            // single bits on both sides of the boundary
                            cls.insert("wide:single-bits-at-word-boundary".into());
                            if bnd >= 2 {
                                ranges.push((0, bnd - 2));
                            }
                            ranges.push((bnd - 1, bnd - 1));
                            ranges.push((bnd, bnd));
                            if bnd + 1 < w {
                                ranges.push((bnd + 1, w - 1));
                            }
                        }
                        5 => {
                            // selects wholly above the first word
                            cls.insert("wide:selects-above-bit-64".into());
                            ranges.push((0, 63));
                            if w > 66 {
                                let m = 65 + d.below_usize(w - 66);
                                ranges.push((64, m - 1));
                                let lo2 = match d.weighted(&[3, 1, 1]) {
                                    1 => m - 1,
                                    2 => m + 1,
                                    _ => m,
                                };
                                if lo2 < w {
                                    ranges.push((lo2, w - 1));
                                }
                            } else {
                                ranges.push((64, w - 1));
                            }
                        }
                        6 => {
                            ranges.push((0, w - 1));
                        }
                        _ => {
                            cls.insert("plan:whole-twice".into());
                            ranges.push((0, w - 1));
                            ranges.push((0, w - 1));
                        }
                    }
                    boundary = true;
                    let mut last: Option<usize> = None;
                    for (lo, hi) in ranges {
                        let o = if d.chance(4, 5) {
                            pick_owner(d, &mut next_assign, last)
                        } else {
                            last.unwrap_or_else(|| pick_owner(d, &mut next_assign, None))
                        };
                        last = Some(o);
                        segs.push((Tgt::One(sub_ref(&unit, lo, hi - lo + 1)), o));
                    }
                    continue;
                }
                let wide = w >= 2;
                let plan = d.weighted(&[
                    10,
                    if wide { 5 } else { 0 },
                    if wide { 2 } else { 0 },
                    if wide { 3 } else { 0 },
                    1,
                    1,
                ]);
                match plan {
                    0 => {
                        let o = pick_owner(d, &mut next_assign, None);
                        // whole unit, sometimes written with an explicit full range
                        let r = if d.chance(1, 4) { sub_ref(&unit, 0, w) } else { unit.clone() };
                        segs.push((Tgt::One(r), o));
                    }
                    1 => {
                        cls.insert("plan:adjacent-split".into());
                        boundary = true;
                        let k = 1 + d.below_usize(w - 1);
                        let o1 = pick_owner(d, &mut next_assign, None);
                        let o2 = if d.chance(3, 4) {
                            pick_owner(d, &mut next_assign, Some(o1))
                        } else {
                            o1
                        };
                        segs.push((Tgt::One(sub_ref(&unit, 0, k)), o1));
                        segs.push((Tgt::One(sub_ref(&unit, k, w - k)), o2));
                    }
                    2 => {
                        cls.insert("plan:one-bit-overlap".into());
                        boundary = true;
                        let k = d.below_usize(w);
                        let o1 = pick_owner(d, &mut next_assign, None);
                        let o2 = if d.chance(5, 6) {
                            pick_owner(d, &mut next_assign, Some(o1))
                        } else {
                            cls.insert("plan:overlap-same-process".into());
                            o1
                        };
                        segs.push((Tgt::One(sub_ref(&unit, 0, k + 1)), o1));
                        segs.push((Tgt::One(sub_ref(&unit, k, w - k)), o2));
                    }
                    3 => {
                        cls.insert("plan:one-bit-gap".into());
                        boundary = true;
                        let k = d.below_usize(w);
                        if k >= 1 {
                            let o1 = pick_owner(d, &mut next_assign, None);
                            segs.push((Tgt::One(sub_ref(&unit, 0, k)), o1));
                        }
                        if k + 1 < w {
                            let o2 = pick_owner(d, &mut next_assign, None);
                            segs.push((Tgt::One(sub_ref(&unit, k + 1, w - k - 1)), o2));
                        }
                    }
                    4 => {
                        cls.insert("plan:never-assigned".into());
                    }
                    _ => {
                        cls.insert("plan:whole-twice".into());
                        let o1 = pick_owner(d, &mut next_assign, None);
                        let o2 = pick_owner(d, &mut next_assign, Some(o1));
                        segs.push((Tgt::One(unit.clone()), o1));
                        segs.push((Tgt::One(unit.clone()), o2));
                    }
                }
            }
        }
    }
    // ---- who may read what (no combinational cycles by construction) --------
    let owner_kind = |o: usize| if o < nslots { slot_kind[o] } else { Kind::Assign };
    let mut comb_written = vec![false; vars.len()];
    for (t, o) in &segs {
        if owner_kind(*o) != Kind::Ff {
            comb_written[t.var()] = true;
        }
    }
    let owners: Vec<usize> = {
        let mut s: Vec<usize> = segs.iter().map(|x| x.1).collect();
        s.sort();
        s.dedup();
        s
    };
    let self_reads = d.chance(1, 2);
    let var_cond = d.chance(1, 10);
    let inst_reads_vars = d.chance(1, 2);
    if var_cond {
        cls.insert("shape:variable-bit-as-condition".into());
    }
    let mut procs: Vec<Proc> = vec![];
    for o in owners {
        let kind = owner_kind(o);
        let tgts: Vec<Tgt> = segs.iter().filter(|s| s.1 == o).map(|s| s.0.clone()).collect();
        let minw = tgts.iter().map(|t| t.var()).min().unwrap();
        let readable: Vec<usize> = (0..vars.len())
            .filter(|u| kind == Kind::Ff || !comb_written[*u] || *u < minw)
            .collect();
        let mut cx = Ctx {
            vars: &vars,
            readable,
            own: vec![],
            in_loop: false,
            sel_next: d.below_usize(16),
            var_cond,
        };
        match kind {
            Kind::Assign => {
                let Tgt::One(t) = &tgts[0] else { unreachable!() };
                procs.push(Proc::Assign(t.clone(), expr(d, t.width(&vars), &cx)));
            }
            Kind::Inst => {
                let outs: Vec<Ref> = tgts
                    .iter()
                    .filter_map(|t| if let Tgt::One(r) = t { Some(r.clone()) } else { None })
                    .collect();
                if !inst_reads_vars {
                    cx.readable.clear();
                }
                let nin = 1 + d.below_usize(2);
                let ins: Vec<Expr> = (0..nin)
                    .map(|_| {
                        let w = *d.pick(&[1usize, 2, 4]);
                        expr(d, w, &cx)
                    })
                    .collect();
                procs.push(Proc::Inst { ins, outs });
            }
            Kind::Ff => {
                let mut body = vec![];
                for t in &tgts {
                    match t {
                        Tgt::One(r) => body.extend(ff_chunk(d, r, &mut cx, &mut cls)),
                        Tgt::ArrLoop { var, n } => body.push(arr_loop(d, *var, *n, &mut cx)),
                    }
                }
                procs.push(Proc::Ff(body));
            }
            Kind::Comb => {
                let mut chunks: Vec<Vec<Stmt>> = vec![];
                let mut tail: Vec<Stmt> = vec![];
                for t in &tgts {
                    let chunk = match t {
                        Tgt::One(r) => {
                            let c = comb_chunk(d, r, &mut cx, &mut cls, &mut tail);
                            if self_reads {
                                cx.own.push(r.clone());
                            }
                            c
                        }
                        Tgt::ArrLoop { var, n } => vec![arr_loop(d, *var, *n, &mut cx)],
                    };
                    // earlier targets may be read by this chunk; the chunk
                    // lands before or after their writes
                    let pos = d.below_usize(chunks.len() + 1);
                    chunks.insert(pos, chunk);
                }
                let mut body: Vec<Stmt> = chunks.into_iter().flatten().collect();
                body.extend(tail);
                procs.push(Proc::Comb(body));
            }
        }
    }
    for p in &procs {
        cls.insert(format!("proc:{}", p.kind()));
    }
    let design = Design {
        vars,
        procs,
        ff_explicit_clock: d.bool(),
    };
    GenOut {
        design,
        classes: cls,
        boundary,
    }
}
