//! The "driver dialect" IR of C15: small modules whose variables are written
//! at constant bit / part-select positions from several processes.  The IR
//! prints itself as Veryl and is interpreted by `drv_model` (the oracle);
//! nothing here looks at the analyzer.

use std::fmt::Write;

#[derive(Clone, Debug)]
pub struct VarDecl {
    pub name: String,
    /// output port (read by the parent by definition) or internal `var`
    pub out: bool,
    /// unpacked array?  (`elems` elements, else 1)
    pub array: bool,
    pub elems: usize,
    /// packed struct fields, MSB first (empty = plain `logic<width>`)
    pub fields: Vec<(String, usize)>,
    /// width of one element
    pub width: usize,
    pub sname: String,
}

impl VarDecl {
    pub fn bits(&self) -> usize {
        self.elems * self.width
    }
    /// LSB offset of field `k` inside an element
    pub fn field_off(&self, k: usize) -> usize {
        self.fields[k + 1..].iter().map(|f| f.1).sum()
    }
    pub fn unit_width(&self, field: Option<usize>) -> usize {
        match field {
            Some(k) => self.fields[k].1,
            None => self.width,
        }
    }
    pub fn full_mask(&self) -> Bits {
        mask(self.bits() - 1, 0)
    }
}

/// a set of flat bit positions (up to 256 bits: variables are at most 200 wide)
#[derive(Clone, Copy, PartialEq, Eq, Default, Debug)]
pub struct Bits(pub [u64; 4]);

impl Bits {
    pub const ZERO: Bits = Bits([0; 4]);
    pub fn any(self) -> bool {
        self.0.iter().any(|w| *w != 0)
    }
    pub fn none(self) -> bool {
        !self.any()
    }
    pub fn bit(self, b: usize) -> bool {
        self.0[b / 64] >> (b % 64) & 1 == 1
    }
}
impl std::ops::BitAnd for Bits {
    type Output = Bits;
    fn bitand(self, o: Bits) -> Bits {
        Bits([self.0[0] & o.0[0], self.0[1] & o.0[1], self.0[2] & o.0[2], self.0[3] & o.0[3]])
    }
}
impl std::ops::BitOr for Bits {
    type Output = Bits;
    fn bitor(self, o: Bits) -> Bits {
        Bits([self.0[0] | o.0[0], self.0[1] | o.0[1], self.0[2] | o.0[2], self.0[3] | o.0[3]])
    }
}
impl std::ops::BitXor for Bits {
    type Output = Bits;
    fn bitxor(self, o: Bits) -> Bits {
        Bits([self.0[0] ^ o.0[0], self.0[1] ^ o.0[1], self.0[2] ^ o.0[2], self.0[3] ^ o.0[3]])
    }
}
impl std::ops::Not for Bits {
    type Output = Bits;
    fn not(self) -> Bits {
        Bits([!self.0[0], !self.0[1], !self.0[2], !self.0[3]])
    }
}
impl std::ops::BitOrAssign for Bits {
    fn bitor_assign(&mut self, o: Bits) {
        *self = *self | o;
    }
}
impl std::ops::BitAndAssign for Bits {
    fn bitand_assign(&mut self, o: Bits) {
        *self = *self & o;
    }
}

/// bits `lo..=hi`
pub fn mask(hi: usize, lo: usize) -> Bits {
    assert!(hi >= lo && hi < 256);
    let mut b = [0u64; 4];
    for i in lo..=hi {
        b[i / 64] |= 1u64 << (i % 64);
    }
    Bits(b)
}

/// constant, or the enclosing loop variable plus an offset
#[derive(Clone, Debug, PartialEq)]
pub enum Ix {
    C(usize),
    L(usize),
}

impl Ix {
    pub fn val(&self, lv: Option<usize>) -> usize {
        match self {
            Ix::C(c) => *c,
            Ix::L(off) => lv.expect("loop index outside a loop") + off,
        }
    }
    fn text(&self) -> String {
        match self {
            Ix::C(c) => format!("{c}"),
            Ix::L(0) => "i".into(),
            Ix::L(off) => format!("i + {off}"),
        }
    }
}

#[derive(Clone, Debug, PartialEq)]
pub enum Sel {
    All,
    Bit(Ix),
    /// `[hi:lo]`, relative to the field / element
    Rng(usize, usize),
}

#[derive(Clone, Debug, PartialEq)]
pub struct Ref {
    pub var: usize,
    /// ignored unless the variable is an array
    pub elem: Ix,
    pub field: Option<usize>,
    pub sel: Sel,
}

impl Ref {
    pub fn width(&self, vars: &[VarDecl]) -> usize {
        match &self.sel {
            Sel::All => vars[self.var].unit_width(self.field),
            Sel::Bit(_) => 1,
            Sel::Rng(h, l) => h - l + 1,
        }
    }
    /// flat bit mask (element-major) this reference denotes
    pub fn mask(&self, vars: &[VarDecl], lv: Option<usize>) -> Bits {
        let v = &vars[self.var];
        let e = if v.array { self.elem.val(lv) } else { 0 };
        assert!(e < v.elems, "element out of range in generated design");
        let (fo, fw) = match self.field {
            Some(k) => (v.field_off(k), v.fields[k].1),
            None => (0, v.width),
        };
        let (hi, lo) = match &self.sel {
            Sel::All => (fw - 1, 0),
            Sel::Bit(ix) => {
                let b = ix.val(lv);
                (b, b)
            }
            Sel::Rng(h, l) => (*h, *l),
        };
        assert!(hi < fw, "select out of range in generated design");
        let base = e * v.width + fo;
        mask(base + hi, base + lo)
    }
    pub fn text(&self, vars: &[VarDecl]) -> String {
        let v = &vars[self.var];
        let mut s = v.name.clone();
        if v.array {
            let _ = write!(s, "[{}]", self.elem.text());
        }
        if let Some(k) = self.field {
            let _ = write!(s, ".{}", v.fields[k].0);
        }
        match &self.sel {
            Sel::All => {}
            Sel::Bit(ix) => {
                let _ = write!(s, "[{}]", ix.text());
            }
            Sel::Rng(h, l) => {
                let _ = write!(s, "[{h}:{l}]");
            }
        }
        s
    }
}

#[derive(Clone, Debug)]
pub enum Expr {
    /// sized constant
    K(usize, u64),
    /// `d[hi:lo]`
    D(usize, usize),
    /// `d[i + off]`
    DL(usize),
    /// `sel[hi:lo]` (conditions and case selectors)
    S(usize, usize),
    /// `lsel[i + off]`
    SL(usize),
    Rd(Ref),
    Not(Box<Expr>),
    Bin(char, Box<Expr>, Box<Expr>),
    Cat(Vec<Expr>),
}

impl Expr {
    pub fn text(&self, vars: &[VarDecl]) -> String {
        match self {
            Expr::K(w, v) => {
                if *w == 1 {
                    format!("1'b{}", v & 1)
                } else {
                    format!("{w}'d{}", if *w >= 16 { *v } else { v & ((1u64 << w) - 1) })
                }
            }
            Expr::D(h, l) => {
                if h == l {
                    format!("d[{h}]")
                } else {
                    format!("d[{h}:{l}]")
                }
            }
            Expr::DL(off) => format!("d[{}]", Ix::L(*off).text()),
            Expr::S(h, l) => {
                if h == l {
                    format!("sel[{h}]")
                } else {
                    format!("sel[{h}:{l}]")
                }
            }
            Expr::SL(off) => format!("lsel[{}]", Ix::L(*off).text()),
            Expr::Rd(r) => r.text(vars),
            Expr::Not(e) => format!("~{}", e.atom(vars)),
            Expr::Bin(op, a, b) => format!("{} {op} {}", a.atom(vars), b.atom(vars)),
            Expr::Cat(xs) => {
                let parts: Vec<String> = xs.iter().map(|x| x.text(vars)).collect();
                format!("{{{}}}", parts.join(", "))
            }
        }
    }
    fn atom(&self, vars: &[VarDecl]) -> String {
        match self {
            Expr::Bin(..) => format!("({})", self.text(vars)),
            _ => self.text(vars),
        }
    }
    /// every variable reference read by the expression
    pub fn reads<'a>(&'a self, out: &mut Vec<&'a Ref>) {
        match self {
            Expr::Rd(r) => out.push(r),
            Expr::Not(e) => e.reads(out),
            Expr::Bin(_, a, b) => {
                a.reads(out);
                b.reads(out);
            }
            Expr::Cat(xs) => {
                for x in xs {
                    x.reads(out);
                }
            }
            _ => {}
        }
    }
}

#[derive(Clone, Debug)]
pub enum Pat {
    V(usize),
    /// inclusive range
    R(usize, usize),
}

#[derive(Clone, Debug)]
pub enum Stmt {
    Asg(Ref, Expr),
    If {
        c: Expr,
        t: Vec<Stmt>,
        e: Option<Vec<Stmt>>,
    },
    Case {
        s: Expr,
        /// selector width
        sw: usize,
        arms: Vec<(Vec<Pat>, Vec<Stmt>)>,
        def: Option<Vec<Stmt>>,
    },
    Switch {
        arms: Vec<(Expr, Vec<Stmt>)>,
        def: Option<Vec<Stmt>>,
    },
    /// `for i in lo..hi` (hi exclusive)
    For {
        lo: usize,
        hi: usize,
        body: Vec<Stmt>,
    },
}

#[derive(Clone, Debug)]
pub enum Proc {
    Assign(Ref, Expr),
    Comb(Vec<Stmt>),
    Ff(Vec<Stmt>),
    /// instance of the private submodule `Sub<k>`: input expressions and
    /// output connections (each output port drives the given reference)
    Inst { ins: Vec<Expr>, outs: Vec<Ref> },
}

impl Proc {
    pub fn kind(&self) -> &'static str {
        match self {
            Proc::Assign(..) => "assign",
            Proc::Comb(_) => "comb",
            Proc::Ff(_) => "ff",
            Proc::Inst { .. } => "inst",
        }
    }
}

#[derive(Clone, Debug)]
pub struct Design {
    pub vars: Vec<VarDecl>,
    pub procs: Vec<Proc>,
    /// explicit `always_ff (clk)` or the default-clock form
    pub ff_explicit_clock: bool,
}

fn pat_text(p: &Pat, sw: usize) -> String {
    match p {
        Pat::V(v) => format!("{sw}'d{v}"),
        Pat::R(a, b) => format!("{sw}'d{a}..={sw}'d{b}"),
    }
}

fn block_text(out: &mut String, body: &[Stmt], vars: &[VarDecl], ind: usize) {
    for s in body {
        stmt_text(out, s, vars, ind);
    }
}

fn arm_body(out: &mut String, body: &[Stmt], vars: &[VarDecl], ind: usize) {
    // a single plain assignment is printed in the short arm form
    if body.len() == 1
        && let Stmt::Asg(r, e) = &body[0]
    {
        let _ = writeln!(out, "{} = {};", r.text(vars), e.text(vars));
        return;
    }
    out.push_str("{\n");
    block_text(out, body, vars, ind + 1);
    let _ = writeln!(out, "{}}}", "    ".repeat(ind));
}

fn stmt_text(out: &mut String, s: &Stmt, vars: &[VarDecl], ind: usize) {
    let pad = "    ".repeat(ind);
    match s {
        Stmt::Asg(r, e) => {
            let _ = writeln!(out, "{pad}{} = {};", r.text(vars), e.text(vars));
        }
        Stmt::If { c, t, e } => {
            let _ = writeln!(out, "{pad}if {} {{", c.text(vars));
            block_text(out, t, vars, ind + 1);
            let mut cur = e;
            loop {
                match cur {
                    None => {
                        let _ = writeln!(out, "{pad}}}");
                        break;
                    }
                    Some(eb) => {
                        // `else if` chain when the else branch is exactly one `if`
                        if eb.len() == 1
                            && let Stmt::If { c, t, e } = &eb[0]
                        {
                            let _ = writeln!(out, "{pad}}} else if {} {{", c.text(vars));
                            block_text(out, t, vars, ind + 1);
                            cur = e;
                        } else {
                            let _ = writeln!(out, "{pad}}} else {{");
                            block_text(out, eb, vars, ind + 1);
                            let _ = writeln!(out, "{pad}}}");
                            break;
                        }
                    }
                }
            }
        }
        Stmt::Case { s, sw, arms, def } => {
            let _ = writeln!(out, "{pad}case {} {{", s.text(vars));
            for (pats, body) in arms {
                let pt: Vec<String> = pats.iter().map(|p| pat_text(p, *sw)).collect();
                let _ = write!(out, "{pad}    {}: ", pt.join(", "));
                arm_body(out, body, vars, ind + 1);
            }
            if let Some(d) = def {
                let _ = write!(out, "{pad}    default: ");
                arm_body(out, d, vars, ind + 1);
            }
            let _ = writeln!(out, "{pad}}}");
        }
        Stmt::Switch { arms, def } => {
            let _ = writeln!(out, "{pad}switch {{");
            for (c, body) in arms {
                let _ = write!(out, "{pad}    {}: ", c.text(vars));
                arm_body(out, body, vars, ind + 1);
            }
            if let Some(d) = def {
                let _ = write!(out, "{pad}    default: ");
                arm_body(out, d, vars, ind + 1);
            }
            let _ = writeln!(out, "{pad}}}");
        }
        Stmt::For { lo, hi, body } => {
            let _ = writeln!(out, "{pad}for i in {lo}..{hi} {{");
            block_text(out, body, vars, ind + 1);
            let _ = writeln!(out, "{pad}}}");
        }
    }
}

fn ty(w: usize) -> String {
    if w == 1 { "logic".into() } else { format!("logic<{w}>") }
}

impl Design {
    pub fn text(&self) -> String {
        let vars = &self.vars;
        let mut o = String::new();
        // private submodules, one per instance: outputs are a pure function
        // of the inputs (or constants), no diagnostics of their own
        for (pi, p) in self.procs.iter().enumerate() {
            if let Proc::Inst { ins, outs } = p {
                let _ = writeln!(o, "module Sub{pi} (");
                let iw: Vec<usize> = ins.iter().map(|e| expr_width(e, vars)).collect();
                for (k, w) in iw.iter().enumerate() {
                    let _ = writeln!(o, "    pi{k}: input  {},", ty(*w));
                }
                for (k, r) in outs.iter().enumerate() {
                    let _ = writeln!(o, "    po{k}: output {},", ty(r.width(vars)));
                }
                let _ = writeln!(o, ") {{");
                for (k, r) in outs.iter().enumerate() {
                    let w = r.width(vars);
                    let src = iw.iter().position(|x| *x >= w);
                    match src {
                        Some(j) if iw[j] == w => {
                            let _ = writeln!(o, "    assign po{k} = pi{j};");
                        }
                        Some(j) => {
                            let _ = writeln!(o, "    assign po{k} = pi{j}[{}:0];", w - 1);
                        }
                        None => {
                            let _ = writeln!(o, "    assign po{k} = {};", Expr::K(w, (k as u64) + 1).text(vars));
                        }
                    }
                }
                let _ = writeln!(o, "}}\n");
            }
        }
        let _ = writeln!(o, "module Top (");
        let _ = writeln!(o, "    clk : input  clock    ,");
        let _ = writeln!(o, "    sel : input  logic<16>,");
        let _ = writeln!(o, "    lsel: input  logic<200>,");
        let _ = writeln!(o, "    d   : input  logic<200>,");
        for v in vars.iter().filter(|v| v.out) {
            let arr = if v.array { format!(" [{}]", v.elems) } else { String::new() };
            let _ = writeln!(o, "    {}: output {}{arr},", v.name, ty(v.width));
        }
        let _ = writeln!(o, ") {{");
        for v in vars.iter().filter(|v| !v.fields.is_empty()) {
            let _ = writeln!(o, "    struct {} {{", v.sname);
            for (n, w) in &v.fields {
                let _ = writeln!(o, "        {n}: {},", ty(*w));
            }
            let _ = writeln!(o, "    }}");
        }
        for v in vars.iter().filter(|v| !v.out) {
            let arr = if v.array { format!(" [{}]", v.elems) } else { String::new() };
            let t = if v.fields.is_empty() { ty(v.width) } else { v.sname.clone() };
            let _ = writeln!(o, "    var {}: {t}{arr};", v.name);
        }
        for (pi, p) in self.procs.iter().enumerate() {
            match p {
                Proc::Assign(r, e) => {
                    let _ = writeln!(o, "    assign {} = {};", r.text(vars), e.text(vars));
                }
                Proc::Comb(b) => {
                    let _ = writeln!(o, "    always_comb {{");
                    block_text(&mut o, b, vars, 2);
                    let _ = writeln!(o, "    }}");
                }
                Proc::Ff(b) => {
                    if self.ff_explicit_clock {
                        let _ = writeln!(o, "    always_ff (clk) {{");
                    } else {
                        let _ = writeln!(o, "    always_ff {{");
                    }
                    block_text(&mut o, b, vars, 2);
                    let _ = writeln!(o, "    }}");
                }
                Proc::Inst { ins, outs } => {
                    let _ = writeln!(o, "    inst u{pi}: Sub{pi} (");
                    for (k, e) in ins.iter().enumerate() {
                        let _ = writeln!(o, "        pi{k}: {},", e.text(vars));
                    }
                    for (k, r) in outs.iter().enumerate() {
                        let _ = writeln!(o, "        po{k}: {},", r.text(vars));
                    }
                    let _ = writeln!(o, "    );");
                }
            }
        }
        let _ = writeln!(o, "}}");
        o
    }
}

pub fn expr_width(e: &Expr, vars: &[VarDecl]) -> usize {
    match e {
        Expr::K(w, _) => *w,
        Expr::D(h, l) | Expr::S(h, l) => h - l + 1,
        Expr::DL(_) | Expr::SL(_) => 1,
        Expr::Rd(r) => r.width(vars),
        Expr::Not(e) => expr_width(e, vars),
        Expr::Bin(_, a, _) => expr_width(a, vars),
        Expr::Cat(xs) => xs.iter().map(|x| expr_width(x, vars)).sum(),
    }
}
