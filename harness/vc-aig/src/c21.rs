//! C21 — AIG rewriting preserves every output function (synthesizer built
//! with the experimental `aig` feature).
//!
//! Exhaustive part (`npn4`, marked `exhaustive` in the evidence):
//!
//! * all 65 536 4-input truth tables: `npn_canonical(tt) = (canon, t)` with
//!   `t.apply(tt) == canon`, `t.apply` equal to an application of the
//!   transform written here from the doc comments (permute, negate inputs,
//!   negate output; bit m of a table = value at inputs m, bit 0 = x0), and
//!   `canon` = the numerically least table of the NPN class, the class being
//!   recomputed here as the orbit under all 768 = 24 · 16 · 2 transforms;
//! * every library entry: `lookup_canonical(tt)` is queried for all 65 536
//!   keys; an entry may only exist under a canonical key, its pattern must
//!   compute its key (`AigPattern::tt()` and an evaluation of the AND /
//!   inverter structure written here), and have at most `MAX_ANDS` gates;
//! * `transform_pattern(p, t).tt() == t.apply(p.tt())` for every library
//!   pattern and every one of the 768 transforms.
//!
//! Generated part (`netlists`): the C19 cases → `synthesize_with` (whose
//! `conv::finalize` now runs aigify → rewrite → aig_to_cells_techmap) →
//! netlist `g`.  On `g` the passes are run once more explicitly:
//! `g2 = aig_to_cells_techmap(rewrite(aigify(g)), g)`, `g3 =
//! aig_to_cells(aigify(g), g)`, `g4 = aig_to_cells(rewrite(aigify(g)), g)`.
//! Every sink (output port bits, FF D pins, RAM input pins: clock, write
//! address / data / enable / mask, read address) must compute the same Boolean
//! function of the free variables (input ports, FF outputs, RAM read data)
//! in `g` and in `g2` / `g3` / `g4`: 4096 random vectors (64-bit parallel) for
//! all sinks, exhaustive enumeration for sinks whose support is ≤ 16 variables
//! (all of them when ≤ 10, up to 8 per netlist otherwise).  Ports, flip-flops
//! and RAM blocks must be carried over unchanged, the result must be
//! well-formed (C20's structure oracle), and `g` (feature on), `g2` and `g3`
//! must pass C19's cycle-by-cycle comparison with the RTL simulator.

use crate::c19;
use crate::gate_eval::{self, Drv};
use crate::synth_case::*;
use crate::wellformed;
use std::collections::{BTreeMap, BTreeSet};
use vcore::{CaseCfg, Ctx, Draw, Outcome, hash_str, json};
use vdesign::*;
use veryl_synthesizer::aig::{convert, npn4, rewrite, techmap};
use veryl_synthesizer::ir::{GateModule, PortDir};

// ---------------------------------------------------------------------------
// exhaustive part
// ---------------------------------------------------------------------------

/// all 24 permutations of 0..4
fn perms() -> Vec<[u8; 4]> {
    let mut out = vec![];
    for a in 0..4u8 {
        for b in 0..4u8 {
            for c in 0..4u8 {
                for d in 0..4u8 {
                    let p = [a, b, c, d];
                    let mut seen = [false; 4];
                    for &x in &p {
                        seen[x as usize] = true;
                    }
                    if seen.iter().all(|&s| s) {
                        out.push(p);
                    }
                }
            }
        }
    }
    out
}

/// The transform as documented: new variable i = old variable perm[i]
/// (`new_tt(y) = old_tt(z)`, `z[perm[i]] = y[i]`), then bit i of `in_neg`
/// negates the i-th *new* input, then `out_neg` negates the output.
fn my_apply(tt: u16, perm: [u8; 4], in_neg: u8, out_neg: bool) -> u16 {
    let mut out = 0u16;
    for y in 0..16u32 {
        let yy = y ^ in_neg as u32;
        let mut z = 0u32;
        for i in 0..4 {
            z |= ((yy >> i) & 1) << perm[i];
        }
        let v = ((tt as u32 >> z) & 1) as u16;
        out |= v << y;
    }
    if out_neg { !out } else { out }
}

/// evaluation of a pattern from its structure: inputs 0..3, AND gate k is node 4 + k
fn my_pattern_tt(p: &npn4::AigPattern) -> u16 {
    let mut out = 0u16;
    for m in 0..16u32 {
        let mut vals: Vec<bool> = (0..4).map(|i| (m >> i) & 1 == 1).collect();
        for &(a, b) in &p.ands {
            let va = vals[a.0 as usize] ^ a.1;
            let vb = vals[b.0 as usize] ^ b.1;
            vals.push(va && vb);
        }
        let o = vals[p.output.0 as usize] ^ p.output.1;
        out |= (o as u16) << m;
    }
    out
}

fn exhaustive(ctx: &Ctx) {
    let ps = perms();
    assert_eq!(ps.len(), 24);
    // orbit minimum of every table, from the definition
    let mut class_min = vec![u32::MAX; 65536];
    let mut n_classes = 0;
    for tt in 0..65536u32 {
        if class_min[tt as usize] != u32::MAX {
            continue;
        }
        let mut orbit: BTreeSet<u16> = BTreeSet::new();
        for p in &ps {
            for neg in 0..16u8 {
                let t = my_apply(tt as u16, *p, neg, false);
                orbit.insert(t);
                orbit.insert(!t);
            }
        }
        let mn = *orbit.iter().next().unwrap() as u32;
        for &o in &orbit {
            class_min[o as usize] = mn;
        }
        n_classes += 1;
    }
    ctx.note("npn_classes", json!(n_classes));
    let mut bad: Vec<String> = vec![];
    let mut lib_entries = 0;
    let mut lib_sizes: BTreeMap<usize, u32> = BTreeMap::new();
    let mut transform_checks = 0u64;
    for tt in 0..65536u32 {
        let t16 = tt as u16;
        let (canon, t) = npn4::npn_canonical(t16);
        let applied = t.apply(t16);
        let mine = my_apply(t16, t.perm, t.in_neg, t.out_neg);
        let mut perm_ok = [false; 4];
        for &x in &t.perm {
            if (x as usize) < 4 {
                perm_ok[x as usize] = true;
            }
        }
        if !perm_ok.iter().all(|&b| b) || t.in_neg > 15 {
            bad.push(format!("transform-not-a-permutation: tt {tt:04x} -> {t:?}"));
        } else if applied != canon {
            bad.push(format!("transform-does-not-reach-canonical: tt {tt:04x}: apply = {applied:04x}, canonical {canon:04x}"));
        } else if mine != applied {
            bad.push(format!("apply-differs-from-documented-transform: tt {tt:04x} {t:?}: apply {applied:04x}, by the documentation {mine:04x}"));
        } else if canon as u32 != class_min[tt as usize] {
            bad.push(format!("canonical-not-class-minimum: tt {tt:04x}: canonical {canon:04x}, least table of the NPN class {:04x}", class_min[tt as usize]));
        }
        // library entry under this key?
        if let Some(p) = npn4::lookup_canonical(t16) {
            lib_entries += 1;
            *lib_sizes.entry(p.size()).or_insert(0) += 1;
            if class_min[tt as usize] != tt {
                bad.push(format!("library-key-not-canonical: {tt:04x}"));
            }
            if p.tt() != t16 || my_pattern_tt(p) != t16 {
                bad.push(format!("library-pattern-wrong-function: key {tt:04x}, tt() {:04x}, evaluated {:04x}", p.tt(), my_pattern_tt(p)));
            }
            if p.size() > npn4::MAX_ANDS as usize {
                bad.push(format!("library-pattern-too-large: key {tt:04x} has {} ANDs", p.size()));
            }
            for a in &p.ands {
                for e in [a.0, a.1] {
                    if e.0 as usize >= 4 + p.ands.len() {
                        bad.push(format!("library-pattern-dangling-edge: key {tt:04x}"));
                    }
                }
            }
            // transform_pattern commutes with apply, for all 768 transforms
            for perm in &ps {
                for neg in 0..16u8 {
                    for on in [false, true] {
                        let tr = npn4::NpnTransform {
                            perm: *perm,
                            in_neg: neg,
                            out_neg: on,
                        };
                        let q = npn4::transform_pattern(p, tr);
                        transform_checks += 1;
                        let want = my_apply(t16, *perm, neg, on);
                        if my_pattern_tt(&q) != want || q.tt() != tr.apply(t16) {
                            if bad.len() < 20 {
                                bad.push(format!("transform-pattern-does-not-commute: key {tt:04x} {tr:?}: pattern computes {:04x}, transform of the table {want:04x}", my_pattern_tt(&q)));
                            }
                        }
                    }
                }
            }
        }
        if bad.len() >= 20 {
            break;
        }
    }
    ctx.note("npn_truth_tables_checked", json!(65536));
    ctx.note("npn_library_entries", json!(lib_entries));
    ctx.note("npn_library_sizes", json!(lib_sizes));
    ctx.note("npn_transform_pattern_checks", json!(transform_checks));
    let payload = json!({"what": "all 65536 truth tables"});
    if let Some(b) = bad.first() {
        let sig = b.split(':').next().unwrap_or("npn4").to_string();
        ctx.record("npn4", Outcome::fail(format!("npn4:{sig}"), bad.join("\n"), payload.clone()), payload);
    } else {
        // one record per NPN class would hide that every table was visited: record the sweep as a whole
        let classes = vec!["npn4:all_truth_tables".to_string(), format!("npn4:library_entries:{lib_entries}")];
        ctx.record(
            "npn4",
            Outcome::pass(hash_str("npn4"), true, classes, format!("{n_classes} NPN classes, {lib_entries} library entries, {transform_checks} transform_pattern checks")),
            payload,
        );
    }
}

// ---------------------------------------------------------------------------
// generated part
// ---------------------------------------------------------------------------

fn sinks_of(m: &GateModule) -> Vec<u32> {
    let mut s = vec![];
    for p in &m.ports {
        if matches!(p.dir, PortDir::Output | PortDir::Inout) {
            s.extend(&p.nets);
        }
    }
    for f in &m.ffs {
        s.push(f.d);
    }
    m.for_each_ram_input_net(|x| s.push(x));
    s
}

/// transitive support (leaf nets) of `net`
fn support(m: &GateModule, t: &gate_eval::Topo, net: u32, limit: usize) -> Option<Vec<u32>> {
    let mut seen: BTreeSet<u32> = BTreeSet::new();
    let mut leaves: BTreeSet<u32> = BTreeSet::new();
    let mut stack = vec![net];
    while let Some(x) = stack.pop() {
        if !seen.insert(x) {
            continue;
        }
        match t.drv[x as usize] {
            Drv::Cell(i) => stack.extend(&m.cells[i].inputs),
            Drv::Const(_) => {}
            _ => {
                leaves.insert(x);
                if leaves.len() > limit {
                    return None;
                }
            }
        }
    }
    Some(leaves.into_iter().collect())
}

/// `aig_to_cells*` emit one `Buf(src -> port net)` per output port BIT; when
/// two port bits share a net (the optimiser aliased them) the same cell is
/// emitted twice.  Identical copies are harmless (the synthesizer's own
/// worklist pass removes them right after); they are dropped here so that the
/// structure oracle only reports real conflicts.  Returns how many were dropped.
fn drop_identical_cells(m: &mut GateModule) -> usize {
    let mut seen: BTreeSet<(u32, &'static str, Vec<u32>)> = BTreeSet::new();
    let before = m.cells.len();
    let mut keep = vec![];
    for c in &m.cells {
        if seen.insert((c.output, c.kind.symbol(), c.inputs.clone())) {
            keep.push(c.clone());
        }
    }
    if keep.len() != before {
        m.cells = keep;
        for (i, c) in m.cells.iter().enumerate() {
            m.nets[c.output as usize].driver = veryl_synthesizer::ir::NetDriver::Cell(i);
        }
    }
    before - m.cells.len()
}

struct SinkCmp {
    sinks: usize,
    exhaustive_sinks: usize,
    leaves: usize,
}

/// Compare the sink functions of `a` (before) and `b` (after).
fn compare_sinks(d: &mut Draw, a: &GateModule, b: &GateModule, what: &str) -> Result<SinkCmp, (String, String)> {
    // carried over unchanged
    if a.ports.len() != b.ports.len() || a.ports.iter().zip(&b.ports).any(|(x, y)| x.dir != y.dir || x.nets.len() != y.nets.len() || x.path != y.path) {
        return Err((format!("{what}:ports-changed"), "the port list differs".into()));
    }
    for (x, y) in a.ports.iter().zip(&b.ports) {
        if x.dir == PortDir::Input && x.nets != y.nets {
            return Err((format!("{what}:input-port-nets-changed"), format!("input port {} changed its nets", x.name)));
        }
    }
    if a.ffs.len() != b.ffs.len()
        || a.ffs.iter().zip(&b.ffs).any(|(x, y)| {
            x.q != y.q
                || x.clock != y.clock
                || x.clock_edge != y.clock_edge
                || x.reset_value != y.reset_value
                || x.reset.as_ref().map(|r| (r.net, r.polarity, r.sync)) != y.reset.as_ref().map(|r| (r.net, r.polarity, r.sync))
        })
    {
        return Err((format!("{what}:flip-flops-changed"), "flip-flops (q / clock / edge / reset spec / reset value) differ".into()));
    }
    if a.ram_blocks.len() != b.ram_blocks.len()
        || a.ram_blocks.iter().zip(&b.ram_blocks).any(|(x, y)| {
            x.depth != y.depth
                || x.width != y.width
                || x.clock_edge != y.clock_edge
                || x.read_ports.len() != y.read_ports.len()
                || x.write_ports.len() != y.write_ports.len()
                || x.read_ports.iter().zip(&y.read_ports).any(|(p, q)| p.data != q.data || p.sync != q.sync || p.addr.len() != q.addr.len())
                || x.write_ports.iter().zip(&y.write_ports).any(|(p, q)| p.addr.len() != q.addr.len() || p.data.len() != q.data.len() || p.mask.as_ref().map(|m| m.len()) != q.mask.as_ref().map(|m| m.len()))
        })
    {
        return Err((format!("{what}:ram-blocks-changed"), "RAM blocks (shape, ports, read data nets) differ".into()));
    }
    let st = wellformed::check_structure(b);
    if let Some(f) = st.first() {
        return Err((format!("{what}:not-well-formed:{}", f.0), f.1.clone()));
    }
    let ta = gate_eval::topo(a).map_err(|e| (format!("{what}:input-not-evaluable"), e))?;
    let tb = gate_eval::topo(b).map_err(|e| (format!("{what}:not-evaluable:{e}"), e.clone()))?;
    let sa = sinks_of(a);
    let sb = sinks_of(b);
    if sa.len() != sb.len() {
        return Err((format!("{what}:sink-count"), format!("{} sinks before, {} after", sa.len(), sb.len())));
    }
    let la: BTreeSet<u32> = gate_eval::comb_leaves(a, &ta).into_iter().collect();
    let lb: BTreeSet<u32> = gate_eval::comb_leaves(b, &tb).into_iter().collect();
    // a free variable of the result must be one of the original (same net id: the net table layout is preserved)
    for x in &lb {
        if !la.contains(x) {
            // a leaf that did not feed any sink before
            if (*x as usize) >= a.nets.len() || matches!(ta.drv[*x as usize], Drv::Cell(_)) {
                return Err((format!("{what}:new-free-variable"), format!("net n{x} is a free variable of the result but was driven by a cell (or did not exist) before")));
            }
        }
    }
    let leaves: Vec<u32> = la.union(&lb).copied().collect();
    let mut va = vec![0u64; a.nets.len()];
    let mut vb = vec![0u64; b.nets.len()];
    let check = |va: &[u64], vb: &[u64], mask: u64| -> Option<usize> { (0..sa.len()).find(|&k| (va[sa[k] as usize] ^ vb[sb[k] as usize]) & mask != 0) };
    let describe = |k: usize| -> String {
        let n_out: usize = a.ports.iter().filter(|p| p.dir != PortDir::Input).map(|p| p.nets.len()).sum();
        if k < n_out {
            "an output port bit".to_string()
        } else if k < n_out + a.ffs.len() {
            "a flip-flop D pin".to_string()
        } else {
            "a RAM input pin".to_string()
        }
    };
    // ---- 4096 random vectors
    for _ in 0..64 {
        for &x in &leaves {
            let w = d.u64();
            va[x as usize] = w;
            if (x as usize) < vb.len() {
                vb[x as usize] = w;
            }
        }
        gate_eval::eval_comb64(a, &ta, &mut va);
        gate_eval::eval_comb64(b, &tb, &mut vb);
        if let Some(k) = check(&va, &vb, !0) {
            let kind = describe(k);
            return Err((format!("{what}:sink-function-changed:{}", kind.replace(' ', "-")), format!("sink {k} ({kind}, net n{} before / n{} after) computes a different function (random vectors)", sa[k], sb[k])));
        }
    }
    // ---- exhaustive for small supports
    let mut exh = 0;
    let mut budget_16 = 8;
    for k in 0..sa.len() {
        let Some(sup_a) = support(a, &ta, sa[k], 16) else { continue };
        let Some(sup_b) = support(b, &tb, sb[k], 16) else { continue };
        let sup: Vec<u32> = sup_a.iter().chain(sup_b.iter()).copied().collect::<BTreeSet<u32>>().into_iter().collect();
        if sup.len() > 16 || sup.is_empty() {
            continue;
        }
        if sup.len() > 10 {
            if budget_16 == 0 {
                continue;
            }
            budget_16 -= 1;
        }
        exh += 1;
        let n = sup.len();
        let total: u64 = 1u64 << n;
        let mut base = 0u64;
        while base < total {
            // assignment number base + lane
            for (i, &x) in sup.iter().enumerate() {
                let w = if i < 6 {
                    [0xAAAA_AAAA_AAAA_AAAAu64, 0xCCCC_CCCC_CCCC_CCCC, 0xF0F0_F0F0_F0F0_F0F0, 0xFF00_FF00_FF00_FF00, 0xFFFF_0000_FFFF_0000, 0xFFFF_FFFF_0000_0000][i]
                } else if (base >> i) & 1 == 1 {
                    !0
                } else {
                    0
                };
                va[x as usize] = w;
                if (x as usize) < vb.len() {
                    vb[x as usize] = w;
                }
            }
            gate_eval::eval_comb64(a, &ta, &mut va);
            gate_eval::eval_comb64(b, &tb, &mut vb);
            let mask = if total < 64 { (1u64 << total) - 1 } else { !0 };
            if (va[sa[k] as usize] ^ vb[sb[k] as usize]) & mask != 0 {
                let kind = describe(k);
                return Err((format!("{what}:sink-function-changed:{}", kind.replace(' ', "-")), format!("sink {k} ({kind}) computes a different function (exhaustive over its {n} support variables)")));
            }
            base += 64;
        }
    }
    Ok(SinkCmp {
        sinks: sa.len(),
        exhaustive_sinks: exh,
        leaves: leaves.len(),
    })
}

fn one_case(d: &mut Draw) -> Outcome {
    // no trigger shapes of C19's known findings: a mismatch here is about the AIG path
    let case = gen_case_with(d, 0);
    let a = match Analyzed::new(&case.text) {
        Ok(a) => a,
        Err(r) => {
            let code = r.errors.first().map(|e| e.0.clone()).unwrap_or_default();
            return Outcome::skip(format!("generated text rejected by the analyzer ({}:{code})", r.stage));
        }
    };
    let sr = match synthesize(&a, case.library, case.ram) {
        Synth::Ok(r) => r,
        Synth::Rejected(why) => return Outcome::skip(format!("synthesizer rejects the design ({why})")),
        Synth::Panic(msg) => {
            return Outcome::fail(
                format!("panic-with-aig-feature:{msg}"),
                format!("the synthesizer panics with the aig feature on\n{}", case.text),
                json!({"veryl": case.text, "options": case.options_json()}),
            );
        }
    };
    let g = &sr.gate_ir.module;
    let payload = json!({"veryl": case.text, "options": case.options_json(), "stimulus": stim_json(&case.stim)});
    let fail = |sig: String, msg: String| Outcome::fail(sig, format!("{msg}\n{}\n// options: {}", case.text, case.options_json()), payload.clone());
    // ---- the passes once more on the result
    let run = std::panic::catch_unwind(std::panic::AssertUnwindSafe(|| {
        let aig = convert::aigify(g);
        let rw = rewrite::rewrite(&aig);
        let g2 = techmap::aig_to_cells_techmap(&rw, g);
        let g3 = convert::aig_to_cells(&aig, g);
        let g4 = convert::aig_to_cells(&rw, g);
        (aig.and_count(), rw.and_count(), g2, g3, g4)
    }));
    let (ands, ands_rw, mut g2, mut g3, mut g4) = match run {
        Ok(x) => x,
        Err(e) => {
            let msg = e.downcast_ref::<&str>().map(|s| s.to_string()).or_else(|| e.downcast_ref::<String>().cloned()).unwrap_or_else(|| "panic".into());
            let msg: String = msg.chars().filter(|c| !c.is_ascii_digit()).take(80).collect();
            return fail(format!("aig-pass-panics:{msg}"), "aigify / rewrite / aig_to_cells panics on a netlist the synthesizer returned".into());
        }
    };
    let mut classes = case.classes.clone();
    classes.push(format!("family:{}", case.family));
    netlist_classes(g, &mut classes);
    let dropped = drop_identical_cells(&mut g2) + drop_identical_cells(&mut g3) + drop_identical_cells(&mut g4);
    if dropped > 0 {
        classes.push("aig_to_cells:duplicate_buf_on_shared_port_net".into());
    }
    let mut exh = 0;
    for (m2, what) in [(&g2, "rewrite+techmap"), (&g3, "aig_to_cells"), (&g4, "rewrite+aig_to_cells")] {
        match compare_sinks(d, g, m2, what) {
            Ok(c) => {
                exh += c.exhaustive_sinks;
                if c.sinks > 0 && what == "rewrite+techmap" {
                    classes.push(format!("sinks:{}", if c.sinks <= 8 { "1_8" } else if c.sinks <= 64 { "9_64" } else { "gt64" }));
                    classes.push(format!("leaves:{}", if c.leaves <= 16 { "le16" } else { "gt16" }));
                }
            }
            Err((sig, msg)) => return fail(sig, msg),
        }
    }
    if exh > 0 {
        classes.push("sinks:some_exhaustive".into());
    }
    if ands_rw < ands {
        classes.push("rewrite:fewer_ands".into());
    }
    if ands > 0 {
        classes.push("aig:has_ands".into());
    }
    let mut kinds: BTreeSet<&'static str> = BTreeSet::new();
    for c in &g2.cells {
        kinds.insert(c.kind.symbol());
    }
    for k in kinds {
        classes.push(format!("techmap:{k}"));
    }
    // ---- cycle by cycle: feature-on netlist, and the two re-mapped ones
    let rtl = match c19::run_rtl(&a, &case.stim) {
        Ok(t) => t,
        Err(e) => {
            let e: String = e.chars().filter(|c| !c.is_ascii_digit()).take(60).collect();
            return Outcome::skip(format!("RTL simulator: {e}"));
        }
    };
    let mut compared = 0;
    let mut activity = false;
    for (m2, what) in [(g, "feature-on-netlist"), (&g2, "rewrite+techmap"), (&g3, "aig_to_cells")] {
        match c19::gate_vs_rtl(m2, &case, &case.stim, &rtl) {
            c19::GateRun::Broken(sig) => return fail(format!("{what}:{sig}"), "the netlist cannot be simulated".into()),
            c19::GateRun::Done(Some(mm), _) => {
                if what == "feature-on-netlist" {
                    // the same re-examination as C19 (reference evaluator, minimisation, known shapes)
                    return match c19::explain(&case, g, mm) {
                        Outcome::Fail(f) if !f.signature.starts_with("unclassified") && !f.signature.starts_with("ram-inference-changes-behaviour") => {
                            Outcome::skip(format!("netlist differs from RTL for a reason C19 lists ({})", f.signature))
                        }
                        Outcome::Fail(f) => Outcome::fail(format!("feature-on-netlist:{}", f.signature), f.message, f.input),
                        o => o,
                    };
                }
                return fail(
                    format!("{what}:differs-from-rtl"),
                    format!("output {} after step {}: gate {:x} (X {:x}), RTL {:x}", case.stim.outputs[mm.output].name, mm.step, mm.gate, mm.gate_x, mm.rtl),
                );
            }
            c19::GateRun::Done(None, st) => {
                compared += st.compared_bits;
                activity |= st.activity;
            }
        }
    }
    let nt = nontrivial(g) && ands > 0 && compared > 0 && activity;
    let sample = format!("{}// options: {}", case.text, case.options_json());
    Outcome::pass(hash_str(&format!("{sample}{}", stim_json(&case.stim))), nt, classes, sample)
}

pub fn run(ctx: &Ctx) {
    if let Err(e) = gate_eval::self_test().and_then(|_| crate::selftest::ram_self_test()) {
        println!("INCONCLUSIVE property=C21: gate evaluator self-test failed: {e}");
        std::process::exit(2);
    }
    if !ctx.replay_mode() || ctx.replay_for("npn4").is_some() {
        exhaustive(ctx);
    }
    let n = std::env::var("C21_CASES").ok().and_then(|s| s.parse::<usize>().ok()).unwrap_or(ctx.scale(300, 20_000));
    ctx.run("netlists", CaseCfg::cases(n).choices(60_000).timeout_s(600), |d| c19::discover("C21", one_case(d)));
    ctx.set_exhaustive(false);
    ctx.note("exhaustive_part", json!("npn4: all 65536 4-input truth tables, all library entries, all 768 transforms of every library pattern"));
    ctx.assume("truth table convention of npn4.rs: bit m of a table is the value at inputs m (bit 0 = x0); NpnTransform = permute (new variable i is old variable perm[i]), then negate new inputs by in_neg, then negate the output");
    ctx.assume("the netlists are the synthesizer's own results (feature on); the AIG passes are applied to them once more, which exercises every CellKind in aigify and every template in techmap on netlists with flip-flops and RAM blocks");
    ctx.finish(
        "exploration",
        "exhaustive sweep of npn4 (65536 tables) + the C19 cases (same generator, no known-finding shapes) through aigify / rewrite / aig_to_cells_techmap / aig_to_cells: sink functions by 4096 random vectors and exhaustive enumeration of small supports, structure, and cycle-by-cycle comparison with the RTL simulator; non-trivial = netlist has FFs and > 20 cells or a RAM block, the AIG has AND nodes, known output bits were compared and some output changed",
    );
}
