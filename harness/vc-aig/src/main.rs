// The C19 machinery of vc-synth, compiled against the synthesizer WITH the
// experimental `aig` feature (this package must be built on its own:
// `cargo build --release -p vc-aig`, so that the feature is not unified into
// the other harness binaries).
#[path = "../../vc-synth/src/c19.rs"]
mod c19;
#[path = "../../vc-synth/src/gate_eval.rs"]
mod gate_eval;
#[path = "../../vc-synth/src/ram_tpl.rs"]
mod ram_tpl;
#[path = "../../vc-synth/src/selftest.rs"]
mod selftest;
#[path = "../../vc-synth/src/shape_tpl.rs"]
mod shape_tpl;
#[path = "../../vc-synth/src/synth_case.rs"]
mod synth_case;
#[path = "../../vc-synth/src/synth_findings.rs"]
mod synth_findings;
#[path = "../../vc-synth/src/wellformed.rs"]
mod wellformed;

mod c21;

fn main() {
    let args: Vec<String> = std::env::args().skip(1).collect();
    let id = args.first().cloned().unwrap_or_default();
    vcore::quiet_panics();
    let ctx = vcore::Ctx::new(&id, &args[1.min(args.len())..]);
    match id.as_str() {
        "C21" => c21::run(&ctx),
        _ => {
            eprintln!("unknown property id {id:?}");
            std::process::exit(2);
        }
    }
}
