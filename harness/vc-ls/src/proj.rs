//! Small Veryl project model for C07: packages and modules spread over
//! files, rendered to text; edits are model changes (rename / add / remove /
//! retype declarations) plus text-level damage (syntax break) and repair.
//!
//! Cross-file edges the model produces: `logic<Pk::W>` widths, `Pk::St`
//! struct types with member access, `Pk::En::V` enum values, `Pk::Fn(..)`
//! calls, `import Pk::*`, parameter defaults, package->package constants and
//! module instantiation with parameter overrides and port connections.

use vcore::Draw;

#[derive(Clone, Copy, Debug, PartialEq, Eq)]
pub enum Kind {
    Const,
    Struct,
    Enum,
    Func,
    Param,
    PortIn,
    PortOut,
    Var,
    Assign,
    Let,
    Inst,
    Import,
}

/// One declaration / item.  `sub`: struct fields (name, type, ""), enum
/// variants (name, "", ""), instance connections (port, signal, type of the
/// helper variable to declare or "") and parameter overrides ("#P", value, "").
#[derive(Clone, Debug)]
pub struct Ent {
    pub kind: Kind,
    pub name: String,
    pub ty: String,
    pub body: String,
    pub sub: Vec<[String; 3]>,
}

#[derive(Clone, Debug)]
pub struct Decl {
    pub is_pkg: bool,
    pub name: String,
    /// creation rank: modules only instantiate lower ranks (no instantiation cycles)
    pub rank: u32,
    pub params: Vec<Ent>,
    pub ports: Vec<Ent>,
    pub items: Vec<Ent>,
}

#[derive(Clone, Debug, Default)]
pub struct FileM {
    pub decls: Vec<Decl>,
}

#[derive(Clone, Debug, PartialEq)]
pub struct Damage {
    pub kind: u32,
    pub pos: u32,
}

#[derive(Clone, Debug)]
pub struct Content {
    pub m: FileM,
    pub dmg: Option<Damage>,
    /// extra blank lines at the end (a whitespace-only edit)
    pub nl: u32,
}

impl Content {
    pub fn text(&self) -> String {
        let t = self.m.render();
        let mut t = match &self.dmg {
            Some(d) => d.apply(&t),
            None => t,
        };
        for _ in 0..self.nl {
            t.push('\n');
        }
        t
    }
}

pub struct Names {
    next: u32,
}

impl Names {
    pub fn new() -> Names {
        Names { next: 0 }
    }
    pub fn fresh(&mut self, prefix: &str) -> String {
        self.next += 1;
        format!("{prefix}{}", self.next)
    }
    pub fn rank(&mut self) -> u32 {
        self.next += 1;
        self.next
    }
}

fn ent(kind: Kind, name: &str, ty: &str, body: &str) -> Ent {
    Ent {
        kind,
        name: name.to_string(),
        ty: ty.to_string(),
        body: body.to_string(),
        sub: vec![],
    }
}

impl Ent {
    fn render(&self, out: &mut String, ind: &str) {
        match self.kind {
            Kind::Const => out.push_str(&format!("{ind}const {}: u32 = {};\n", self.name, self.body)),
            Kind::Struct => {
                out.push_str(&format!("{ind}struct {} {{\n", self.name));
                for f in &self.sub {
                    out.push_str(&format!("{ind}    {}: {},\n", f[0], f[1]));
                }
                out.push_str(&format!("{ind}}}\n"));
            }
            Kind::Enum => {
                out.push_str(&format!("{ind}enum {}: logic<2> {{\n", self.name));
                for f in &self.sub {
                    out.push_str(&format!("{ind}    {},\n", f[0]));
                }
                out.push_str(&format!("{ind}}}\n"));
            }
            Kind::Func => {
                out.push_str(&format!("{ind}function {} (\n{ind}    x: input {},\n{ind}) -> {} {{\n", self.name, self.ty, self.ty));
                out.push_str(&format!("{ind}    return {};\n{ind}}}\n", self.body));
            }
            Kind::Param => out.push_str(&format!("{ind}param {}: u32 = {},\n", self.name, self.body)),
            Kind::PortIn => out.push_str(&format!("{ind}{}: input {},\n", self.name, self.ty)),
            Kind::PortOut => out.push_str(&format!("{ind}{}: output {},\n", self.name, self.ty)),
            Kind::Var => out.push_str(&format!("{ind}var {}: {};\n", self.name, self.ty)),
            Kind::Assign => out.push_str(&format!("{ind}assign {} = {};\n", self.name, self.body)),
            Kind::Let => out.push_str(&format!("{ind}let {}: {} = {};\n", self.name, self.ty, self.body)),
            Kind::Import => out.push_str(&format!("{ind}import {}::*;\n", self.ty)),
            Kind::Inst => {
                for c in &self.sub {
                    if !c[2].is_empty() {
                        out.push_str(&format!("{ind}var {}: {};\n", c[1], c[2]));
                    }
                }
                out.push_str(&format!("{ind}inst {}: {}", self.name, self.ty));
                let ps: Vec<&[String; 3]> = self.sub.iter().filter(|c| c[0].starts_with('#')).collect();
                if !ps.is_empty() {
                    out.push_str(" #(\n");
                    for p in ps {
                        out.push_str(&format!("{ind}    {}: {},\n", &p[0][1..], p[1]));
                    }
                    out.push_str(&format!("{ind})"));
                }
                out.push_str(" (\n");
                for c in self.sub.iter().filter(|c| !c[0].starts_with('#')) {
                    out.push_str(&format!("{ind}    {}: {},\n", c[0], c[1]));
                }
                out.push_str(&format!("{ind});\n"));
            }
        }
    }

    fn strings_mut(&mut self) -> Vec<&mut String> {
        let mut v: Vec<&mut String> = vec![&mut self.name, &mut self.ty, &mut self.body];
        for s in self.sub.iter_mut() {
            for x in s.iter_mut() {
                v.push(x);
            }
        }
        v
    }
}

impl Decl {
    fn render(&self, out: &mut String) {
        if self.is_pkg {
            out.push_str(&format!("package {} {{\n", self.name));
        } else {
            out.push_str(&format!("module {} ", self.name));
            if !self.params.is_empty() {
                out.push_str("#(\n");
                for p in &self.params {
                    p.render(out, "    ");
                }
                out.push_str(") ");
            }
            if !self.ports.is_empty() {
                out.push_str("(\n");
                for p in &self.ports {
                    p.render(out, "    ");
                }
                out.push_str(") ");
            }
            out.push_str("{\n");
        }
        for i in &self.items {
            i.render(out, "    ");
        }
        out.push_str("}\n");
    }

    pub fn ents(&self) -> impl Iterator<Item = &Ent> {
        self.params.iter().chain(self.ports.iter()).chain(self.items.iter())
    }
}

impl FileM {
    pub fn render(&self) -> String {
        let mut s = String::new();
        for (i, d) in self.decls.iter().enumerate() {
            if i > 0 {
                s.push('\n');
            }
            d.render(&mut s);
        }
        s
    }

    /// Replace the identifier `old` by `new` everywhere in this file.
    pub fn rename_words(&mut self, old: &str, new: &str) -> usize {
        let mut n = 0;
        for d in self.decls.iter_mut() {
            n += rename_in(&mut d.name, old, new);
            for e in d.params.iter_mut().chain(d.ports.iter_mut()).chain(d.items.iter_mut()) {
                for s in e.strings_mut() {
                    n += rename_in(s, old, new);
                }
            }
        }
        n
    }
}

fn is_ident_char(c: char) -> bool {
    c.is_ascii_alphanumeric() || c == '_'
}

/// Identifier-wise replacement; returns the number of replacements.
pub fn rename_in(s: &mut String, old: &str, new: &str) -> usize {
    if old.is_empty() || !s.contains(old) {
        return 0;
    }
    let mut out = String::with_capacity(s.len());
    let mut n = 0;
    let mut word = String::new();
    let flush = |word: &mut String, out: &mut String, n: &mut usize| {
        if !word.is_empty() {
            if word == old {
                out.push_str(new);
                *n += 1;
            } else {
                out.push_str(word);
            }
            word.clear();
        }
    };
    for c in s.chars() {
        if is_ident_char(c) {
            word.push(c);
        } else {
            flush(&mut word, &mut out, &mut n);
            out.push(c);
        }
    }
    flush(&mut word, &mut out, &mut n);
    if n > 0 {
        *s = out;
    }
    n
}

pub fn has_word(text: &str, w: &str) -> bool {
    if w.is_empty() {
        return false;
    }
    let mut word = String::new();
    for c in text.chars().chain(std::iter::once(' ')) {
        if is_ident_char(c) {
            word.push(c);
        } else {
            if word == w {
                return true;
            }
            word.clear();
        }
    }
    false
}

impl Damage {
    pub fn draw(d: &mut Draw) -> Damage {
        Damage {
            kind: d.weighted(&[6, 3, 2, 1, 2]) as u32,
            pos: d.below(1000),
        }
    }

    pub fn apply(&self, text: &str) -> String {
        const STRAY: &[&str] = &["}", ")", "module", ";;", "(", "{", "= =", "inst", "::", "#"];
        let lines: Vec<&str> = text.split_inclusive('\n').collect();
        let at_line = |k: usize, ins: &str| -> String {
            let mut s = String::new();
            for (i, l) in lines.iter().enumerate() {
                if i == k {
                    s.push_str(ins);
                }
                s.push_str(l);
            }
            if k >= lines.len() {
                s.push_str(ins);
            }
            s
        };
        match self.kind {
            0 => {
                // delete one punctuation character
                let idx: Vec<usize> = text
                    .char_indices()
                    .filter(|(_, c)| "{}();:,<>=".contains(*c))
                    .map(|(i, _)| i)
                    .collect();
                if idx.is_empty() {
                    return format!("{text}}}\n");
                }
                let k = idx[(self.pos as usize * idx.len()) / 1000];
                let mut s = text.to_string();
                s.remove(k);
                s
            }
            1 => {
                let k = (self.pos as usize * (lines.len() + 1)) / 1000;
                let tok = STRAY[self.pos as usize % STRAY.len()];
                at_line(k, &format!("{tok}\n"))
            }
            2 => {
                // truncate (at least one character is cut)
                let n = text.len().saturating_sub(1);
                let mut cut = (self.pos as usize * n) / 1000;
                while !text.is_char_boundary(cut) {
                    cut -= 1;
                }
                text[..cut].to_string()
            }
            3 => {
                let k = (self.pos as usize * (lines.len() + 1)) / 1000;
                at_line(k, "/* unterminated\n")
            }
            _ => {
                // duplicate a line (often a duplicated declaration, not always a syntax error)
                if lines.is_empty() {
                    return "}\n".into();
                }
                let k = (self.pos as usize * lines.len()) / 1000;
                at_line(k, lines[k])
            }
        }
    }
}

// ---------------------------------------------------------------- project view

#[derive(Clone, Debug, Default)]
pub struct PkgV {
    pub name: String,
    pub consts: Vec<String>,
    pub structs: Vec<(String, Vec<(String, String)>)>,
    pub enums: Vec<(String, Vec<String>)>,
    pub funcs: Vec<(String, String)>,
}

#[derive(Clone, Debug, Default)]
pub struct ModV {
    pub name: String,
    pub rank: u32,
    pub params: Vec<String>,
    /// (name, is_input, type)
    pub ports: Vec<(String, bool, String)>,
}

#[derive(Clone, Debug, Default)]
pub struct View {
    pub pkgs: Vec<PkgV>,
    pub mods: Vec<ModV>,
}

impl View {
    pub fn of<'a>(files: impl Iterator<Item = &'a FileM>) -> View {
        let mut v = View::default();
        for f in files {
            for d in &f.decls {
                if d.is_pkg {
                    let mut p = PkgV {
                        name: d.name.clone(),
                        ..Default::default()
                    };
                    for e in &d.items {
                        match e.kind {
                            Kind::Const => p.consts.push(e.name.clone()),
                            Kind::Struct => p
                                .structs
                                .push((e.name.clone(), e.sub.iter().map(|f| (f[0].clone(), f[1].clone())).collect())),
                            Kind::Enum => p.enums.push((e.name.clone(), e.sub.iter().map(|f| f[0].clone()).collect())),
                            Kind::Func => p.funcs.push((e.name.clone(), e.ty.clone())),
                            _ => {}
                        }
                    }
                    v.pkgs.push(p);
                } else {
                    v.mods.push(ModV {
                        name: d.name.clone(),
                        rank: d.rank,
                        params: d.params.iter().map(|p| p.name.clone()).collect(),
                        ports: d
                            .ports
                            .iter()
                            .map(|p| (p.name.clone(), p.kind == Kind::PortIn, p.ty.clone()))
                            .collect(),
                    });
                }
            }
        }
        v
    }

    /// All top-level and member names that are declared somewhere.
    pub fn declares(&self, w: &str) -> bool {
        self.pkgs.iter().any(|p| {
            p.name == w
                || p.consts.iter().any(|c| c == w)
                || p.structs.iter().any(|(s, f)| s == w || f.iter().any(|(n, _)| n == w))
                || p.enums.iter().any(|(s, f)| s == w || f.iter().any(|n| n == w))
                || p.funcs.iter().any(|(s, _)| s == w)
        }) || self
            .mods
            .iter()
            .any(|m| m.name == w || m.params.iter().any(|p| p == w) || m.ports.iter().any(|(p, _, _)| p == w))
    }

    /// Types usable from outside a package (qualified).
    pub fn types(&self) -> Vec<String> {
        let mut t = vec!["logic<8>".to_string(), "logic<4>".to_string()];
        for p in &self.pkgs {
            for c in &p.consts {
                t.push(format!("logic<{}::{}>", p.name, c));
            }
            for (s, _) in &p.structs {
                t.push(format!("{}::{}", p.name, s));
            }
            for (s, _) in &p.enums {
                t.push(format!("{}::{}", p.name, s));
            }
        }
        t
    }

    fn struct_fields(&self, ty: &str) -> Option<&Vec<(String, String)>> {
        let (p, s) = ty.split_once("::")?;
        self.pkgs
            .iter()
            .find(|x| x.name == p)?
            .structs
            .iter()
            .find(|x| x.0 == s)
            .map(|x| &x.1)
    }

    fn enum_variants(&self, ty: &str) -> Option<&Vec<String>> {
        let (p, s) = ty.split_once("::")?;
        self.pkgs
            .iter()
            .find(|x| x.name == p)?
            .enums
            .iter()
            .find(|x| x.0 == s)
            .map(|x| &x.1)
    }
}

// ---------------------------------------------------------------- generation

pub fn gen_package(d: &mut Draw, nm: &mut Names, view: &View) -> Decl {
    let name = nm.fresh("Pk");
    let mut items = vec![];
    let nc = d.usize_in(1, 2);
    for _ in 0..nc {
        items.push(gen_pkg_member(d, nm, view, &name, &items, 0));
    }
    for k in 1..=3 {
        if d.chance(2, 3) {
            items.push(gen_pkg_member(d, nm, view, &name, &items, k));
        }
    }
    Decl {
        is_pkg: true,
        name,
        rank: nm.rank(),
        params: vec![],
        ports: vec![],
        items,
    }
}

/// `k`: 0 const, 1 struct, 2 enum, 3 function.  `sofar`: members of the same package.
pub fn gen_pkg_member(d: &mut Draw, nm: &mut Names, view: &View, pkg: &str, sofar: &[Ent], k: usize) -> Ent {
    let local_consts: Vec<&str> = sofar.iter().filter(|e| e.kind == Kind::Const).map(|e| e.name.as_str()).collect();
    // a width usable inside this package
    let width = |d: &mut Draw| -> String {
        let mut opts = vec!["8".to_string(), "3".to_string()];
        for c in &local_consts {
            opts.push((*c).to_string());
        }
        for p in view.pkgs.iter().filter(|p| p.name != pkg) {
            for c in &p.consts {
                opts.push(format!("{}::{}", p.name, c));
            }
        }
        d.pick(&opts).clone()
    };
    match k {
        0 => {
            let mut body = format!("{}", d.range(2, 12));
            let others: Vec<String> = view
                .pkgs
                .iter()
                .filter(|p| p.name != pkg)
                .flat_map(|p| p.consts.iter().map(move |c| format!("{}::{}", p.name, c)))
                .collect();
            if !others.is_empty() && d.chance(1, 3) {
                body = format!("{} + {}", d.pick(&others), d.range(0, 3));
            }
            ent(Kind::Const, &nm.fresh("W"), "", &body)
        }
        1 => {
            let mut e = ent(Kind::Struct, &nm.fresh("St"), "", "");
            for _ in 0..d.usize_in(1, 2) {
                let w = width(d);
                e.sub.push([nm.fresh("f"), format!("logic<{w}>"), String::new()]);
            }
            e
        }
        2 => {
            let mut e = ent(Kind::Enum, &nm.fresh("En"), "", "");
            for _ in 0..d.usize_in(2, 3) {
                e.sub.push([nm.fresh("V"), String::new(), String::new()]);
            }
            e
        }
        _ => {
            let w = width(d);
            let body = if d.bool() { "x + 1" } else { "~x" };
            ent(Kind::Func, &nm.fresh("Fn"), &format!("logic<{w}>"), body)
        }
    }
}

/// An expression of type `ty` from what the module has.
fn expr_of(d: &mut Draw, view: &View, m: &Decl, ty: &str) -> Option<String> {
    let mut opts: Vec<String> = vec![];
    for p in m.ports.iter().filter(|p| p.kind == Kind::PortIn && p.ty == ty) {
        opts.push(p.name.clone());
        if ty.starts_with("logic") {
            opts.push(format!("{} + 1", p.name));
            for pk in &view.pkgs {
                for (f, fty) in &pk.funcs {
                    // the function's type is written relative to its package
                    let q = qualify(fty, &pk.name, view);
                    if q == ty {
                        opts.push(format!("{}::{}({})", pk.name, f, p.name));
                    }
                }
            }
        }
    }
    if ty.starts_with("logic") {
        opts.push("1".into());
        for p in &m.params {
            opts.push(p.name.clone());
        }
        if let Some(c) = ty.strip_prefix("logic<").and_then(|t| t.strip_suffix('>'))
            && c.contains("::")
        {
            opts.push(format!("{c} - 1"));
        }
    } else if let Some(vs) = view.enum_variants(ty) {
        for v in vs {
            opts.push(format!("{ty}::{v}"));
        }
    }
    if opts.is_empty() {
        return None;
    }
    Some(d.pick(&opts).clone())
}

/// A package-relative type made usable from outside (`logic<W1>` -> `logic<Pk1::W1>`).
fn qualify(ty: &str, pkg: &str, view: &View) -> String {
    if let Some(w) = ty.strip_prefix("logic<").and_then(|t| t.strip_suffix('>')) {
        if !w.contains("::")
            && view
                .pkgs
                .iter()
                .any(|p| p.name == pkg && p.consts.iter().any(|c| c == w))
        {
            return format!("logic<{pkg}::{w}>");
        }
    }
    ty.to_string()
}

/// Items that drive `lhs` of type `ty`.
fn drivers(d: &mut Draw, view: &View, m: &Decl, lhs: &str, ty: &str) -> Vec<Ent> {
    if let Some(fields) = view.struct_fields(ty) {
        // same-typed input: whole-struct copy, else field-wise
        if let Some(e) = expr_of(d, view, m, ty)
            && d.bool()
        {
            return vec![ent(Kind::Assign, lhs, "", &e)];
        }
        return fields
            .iter()
            .map(|(f, _)| ent(Kind::Assign, &format!("{lhs}.{f}"), "", if d.bool() { "1" } else { "0" }))
            .collect();
    }
    match expr_of(d, view, m, ty) {
        Some(e) => vec![ent(Kind::Assign, lhs, "", &e)],
        None => vec![ent(Kind::Assign, lhs, "", "0")],
    }
}

pub fn gen_inst(d: &mut Draw, nm: &mut Names, view: &View, m: &Decl) -> Option<Ent> {
    let cands: Vec<&ModV> = view.mods.iter().filter(|x| x.rank < m.rank && x.name != m.name).collect();
    if cands.is_empty() {
        return None;
    }
    let t = *d.pick(&cands);
    let name = nm.fresh("u");
    let mut e = ent(Kind::Inst, &name, &t.name, "");
    for p in &t.params {
        if d.chance(2, 3) {
            e.sub.push([format!("#{p}"), format!("{}", d.range(1, 9)), String::new()]);
        }
    }
    for (k, (pn, is_in, ty)) in t.ports.iter().enumerate() {
        if *is_in {
            match expr_of(d, view, m, ty) {
                Some(x) if !x.contains(' ') && !x.contains('(') => e.sub.push([pn.clone(), x, String::new()]),
                _ => {
                    // helper variable (left unassigned when the type is a struct: a warning, fine)
                    e.sub.push([pn.clone(), format!("{name}_i{k}"), ty.clone()]);
                }
            }
        } else {
            e.sub.push([pn.clone(), format!("{name}_o{k}"), ty.clone()]);
        }
    }
    Some(e)
}

pub fn gen_module(d: &mut Draw, nm: &mut Names, view: &View) -> Decl {
    let mut m = Decl {
        is_pkg: false,
        name: nm.fresh("M"),
        rank: nm.rank(),
        params: vec![],
        ports: vec![],
        items: vec![],
    };
    let types = view.types();
    if d.chance(1, 2) {
        let mut body = format!("{}", d.range(1, 8));
        let consts: Vec<String> = view
            .pkgs
            .iter()
            .flat_map(|p| p.consts.iter().map(move |c| format!("{}::{}", p.name, c)))
            .collect();
        if !consts.is_empty() && d.chance(2, 3) {
            body = d.pick(&consts).clone();
        }
        m.params.push(ent(Kind::Param, &nm.fresh("P"), "", &body));
    }
    // prefer project types over literal widths
    let pick_ty = |d: &mut Draw| -> String {
        if types.len() > 2 && d.chance(4, 5) {
            types[2 + d.below_usize(types.len() - 2)].clone()
        } else {
            d.pick(&types).clone()
        }
    };
    let n_in = d.usize_in(1, 2);
    let mut in_tys = vec![];
    for _ in 0..n_in {
        let ty = pick_ty(d);
        in_tys.push(ty.clone());
        m.ports.push(ent(Kind::PortIn, &nm.fresh("i_"), &ty, ""));
    }
    let n_out = d.usize_in(1, 2);
    for _ in 0..n_out {
        // mostly the type of an input, so that data flows through
        let ty = if d.chance(2, 3) { d.pick(&in_tys).clone() } else { pick_ty(d) };
        m.ports.push(ent(Kind::PortOut, &nm.fresh("o_"), &ty, ""));
    }
    if !view.pkgs.is_empty() && d.chance(1, 4) {
        let p = d.pick(&view.pkgs).name.clone();
        m.items.push(ent(Kind::Import, "", &p, ""));
    }
    let outs: Vec<(String, String)> = m
        .ports
        .iter()
        .filter(|p| p.kind == Kind::PortOut)
        .map(|p| (p.name.clone(), p.ty.clone()))
        .collect();
    for (o, ty) in outs {
        let ds = drivers(d, view, &m, &o, &ty);
        m.items.extend(ds);
    }
    for _ in 0..d.usize_in(0, 2) {
        if let Some(i) = gen_mod_item(d, nm, view, &m) {
            m.items.extend(i);
        }
    }
    m
}

/// A new body item: instance, let, or var with driver.
pub fn gen_mod_item(d: &mut Draw, nm: &mut Names, view: &View, m: &Decl) -> Option<Vec<Ent>> {
    match d.weighted(&[3, 2, 2]) {
        0 => gen_inst(d, nm, view, m).map(|e| vec![e]),
        1 => {
            let types = view.types();
            let ty = d.pick(&types).clone();
            if view.struct_fields(&ty).is_some() {
                return None;
            }
            let e = expr_of(d, view, m, &ty)?;
            Some(vec![ent(Kind::Let, &nm.fresh("l"), &ty, &e)])
        }
        _ => {
            let types = view.types();
            let ty = d.pick(&types).clone();
            let v = nm.fresh("v");
            let mut out = vec![ent(Kind::Var, &v, &ty, "")];
            out.extend(drivers(d, view, m, &v, &ty));
            Some(out)
        }
    }
}

// ---------------------------------------------------------------- edits

#[derive(Clone, Debug, Default)]
pub struct EditInfo {
    pub what: String,
    /// names whose declaration changed (renamed away, removed, retyped)
    pub changed: Vec<String>,
    pub is_rename: bool,
}

pub fn declared_names(m: &FileM) -> Vec<(usize, String)> {
    // (decl index, name) of everything other files can refer to
    let mut v = vec![];
    for (i, d) in m.decls.iter().enumerate() {
        for e in d.ents() {
            match e.kind {
                Kind::Const | Kind::Struct | Kind::Enum | Kind::Func | Kind::Param | Kind::PortIn | Kind::PortOut => {
                    v.push((i, e.name.clone()));
                    if matches!(e.kind, Kind::Struct | Kind::Enum) {
                        for s in &e.sub {
                            v.push((i, s[0].clone()));
                        }
                    }
                }
                _ => {}
            }
        }
    }
    v
}

fn new_name_like(nm: &mut Names, old: &str) -> String {
    let prefix: String = old.chars().take_while(|c| !c.is_ascii_digit()).collect();
    let prefix = if prefix.is_empty() { "n".to_string() } else { prefix };
    nm.fresh(&prefix)
}

/// One model edit of a file.  `former`: names this project used before (a
/// rename may bring one back).  Returns None when the chosen edit does not apply.
pub fn edit(
    d: &mut Draw,
    nm: &mut Names,
    m: &mut FileM,
    view: &View,
    former: &mut Vec<String>,
    renames: &[(String, String)],
    hot: &dyn Fn(&str) -> bool,
    want_xfile: bool,
) -> Option<EditInfo> {
    if m.decls.is_empty() {
        let dcl = if d.chance(1, 4) { gen_package(d, nm, view) } else { gen_module(d, nm, view) };
        let what = format!("add declaration {}", dcl.name);
        m.decls.push(dcl);
        return Some(EditInfo {
            what,
            ..Default::default()
        });
    }
    let mut k = d.weighted(&[5, 3, 4, 4, 3, 3, 1]);
    if want_xfile && k > 1 && d.chance(2, 3) {
        // steer towards the scenario the property is about
        k = if m.decls.iter().any(|x| hot(&x.name)) && d.chance(1, 3) {
            1
        } else if declared_names(m).iter().any(|n| hot(&n.1)) {
            0
        } else {
            k
        };
    }
    match k {
        0 | 1 => {
            // rename a member (0) or a top-level declaration (1)
            let old = if k == 0 {
                let names = declared_names(m);
                if names.is_empty() {
                    return None;
                }
                // mostly a name that another file mentions
                let hots: Vec<&(usize, String)> = names.iter().filter(|n| hot(&n.1)).collect();
                if !hots.is_empty() && d.chance(3, 4) {
                    d.pick(&hots).1.clone()
                } else {
                    d.pick(&names).1.clone()
                }
            } else {
                let hots: Vec<&Decl> = m.decls.iter().filter(|x| hot(&x.name)).collect();
                if !hots.is_empty() && d.chance(3, 4) {
                    d.pick(&hots).name.clone()
                } else {
                    let i = d.below_usize(m.decls.len());
                    m.decls[i].name.clone()
                }
            };
            let prefix: String = old.chars().take_while(|c| !c.is_ascii_digit()).collect();
            let back: Vec<String> = former
                .iter()
                .filter(|f| f.starts_with(&prefix) && **f != old && !view.declares(f))
                .cloned()
                .collect();
            let new = if !back.is_empty() && d.chance(1, 3) {
                d.pick(&back).clone()
            } else {
                new_name_like(nm, &old)
            };
            m.rename_words(&old, &new);
            former.push(old.clone());
            Some(EditInfo {
                what: format!("rename {old} -> {new}"),
                changed: vec![old],
                is_rename: true,
            })
        }
        2 => {
            // add
            let i = d.below_usize(m.decls.len());
            let own = View::of(std::iter::once(&*m));
            let _ = own;
            if m.decls[i].is_pkg {
                let kind = d.below_usize(4);
                let pkg = m.decls[i].name.clone();
                let e = gen_pkg_member(d, nm, view, &pkg, &m.decls[i].items, kind);
                let what = format!("add {:?} {} to {}", e.kind, e.name, pkg);
                m.decls[i].items.push(e);
                Some(EditInfo {
                    what,
                    ..Default::default()
                })
            } else {
                match d.weighted(&[3, 1, 4]) {
                    0 => {
                        let types = view.types();
                        let ty = d.pick(&types).clone();
                        let is_in = d.bool();
                        let name = nm.fresh(if is_in { "i_" } else { "o_" });
                        let what = format!("add port {name} to {}", m.decls[i].name);
                        m.decls[i]
                            .ports
                            .push(ent(if is_in { Kind::PortIn } else { Kind::PortOut }, &name, &ty, ""));
                        if !is_in {
                            let ds = drivers(d, view, &m.decls[i], &name, &ty);
                            m.decls[i].items.extend(ds);
                        }
                        Some(EditInfo {
                            what,
                            changed: vec![m.decls[i].name.clone()],
                            is_rename: false,
                        })
                    }
                    1 => {
                        let name = nm.fresh("P");
                        let what = format!("add param {name} to {}", m.decls[i].name);
                        m.decls[i].params.push(ent(Kind::Param, &name, "", &format!("{}", d.range(1, 8))));
                        Some(EditInfo {
                            what,
                            ..Default::default()
                        })
                    }
                    _ => {
                        let its = gen_mod_item(d, nm, view, &m.decls[i])?;
                        let what = format!("add item {:?} {} to {}", its[0].kind, its[0].name, m.decls[i].name);
                        m.decls[i].items.extend(its);
                        Some(EditInfo {
                            what,
                            ..Default::default()
                        })
                    }
                }
            }
        }
        3 => {
            // remove one entity (or a whole declaration)
            let i = d.below_usize(m.decls.len());
            if d.chance(1, 8) {
                let dcl = m.decls.remove(i);
                return Some(EditInfo {
                    what: format!("remove declaration {}", dcl.name),
                    changed: vec![dcl.name],
                    is_rename: false,
                });
            }
            let dcl = &mut m.decls[i];
            let (np, nq, ni) = (dcl.params.len(), dcl.ports.len(), dcl.items.len());
            if np + nq + ni == 0 {
                return None;
            }
            let j = d.below_usize(np + nq + ni);
            let e = if j < np {
                dcl.params.remove(j)
            } else if j < np + nq {
                dcl.ports.remove(j - np)
            } else {
                dcl.items.remove(j - np - nq)
            };
            Some(EditInfo {
                what: format!("remove {:?} {} from {}", e.kind, e.name, dcl.name),
                changed: if e.name.is_empty() { vec![] } else { vec![e.name.clone()] },
                is_rename: false,
            })
        }
        4 => {
            // tweak a declaration in place
            let i = d.below_usize(m.decls.len());
            let dname = m.decls[i].name.clone();
            let types = view.types();
            let dcl = &mut m.decls[i];
            let total = dcl.params.len() + dcl.ports.len() + dcl.items.len();
            if total == 0 {
                return None;
            }
            let j = d.below_usize(total);
            let np = dcl.params.len();
            let nq = dcl.ports.len();
            let e = if j < np {
                &mut dcl.params[j]
            } else if j < np + nq {
                &mut dcl.ports[j - np]
            } else {
                &mut dcl.items[j - np - nq]
            };
            let what;
            match e.kind {
                Kind::Const | Kind::Param => {
                    e.body = format!("{}", d.range(1, 40));
                    what = format!("{dname}: value of {} = {}", e.name, e.body);
                }
                Kind::PortIn | Kind::PortOut => {
                    if d.bool() {
                        e.ty = d.pick(&types).clone();
                        what = format!("{dname}: type of port {} = {}", e.name, e.ty);
                    } else {
                        e.kind = if e.kind == Kind::PortIn { Kind::PortOut } else { Kind::PortIn };
                        what = format!("{dname}: direction of port {} flipped", e.name);
                    }
                }
                Kind::Struct => {
                    if e.sub.len() > 1 && d.bool() {
                        let f = e.sub.remove(d.below_usize(e.sub.len()));
                        what = format!("{dname}: field {} removed from {}", f[0], e.name);
                        return Some(EditInfo {
                            what,
                            changed: vec![f[0].clone()],
                            is_rename: false,
                        });
                    }
                    let f = nm.fresh("f");
                    e.sub.push([f.clone(), "logic<2>".into(), String::new()]);
                    what = format!("{dname}: field {f} added to {}", e.name);
                }
                Kind::Enum => {
                    if e.sub.len() > 1 && d.bool() {
                        let f = e.sub.remove(d.below_usize(e.sub.len()));
                        what = format!("{dname}: variant {} removed from {}", f[0], e.name);
                        return Some(EditInfo {
                            what,
                            changed: vec![f[0].clone()],
                            is_rename: false,
                        });
                    }
                    if e.sub.len() >= 4 {
                        return None;
                    }
                    let f = nm.fresh("V");
                    e.sub.push([f.clone(), String::new(), String::new()]);
                    what = format!("{dname}: variant {f} added to {}", e.name);
                }
                Kind::Func => {
                    e.ty = if e.ty == "logic<8>" { "logic<5>".into() } else { "logic<8>".into() };
                    what = format!("{dname}: type of function {} = {}", e.name, e.ty);
                }
                Kind::Var | Kind::Let => {
                    e.ty = d.pick(&types).clone();
                    what = format!("{dname}: type of {} = {}", e.name, e.ty);
                }
                Kind::Assign => {
                    e.body = if e.body == "0" { "1".into() } else { "0".into() };
                    what = format!("{dname}: driver of {} = {}", e.name, e.body);
                }
                Kind::Inst => {
                    if e.sub.is_empty() {
                        return None;
                    }
                    let c = e.sub.remove(d.below_usize(e.sub.len()));
                    what = format!("{dname}: connection {} removed from instance {}", c[0], e.name);
                }
                Kind::Import => return None,
            }
            let changed = if matches!(
                e.kind,
                Kind::Const | Kind::Param | Kind::PortIn | Kind::PortOut | Kind::Struct | Kind::Enum | Kind::Func
            ) {
                vec![e.name.clone()]
            } else {
                vec![]
            };
            Some(EditInfo {
                what,
                changed,
                is_rename: false,
            })
        }
        5 => {
            // follow earlier renames: what a user does to fix the errors
            let mut n = 0;
            let mut what = String::from("follow renames:");
            for (old, new) in renames {
                if !view.declares(old) && view.declares(new) {
                    let k = m.rename_words(old, new);
                    if k > 0 {
                        what.push_str(&format!(" {old}->{new}"));
                    }
                    n += k;
                }
            }
            if n == 0 {
                return None;
            }
            Some(EditInfo {
                what,
                ..Default::default()
            })
        }
        _ => {
            // a second declaration in the file
            if m.decls.len() >= 2 {
                return None;
            }
            let dcl = if d.chance(1, 3) { gen_package(d, nm, view) } else { gen_module(d, nm, view) };
            let what = format!("add declaration {}", dcl.name);
            m.decls.push(dcl);
            Some(EditInfo {
                what,
                ..Default::default()
            })
        }
    }
}
