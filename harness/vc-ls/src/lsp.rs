//! Minimal LSP client for `veryl-ls` over stdio.
//!
//! * JSON-RPC with Content-Length framing; a reader thread drains the
//!   server's stdout into a channel so neither side can block on a full pipe.
//! * The client advertises `window.workDoneProgress` and answers every
//!   server->client request (`window/workDoneProgress/create`) with `null`.
//! * One message is outstanding at a time (the server hands notifications to
//!   concurrently polled futures, so a burst could be re-ordered before it
//!   reaches the analysis thread; an editor's typing speed never does that).
//!
//! QUIESCENCE (no sleeping).  What the analysis thread does for a message is
//! known from the protocol surface:
//!   didOpen(u,v)   -> publish(u,v) [partly filtered], then a background task:
//!                     progress begin .. end("background analyze done"),
//!                     then publish(u,v) again [complete]
//!   didChange(u,v) -> publish(u,v) [complete when no task is pending]
//!   didRenameFiles -> background task (begin .. end), then a re-publish of
//!                     the last didOpen/didChange if there was one since the
//!                     previous background run
//!   will*Files     -> a response
//!   didClose/didSave -> nothing (the unchanged server ignores them).  A server
//!                     that handles didClose has to re-read the project: a probe
//!                     at start-up (`probe_close_starts_bg`) finds out whether
//!                     didClose starts a background run, and `did_close` then
//!                     waits for its end like for a rename.
//! Every step waits for exactly those events (the publish must come *after* the
//! progress end), then sends two `workspace/symbol` requests one after the
//! other and awaits both responses: the analysis thread answers them only
//! after everything queued before, and the second response cannot overtake a
//! notification that was queued before the first (the output multiplexer
//! alternates between its two sources).  A background run that this model did
//! not predict (`window/workDoneProgress/create` out of turn) is recorded in
//! `unexpected_bg`; the check then declines to judge the history.  Anything not
//! arriving within the watchdog makes the whole check inconclusive, never a
//! violation.

use serde_json::{Value, json};
use std::collections::BTreeMap;
use std::io::{BufRead, BufReader, Read, Write};
use std::path::Path;
use std::process::{Child, ChildStdin, Command, Stdio};
use std::sync::mpsc::{Receiver, RecvTimeoutError, channel};
use std::sync::{Arc, Mutex};
use std::time::Duration;

pub const WATCHDOG: Duration = Duration::from_secs(150);

#[derive(Debug, Clone)]
pub enum LsErr {
    /// nothing arrived within the watchdog
    Timeout(String),
    /// stdout closed: the process is gone
    Exited(String),
    /// the analysis thread is gone (the backend reports a closed channel)
    ThreadDead(String),
}

#[derive(Debug, Clone, Default)]
pub struct Published {
    pub version: Option<i64>,
    pub diags: Vec<Value>,
    pub seq: u64,
}

pub struct Ls {
    child: Child,
    stdin: Option<ChildStdin>,
    rx: Receiver<Option<Value>>,
    stderr: Arc<Mutex<String>>,
    next_id: i64,
    seq: u64,
    last_end_seq: u64,
    ends_seen: u64,
    /// last publishDiagnostics per uri
    pub published: BTreeMap<String, Published>,
    /// model of the server's `latest_change`
    latest: Option<(String, i64)>,
    /// number of publishDiagnostics with a non-empty list seen so far
    pub nonempty_publishes: u64,
    /// compact trace of the conversation (for failure messages)
    pub trace: Vec<String>,
    pub root_uri: String,
    /// a background run is expected (its `window/workDoneProgress/create` may arrive)
    expecting_bg: bool,
    /// a background run started that the protocol model did not predict
    pub unexpected_bg: bool,
    /// this server answers didClose with a background run (see `probe_close_starts_bg`)
    pub close_starts_bg: bool,
    /// probe only: do not answer `create`, remember it
    withhold_create: bool,
    pending_create: Option<Value>,
}

impl Ls {
    pub fn spawn(bin: &Path, root: &Path, cache: &Path) -> Result<Ls, LsErr> {
        let mut child = Command::new(bin)
            .current_dir(root)
            .env("XDG_CACHE_HOME", cache)
            .env("HOME", cache)
            .env("TOKIO_WORKER_THREADS", "2")
            .env("NO_COLOR", "1")
            .env_remove("RUST_LOG")
            .stdin(Stdio::piped())
            .stdout(Stdio::piped())
            .stderr(Stdio::piped())
            .spawn()
            .map_err(|e| LsErr::Exited(format!("spawn {}: {e}", bin.display())))?;
        let stdin = child.stdin.take();
        let stdout = child.stdout.take().unwrap();
        let mut se = child.stderr.take().unwrap();
        let stderr = Arc::new(Mutex::new(String::new()));
        let se2 = stderr.clone();
        std::thread::spawn(move || {
            let mut buf = [0u8; 4096];
            while let Ok(n) = se.read(&mut buf) {
                if n == 0 {
                    break;
                }
                let mut g = se2.lock().unwrap();
                if g.len() < 16384 {
                    g.push_str(&String::from_utf8_lossy(&buf[..n]));
                }
            }
        });
        let (tx, rx) = channel();
        std::thread::spawn(move || {
            let mut r = BufReader::new(stdout);
            loop {
                let mut len: Option<usize> = None;
                loop {
                    let mut line = String::new();
                    match r.read_line(&mut line) {
                        Ok(0) | Err(_) => {
                            let _ = tx.send(None);
                            return;
                        }
                        Ok(_) => {}
                    }
                    let l = line.trim();
                    if l.is_empty() {
                        break;
                    }
                    if let Some(v) = l.to_ascii_lowercase().strip_prefix("content-length:") {
                        len = v.trim().parse().ok();
                    }
                }
                let Some(n) = len else {
                    let _ = tx.send(None);
                    return;
                };
                let mut body = vec![0u8; n];
                if r.read_exact(&mut body).is_err() {
                    let _ = tx.send(None);
                    return;
                }
                match serde_json::from_slice::<Value>(&body) {
                    Ok(v) => {
                        if tx.send(Some(v)).is_err() {
                            return;
                        }
                    }
                    Err(_) => {
                        let _ = tx.send(None);
                        return;
                    }
                }
            }
        });
        let mut ls = Ls {
            child,
            stdin,
            rx,
            stderr,
            next_id: 0,
            seq: 0,
            last_end_seq: 0,
            ends_seen: 0,
            published: BTreeMap::new(),
            latest: None,
            nonempty_publishes: 0,
            trace: vec![],
            root_uri: format!("file://{}", root.display()),
            expecting_bg: false,
            unexpected_bg: false,
            close_starts_bg: false,
            withhold_create: false,
            pending_create: None,
        };
        ls.initialize()?;
        Ok(ls)
    }

    pub fn stderr_text(&self) -> String {
        self.stderr.lock().unwrap().clone()
    }

    fn send(&mut self, v: &Value) -> Result<(), LsErr> {
        let body = serde_json::to_vec(v).unwrap();
        let mut msg = format!("Content-Length: {}\r\n\r\n", body.len()).into_bytes();
        msg.extend_from_slice(&body);
        let Some(si) = self.stdin.as_mut() else {
            return Err(LsErr::Exited("stdin closed".into()));
        };
        let r = si.write_all(&msg).and_then(|_| si.flush());
        r.map_err(|e| LsErr::Exited(format!("write to server: {e}; stderr: {}", self.stderr_text())))
    }

    fn notify(&mut self, method: &str, params: Value) -> Result<(), LsErr> {
        self.trace.push(format!("-> {method}"));
        self.send(&json!({"jsonrpc": "2.0", "method": method, "params": params}))
    }

    fn request(&mut self, method: &str, params: Value) -> Result<i64, LsErr> {
        self.next_id += 1;
        let id = self.next_id;
        self.send(&json!({"jsonrpc": "2.0", "id": id, "method": method, "params": params}))?;
        Ok(id)
    }

    /// Receive and account one message.
    fn pump(&mut self, waiting_for: &str) -> Result<Value, LsErr> {
        let m = match self.rx.recv_timeout(WATCHDOG) {
            Ok(Some(m)) => m,
            Ok(None) | Err(RecvTimeoutError::Disconnected) => {
                return Err(LsErr::Exited(format!(
                    "server closed its output while the client waited for {waiting_for}; stderr: {}",
                    self.stderr_text()
                )));
            }
            Err(RecvTimeoutError::Timeout) => {
                let alive = matches!(self.child.try_wait(), Ok(None));
                let tail: Vec<&String> = self.trace.iter().rev().take(12).rev().collect();
                return Err(LsErr::Timeout(format!(
                    "nothing from the server for {}s while waiting for {waiting_for}; process alive: {alive}; last events: {tail:?}; stderr: {}",
                    WATCHDOG.as_secs(),
                    self.stderr_text()
                )));
            }
        };
        self.seq += 1;
        let method = m.get("method").and_then(|x| x.as_str()).unwrap_or("").to_string();
        if !method.is_empty() && m.get("id").is_some() {
            // server -> client request (window/workDoneProgress/create, ...)
            let id = m.get("id").cloned().unwrap();
            if method == "window/workDoneProgress/create" {
                if !self.expecting_bg {
                    self.unexpected_bg = true;
                    self.trace.push("<- UNEXPECTED background run".into());
                }
                if self.withhold_create {
                    self.pending_create = Some(id);
                    return Ok(m);
                }
            }
            self.send(&json!({"jsonrpc": "2.0", "id": id, "result": null}))?;
        }
        match method.as_str() {
            "textDocument/publishDiagnostics" => {
                let p = &m["params"];
                let uri = p["uri"].as_str().unwrap_or("").to_string();
                let diags = p["diagnostics"].as_array().cloned().unwrap_or_default();
                if !diags.is_empty() {
                    self.nonempty_publishes += 1;
                }
                self.trace.push(format!(
                    "<- publish {} v{} n={}",
                    uri.rsplit('/').next().unwrap_or(""),
                    p["version"],
                    diags.len()
                ));
                self.published.insert(
                    uri,
                    Published {
                        version: p["version"].as_i64(),
                        diags,
                        seq: self.seq,
                    },
                );
            }
            "$/progress" => {
                if m["params"]["value"]["kind"] == "end" {
                    self.last_end_seq = self.seq;
                    self.ends_seen += 1;
                    self.trace.push("<- progress end".into());
                }
            }
            "window/logMessage" => {
                if m["params"]["type"] == 1 {
                    return Err(LsErr::ThreadDead(format!(
                        "server reports an internal error: {}; stderr: {}",
                        m["params"]["message"],
                        self.stderr_text()
                    )));
                }
            }
            _ => {}
        }
        Ok(m)
    }

    fn wait_response(&mut self, id: i64, what: &str) -> Result<Value, LsErr> {
        loop {
            let m = self.pump(what)?;
            if m.get("method").is_none() && m.get("id").and_then(|x| x.as_i64()) == Some(id) {
                return Ok(m);
            }
        }
    }

    fn wait_end(&mut self, what: &str) -> Result<(), LsErr> {
        let have = self.ends_seen;
        while self.ends_seen == have {
            self.pump(what)?;
        }
        self.expecting_bg = false;
        Ok(())
    }

    /// Wait for a publish of (uri, version) that arrives after `after_seq`.
    fn wait_publish(&mut self, uri: &str, version: i64, after_seq: u64, what: &str) -> Result<(), LsErr> {
        loop {
            if let Some(p) = self.published.get(uri)
                && p.version == Some(version)
                && p.seq > after_seq
            {
                return Ok(());
            }
            self.pump(what)?;
        }
    }

    /// Two ordered round trips through the analysis thread.
    pub fn barrier(&mut self) -> Result<(), LsErr> {
        for _ in 0..2 {
            let id = self.request("workspace/symbol", json!({"query": "\u{1}no-such-symbol"}))?;
            self.wait_response(id, "the response to a workspace/symbol barrier")?;
        }
        Ok(())
    }

    fn initialize(&mut self) -> Result<(), LsErr> {
        let id = self.request(
            "initialize",
            json!({
                "processId": null,
                "rootUri": self.root_uri,
                "capabilities": {
                    "window": {"workDoneProgress": true},
                    "textDocument": {"publishDiagnostics": {"relatedInformation": true, "versionSupport": true}},
                    "workspace": {"fileOperations": {"willRename": true, "didRename": true, "willDelete": true}}
                }
            }),
        )?;
        self.wait_response(id, "the initialize response")?;
        self.notify("initialized", json!({}))?;
        self.barrier()
    }

    pub fn did_open(&mut self, uri: &str, text: &str, version: i64) -> Result<(), LsErr> {
        self.expecting_bg = true;
        self.notify(
            "textDocument/didOpen",
            json!({"textDocument": {"uri": uri, "languageId": "veryl", "version": version, "text": text}}),
        )?;
        self.wait_end("the end of the background analysis started by didOpen")?;
        let after = self.last_end_seq;
        self.wait_publish(uri, version, after, "the diagnostics re-published after background analysis")?;
        self.latest = None;
        self.barrier()
    }

    pub fn did_change(&mut self, uri: &str, text: &str, version: i64) -> Result<(), LsErr> {
        let mark = self.seq;
        self.notify(
            "textDocument/didChange",
            json!({"textDocument": {"uri": uri, "version": version}, "contentChanges": [{"text": text}]}),
        )?;
        self.wait_publish(uri, version, mark, "the diagnostics published for didChange")?;
        self.latest = Some((uri.to_string(), version));
        self.barrier()
    }

    pub fn did_save(&mut self, uri: &str) -> Result<(), LsErr> {
        self.notify("textDocument/didSave", json!({"textDocument": {"uri": uri}}))?;
        self.barrier()
    }

    pub fn did_close(&mut self, uri: &str) -> Result<(), LsErr> {
        if self.close_starts_bg {
            self.expecting_bg = true;
            if matches!(&self.latest, Some((u, _)) if u == uri) {
                self.latest = None;
            }
        }
        self.notify("textDocument/didClose", json!({"textDocument": {"uri": uri}}))?;
        if self.close_starts_bg {
            self.wait_end("the end of the background analysis started by didClose")?;
            let after = self.last_end_seq;
            if let Some((u, v)) = self.latest.take() {
                self.wait_publish(&u, v, after, "the re-publish of the latest change after background analysis")?;
            }
        }
        self.barrier()
    }

    /// Does this server start a background run on didClose?  (The unchanged
    /// server ignores didClose; a server that drops the buffer has to re-read
    /// the project.)  The client withholds its answer to
    /// `window/workDoneProgress/create`, so a server that starts a run blocks
    /// right there and the request is seen before or instead of a response.
    pub fn probe_close_starts_bg(&mut self, uri: &str, text: &str) -> Result<bool, LsErr> {
        self.did_open(uri, text, 1)?;
        self.withhold_create = true;
        self.notify("textDocument/didClose", json!({"textDocument": {"uri": uri}}))?;
        let mut found = false;
        'outer: for _ in 0..8 {
            let id = self.request("workspace/symbol", json!({"query": "\u{1}no-such-symbol"}))?;
            loop {
                let m = self.pump("the didClose probe")?;
                if self.pending_create.is_some() {
                    found = true;
                    break 'outer;
                }
                if m.get("method").is_none() && m.get("id").and_then(|x| x.as_i64()) == Some(id) {
                    break;
                }
            }
        }
        self.unexpected_bg = false;
        Ok(found)
    }

    pub fn will_rename(&mut self, old: &str, new: &str) -> Result<(), LsErr> {
        self.trace.push("-> workspace/willRenameFiles".into());
        let id = self.request("workspace/willRenameFiles", json!({"files": [{"oldUri": old, "newUri": new}]}))?;
        self.wait_response(id, "the willRenameFiles response")?;
        self.barrier()
    }

    pub fn did_rename(&mut self, old: &str, new: &str) -> Result<(), LsErr> {
        self.expecting_bg = true;
        self.notify("workspace/didRenameFiles", json!({"files": [{"oldUri": old, "newUri": new}]}))?;
        self.wait_end("the end of the background analysis started by didRenameFiles")?;
        let after = self.last_end_seq;
        if let Some((u, v)) = self.latest.take() {
            self.wait_publish(&u, v, after, "the re-publish of the latest change after background analysis")?;
        }
        self.barrier()
    }

    pub fn will_delete(&mut self, uri: &str) -> Result<(), LsErr> {
        self.trace.push("-> workspace/willDeleteFiles".into());
        let id = self.request("workspace/willDeleteFiles", json!({"files": [{"uri": uri}]}))?;
        self.wait_response(id, "the willDeleteFiles response")?;
        self.barrier()
    }
}

impl Drop for Ls {
    fn drop(&mut self) {
        // closing stdin ends the transport loop; kill covers the rest
        self.stdin.take();
        let _ = self.child.kill();
        let _ = self.child.wait();
    }
}
