//! C07 — language-server diagnostics depend only on the current buffers.
//!
//! A generated project (packages + modules that use them and instantiate each
//! other) is written to disk; a generated history of editor steps (didOpen /
//! didChange with full text / save+didSave / didClose / rename / delete /
//! create) is played against ONE long-lived `veryl-ls`.  At chosen steps the
//! oracle starts a FRESH server on a copy of the disk state, opens the same
//! documents with their current (possibly unsaved) text, waits for background
//! analysis, has every open document analysed once more (a didChange with
//! the unchanged text, so that no diagnostic is held back by the server's
//! "background not done yet" filter) and records what it publishes.  The
//! long-lived server must publish the same multiset of
//! (range, severity, code, message) for
//!   * the document the checked step touched — as published for that step, and
//!   * every open document once it is analysed again (same no-op didChange).
//! See lsp.rs for the protocol and the definition of quiescence.

use crate::hist::{Hist, Step, World, generate};
use crate::lsp::{Ls, LsErr};
use serde_json::{Value, json};
use std::collections::{BTreeMap, BTreeSet};
use std::path::{Path, PathBuf};
use vcore::util::Scratch;
use vcore::{CaseCfg, Ctx, Draw, Outcome, hash_str};

fn inconclusive(msg: &str) -> ! {
    println!("INCONCLUSIVE property=C07: {msg}");
    use std::io::Write;
    let _ = std::io::stdout().flush();
    std::process::exit(2);
}

fn uri(root: &Path, f: &str) -> String {
    format!("file://{}/{}", root.display(), f)
}

/// (range, severity, code, message) of each diagnostic, paths made relative, sorted.
fn normalise(diags: &[Value], root: &Path) -> Vec<String> {
    let r = root.display().to_string();
    let mut v: Vec<String> = diags
        .iter()
        .map(|d| {
            let rg = &d["range"];
            format!(
                "{}:{}-{}:{} sev={} code={} {}",
                rg["start"]["line"],
                rg["start"]["character"],
                rg["end"]["line"],
                rg["end"]["character"],
                d["severity"],
                d["code"].as_str().unwrap_or("-"),
                d["message"].as_str().unwrap_or("").replace(&r, "$ROOT")
            )
        })
        .collect();
    v.sort();
    v
}

fn write_disk(root: &Path, toml: &str, disk: &BTreeMap<String, String>) {
    vcore::util::write_file(&root.join("Veryl.toml"), toml);
    std::fs::create_dir_all(root.join("src")).expect("mkdir src");
    for (f, t) in disk {
        vcore::util::write_file(&root.join(f), t);
    }
}

struct Env {
    bin: PathBuf,
    cache: PathBuf,
    /// the server starts a background run on didClose (probed once per run)
    close_starts_bg: bool,
}

fn spawn(env: &Env, root: &Path) -> Result<Ls, LsErr> {
    let mut ls = Ls::spawn(&env.bin, root, &env.cache)?;
    ls.close_starts_bg = env.close_starts_bg;
    Ok(ls)
}

/// Versions per path: increasing over the whole session, also across close/reopen.
#[derive(Default)]
struct Versions(BTreeMap<String, i64>);
impl Versions {
    fn next(&mut self, f: &str) -> i64 {
        let v = self.0.entry(f.to_string()).or_insert(0);
        *v += 1;
        *v
    }
}

/// What a fresh server publishes for every open document of `w`.
/// `forced`: extra (path, text) the server is made to hold as if the document
/// were open — used only to test whether a listed root cause explains a mismatch.
fn fresh_truth(
    env: &Env,
    root: &Path,
    toml: &str,
    w: &World,
    forced: &BTreeMap<String, String>,
) -> Result<BTreeMap<String, Vec<String>>, LsErr> {
    let _ = std::fs::remove_dir_all(root);
    write_disk(root, toml, &w.disk);
    let mut ls = spawn(env, root)?;
    let mut ver = Versions::default();
    for (f, t) in &w.open {
        ls.did_open(&uri(root, f), t, ver.next(f))?;
    }
    for (f, t) in forced {
        if !w.open.contains_key(f) {
            ls.did_open(&uri(root, f), t, ver.next(f))?;
        }
    }
    let mut out = BTreeMap::new();
    for (f, t) in &w.open {
        let u = uri(root, f);
        ls.did_change(&u, t, ver.next(f))?;
        out.insert(f.clone(), normalise(&ls.published[&u].diags, root));
    }
    Ok(out)
}

fn play(ls: &mut Ls, root: &Path, w: &mut World, ver: &mut Versions, s: &Step) -> Result<Option<String>, LsErr> {
    // returns the document whose diagnostics this step makes the server publish
    let mut touched = None;
    match s {
        Step::Open { f } => {
            let t = w.disk.get(f).cloned().unwrap_or_default();
            ls.did_open(&uri(root, f), &t, ver.next(f))?;
            touched = Some(f.clone());
        }
        Step::Change { f, text, .. } => {
            ls.did_change(&uri(root, f), text, ver.next(f))?;
            touched = Some(f.clone());
        }
        Step::Save { f } => {
            if let Some(t) = w.open.get(f) {
                vcore::util::write_file(&root.join(f), t);
            }
            ls.did_save(&uri(root, f))?;
        }
        Step::Close { f } => {
            ls.did_close(&uri(root, f))?;
        }
        Step::RenameFile { from, to } => {
            let (uo, un) = (uri(root, from), uri(root, to));
            ls.will_rename(&uo, &un)?;
            std::fs::rename(root.join(from), root.join(to)).expect("rename on disk");
            if let Some(t) = w.open.get(from).cloned() {
                ls.did_close(&uo)?;
                ls.did_open(&un, &t, ver.next(to))?;
                touched = Some(to.clone());
            }
            ls.did_rename(&uo, &un)?;
        }
        Step::Delete { f } => {
            let u = uri(root, f);
            ls.will_delete(&u)?;
            std::fs::remove_file(root.join(f)).expect("remove on disk");
            if w.open.contains_key(f) {
                ls.did_close(&u)?;
            }
        }
        Step::Create { f } => {
            vcore::util::write_file(&root.join(f), "");
            ls.did_open(&uri(root, f), "", ver.next(f))?;
            touched = Some(f.clone());
        }
    }
    w.apply(s);
    Ok(touched)
}

#[derive(Default)]
struct Report {
    diag_seen: bool,
    compared: u32,
    stale_views: u32,
    checks: u32,
    tolerated_name_variance: u32,
}

struct Mism {
    step: usize,
    file: String,
    what: &'static str,
    got: Vec<String>,
    want: Vec<String>,
}

enum Verdict {
    Ok(Report),
    Mismatch {
        signature: String,
        message: String,
        detail: Value,
    },
    ServerGone {
        long_lived: bool,
        err: String,
    },
    /// the server stopped answering: inconclusive, never a violation
    Hang(String),
    /// the server started background work the protocol model does not predict
    OffModel,
}

/// Multiset difference, for the failure message.
fn diff_lines(a: &[String], b: &[String]) -> String {
    let mut s = String::new();
    let mut rest: Vec<&String> = b.iter().collect();
    for x in a {
        if let Some(k) = rest.iter().position(|y| *y == x) {
            rest.remove(k);
        } else {
            s.push_str(&format!("    only long-lived: {x}\n"));
        }
    }
    for x in rest {
        s.push_str(&format!("    only fresh:      {x}\n"));
    }
    s
}

fn words_of(text: &str, into: &mut BTreeSet<String>) {
    let mut w = String::new();
    for c in text.chars().chain(std::iter::once(' ')) {
        if c.is_ascii_alphanumeric() || c == '_' {
            w.push(c);
        } else if !w.is_empty() {
            into.insert(std::mem::take(&mut w));
        }
    }
}

/// LISTED ROOT CAUSE "dropped-name-still-known": `symbol_table::drop` empties
/// but keeps the `name_table` entry of a dropped declaration, and `resolve`
/// asks `name_table.contains_key(name)` to decide between "unknown name ->
/// NotFound(name)" and "never seen -> treat as the namespace of another
/// project and go on to the next path segment".  For `Pk::W` with `Pk` gone a
/// server that once knew `Pk` says `"Pk" is undefined` twice, a fresh one
/// `"Pk" is undefined` + `"W" is undefined` (same ranges, same code); likewise
/// `"Pk" doesn't have member "En"` (En dropped) against `.. member "V"` for
/// `Pk::En::V`.  True iff `got` and `want` differ only in that way: equal after
/// masking the quoted names in undefined_identifier / unknown_member messages,
/// and every name only the long-lived server mentions occurs in a text that
/// server was given earlier.
fn differs_only_by_formerly_known_names(got: &[String], want: &[String], seen: &BTreeSet<String>) -> bool {
    // (everything up to the message, message with quoted names masked, quoted names)
    fn split(s: &str) -> (String, Vec<String>) {
        for code in [" code=undefined_identifier ", " code=unknown_member "] {
            if let Some((head, msg)) = s.split_once(code) {
                let mut masked = String::new();
                let mut names = vec![];
                for (k, part) in msg.split('"').enumerate() {
                    if k % 2 == 1 {
                        names.push(part.to_string());
                        masked.push_str("\"?\"");
                    } else {
                        masked.push_str(part);
                    }
                }
                return (format!("{head}{code}{masked}"), names);
            }
        }
        (s.to_string(), vec![])
    }
    let mut a: Vec<String> = got.iter().map(|x| split(x).0).collect();
    let mut b: Vec<String> = want.iter().map(|x| split(x).0).collect();
    a.sort();
    b.sort();
    if a != b {
        return false;
    }
    let mut rest: Vec<&String> = want.iter().collect();
    let mut odd: Vec<&String> = vec![];
    for x in got {
        if let Some(k) = rest.iter().position(|y| *y == x) {
            rest.remove(k);
        } else {
            odd.push(x);
        }
    }
    // every name only the long-lived server mentions must be one it knew earlier
    for x in odd {
        let (key, names) = split(x);
        let fresh_names: Vec<String> = rest
            .iter()
            .filter(|y| split(y).0 == key)
            .flat_map(|y| split(y).1)
            .collect();
        for n in names {
            if !fresh_names.contains(&n) && !seen.contains(&n) {
                return false;
            }
        }
    }
    true
}

fn execute(env: &Env, scratch: &Scratch, h: &Hist) -> Verdict {
    let lroot = scratch.join("L");
    let froot = scratch.join("F");
    write_disk(&lroot, &h.toml, &h.files);
    let mut w = World {
        disk: h.files.clone(),
        close_forgets: env.close_starts_bg,
        ..Default::default()
    };
    let mut ver = Versions::default();
    let mut rep = Report::default();
    let mut seen: BTreeSet<String> = BTreeSet::new();
    for t in h.files.values() {
        words_of(t, &mut seen);
    }
    let gone = |e: LsErr, long_lived: bool| -> Verdict {
        match e {
            LsErr::Timeout(m) => Verdict::Hang(m),
            LsErr::Exited(m) | LsErr::ThreadDead(m) => Verdict::ServerGone { long_lived, err: m },
        }
    };
    let mut ls = match spawn(env, &lroot) {
        Ok(l) => l,
        Err(e) => return gone(e, true),
    };
    // mismatches explained by a listed root cause: (signature, text)
    let mut listed: Vec<(String, String)> = vec![];
    for (i, s) in h.steps.iter().enumerate() {
        let touched = match play(&mut ls, &lroot, &mut w, &mut ver, s) {
            Ok(t) => t,
            Err(e) => {
                // does a fresh server survive the same buffers?
                w.apply(s);
                return match fresh_truth(env, &froot, &h.toml, &w, &BTreeMap::new()) {
                    Ok(_) => gone(e, true),
                    Err(LsErr::Timeout(m)) => Verdict::Hang(m),
                    Err(_) => Verdict::ServerGone {
                        long_lived: false,
                        err: "both servers stop on these buffers".into(),
                    },
                };
            }
        };
        if let Step::Change { text, .. } = s {
            // names the server knows from now on (used one check later at the earliest)
            words_of(text, &mut seen);
        }
        if !h.checks.contains(&i) || w.open.is_empty() {
            continue;
        }
        rep.checks += 1;
        let truth = match fresh_truth(env, &froot, &h.toml, &w, &BTreeMap::new()) {
            Ok(t) => t,
            Err(e) => return gone(e, false),
        };
        let mut mism: Vec<Mism> = vec![];
        // (1) what the step itself made the server publish
        if let Some(f) = &touched
            && w.open.contains_key(f)
            && let Some(p) = ls.published.get(&uri(&lroot, f))
        {
            let got = normalise(&p.diags, &lroot);
            rep.compared += 1;
            if got != truth[f] {
                mism.push(Mism {
                    step: i,
                    file: f.clone(),
                    what: "published for this step",
                    got,
                    want: truth[f].clone(),
                });
            }
        }
        // (2) every open document, analysed again
        let open: Vec<(String, String)> = w.open.iter().map(|(a, b)| (a.clone(), b.clone())).collect();
        // (2a) what the editor currently shows for the other open documents:
        // the diagnostics last published for them, before anything is re-analysed
        let mut stale: Vec<(String, Vec<String>)> = vec![];
        for (f, _) in &open {
            if touched.as_ref() == Some(f) {
                continue;
            }
            if let Some(p) = ls.published.get(&uri(&lroot, f)) {
                let shown = normalise(&p.diags, &lroot);
                rep.compared += 1;
                if shown != truth[f] {
                    stale.push((f.clone(), shown));
                }
            }
        }
        for (f, t) in &open {
            let u = uri(&lroot, f);
            let st = Step::Change {
                f: f.clone(),
                text: t.clone(),
                why: "no-op (oracle)".into(),
            };
            if let Err(e) = play(&mut ls, &lroot, &mut w, &mut ver, &st) {
                return gone(e, true);
            }
            let got = normalise(&ls.published[&u].diags, &lroot);
            rep.compared += 1;
            if got != truth[f] {
                mism.push(Mism {
                    step: i,
                    file: f.clone(),
                    what: "published when analysed again (no-op didChange)",
                    got,
                    want: truth[f].clone(),
                });
            }
        }
        if ls.nonempty_publishes > 0 || truth.values().any(|v| !v.is_empty()) {
            rep.diag_seen = true;
        }
        // pure staleness: the difference disappears once the document is analysed again
        stale.retain(|(f, _)| !mism.iter().any(|m| &m.file == f));
        if mism.is_empty() && stale.is_empty() {
            continue;
        }
        // a background run the protocol model did not predict makes the server
        // hold back diagnostics: not a case this check can judge
        for _ in 0..2 {
            if let Err(e) = ls.barrier() {
                return gone(e, true);
            }
        }
        if ls.unexpected_bg {
            return Verdict::OffModel;
        }
        // LISTED ROOT CAUSE "published-stale:dependent-not-republished": the server
        // publishes only for the document named in didOpen/didChange, so an open
        // document keeps showing the diagnostics of its last analysis after
        // another document changed.
        if !stale.is_empty() {
            if h.flags.allow_known {
                let mut message = format!(
                    "after step {i} ({}) the diagnostics last published for an open document are outdated (they equal a fresh server's once the document is analysed again):\n",
                    s.kind()
                );
                for (f, shown) in &stale {
                    message.push_str(&format!("  {f} — last published:\n{}", diff_lines(shown, &truth[f])));
                }
                listed.push(("published-stale:dependent-not-republished".into(), message));
            } else {
                rep.stale_views += stale.len() as u32;
            }
        }
        if mism.is_empty() {
            continue;
        }
        // ---- attribute: does a listed root cause explain all of it?
        let div = w.divergence();
        let mut signature: Option<String> = None;
        if mism
            .iter()
            .all(|m| differs_only_by_formerly_known_names(&m.got, &m.want, &seen))
        {
            signature = Some("dropped-name-still-known".into());
        } else if !div.is_empty() {
            // a fresh server made to hold, for closed/removed documents, the
            // text the long-lived one was last told
            let forced: BTreeMap<String, String> = div.iter().map(|(p, (t, _))| (p.clone(), t.clone())).collect();
            match fresh_truth(env, &scratch.join("G"), &h.toml, &w, &forced) {
                Ok(t2) => {
                    let same = open.iter().all(|(f, _)| {
                        let got = normalise(&ls.published[&uri(&lroot, f)].diags, &lroot);
                        got == t2[f] || differs_only_by_formerly_known_names(&got, &t2[f], &seen)
                    });
                    if same {
                        let mut causes: Vec<&str> = div.values().map(|(_, c)| *c).collect();
                        causes.sort();
                        causes.dedup();
                        signature = Some(causes.join("+"));
                    }
                }
                Err(LsErr::Timeout(m)) => return Verdict::Hang(m),
                Err(_) => {}
            }
        }
        let mut message = format!(
            "after step {i} ({}) the long-lived server and a fresh server disagree:\n",
            s.kind()
        );
        for m in &mism {
            message.push_str(&format!("  {} — {}:\n{}", m.file, m.what, diff_lines(&m.got, &m.want)));
        }
        if !div.is_empty() {
            message.push_str("  documents for which the server was last told another text than editor/disk now hold:\n");
            for (p, (_, c)) in &div {
                message.push_str(&format!("    {p}: {c}\n"));
            }
        }
        match signature {
            Some(sig) => {
                if sig == "dropped-name-still-known" && !h.flags.allow_known {
                    // listed message variance: demonstrated by its reproducer and by the
                    // histories that may reach listed causes; elsewhere counted, not reported,
                    // so that the rest of the history is still compared and counts as a case
                    rep.tolerated_name_variance += 1;
                } else {
                    listed.push((sig, message));
                }
                continue;
            }
            None => {
                message.push_str("history:\n");
                message.push_str(&h.pretty());
                return Verdict::Mismatch {
                    signature: "diagnostics-differ-from-fresh-server".into(),
                    message,
                    detail: json!({
                        "failed_after_step": i,
                        "open_buffers": w.open,
                        "disk": w.disk,
                        "mismatches": mism.iter().map(|m| json!({"step": m.step, "file": m.file, "what": m.what, "long_lived": m.got, "fresh": m.want})).collect::<Vec<_>>(),
                        "trace_tail": ls.trace.iter().rev().take(40).rev().collect::<Vec<_>>(),
                    }),
                };
            }
        }
    }
    if ls.nonempty_publishes > 0 {
        rep.diag_seen = true;
    }
    if let Some((sig, _)) = listed.first() {
        let mut message = String::new();
        for (s2, m) in &listed {
            message.push_str(&format!("[{s2}] {m}"));
        }
        message.push_str("history:\n");
        message.push_str(&h.pretty());
        return Verdict::Mismatch {
            signature: sig.clone(),
            message,
            detail: json!({"listed_root_causes": listed.iter().map(|x| x.0.clone()).collect::<Vec<_>>()}),
        };
    }
    Verdict::Ok(rep)
}

/// A server that falls silent (watchdog) is inconclusive, never a violation.
/// It has been seen to happen once in several hundred histories on a heavily
/// loaded machine and not to repeat on the same history, so the history is
/// played once more on new servers before the run gives up; every expiry is
/// counted in the evidence and its history saved.
fn execute_retrying(ctx: &Ctx, env: &Env, h: &Hist) -> Verdict {
    let scratch = Scratch::new("c07");
    match execute(env, &scratch, h) {
        Verdict::Hang(m) => {
            ctx.note_add("watchdog_expiries_retried", 1);
            let dir = format!("{}/replays/C07", vcore::run::out_root());
            let _ = std::fs::create_dir_all(&dir);
            let text = serde_json::to_string_pretty(&json!({"property": "C07", "sub": "history", "payload": {"history": h.to_json()}, "note": m})).unwrap();
            let _ = std::fs::write(format!("{dir}/silent-{:016x}.json", hash_str(&text)), text);
            drop(scratch);
            let scratch = Scratch::new("c07");
            execute(env, &scratch, h)
        }
        v => v,
    }
}

fn classes_of(h: &Hist) -> Vec<String> {
    let mut c: Vec<String> = vec![];
    let mut kinds: BTreeMap<&str, u32> = BTreeMap::new();
    for s in &h.steps {
        *kinds.entry(s.kind()).or_insert(0) += 1;
    }
    for (k, _) in kinds {
        c.push(format!("has_{k}"));
    }
    let f = &h.flags;
    for (on, name) in [
        (f.xfile_change, "xfile_symbol_change"),
        (f.xfile_rename, "xfile_rename"),
        (f.xfile_rename_ref_open, "xfile_rename_referenced_from_open_file"),
        (f.xfile_rename_ref_unopened, "xfile_rename_referenced_from_unopened_file"),
        (f.syntax_break, "syntax_break"),
        (f.syntax_break && f.syntax_repair, "syntax_break_and_repair"),
        (f.close_unsaved, "close_with_unsaved_changes"),
        (f.reopen, "reopen"),
        (f.incremental, "incremental_cache_on"),
        (f.allow_known, "listed_root_causes_reachable"),
    ] {
        if on {
            c.push(name.to_string());
        }
    }
    c
}

fn outcome_of(ctx: &Ctx, h: &Hist, v: Verdict) -> Outcome {
    match v {
        Verdict::Ok(rep) => {
            let mut classes = classes_of(h);
            if rep.diag_seen {
                classes.push("diagnostic_seen".into());
            }
            for s in &h.steps {
                ctx.note_add(&format!("steps_{}", s.kind()), 1);
            }
            ctx.note_add("oracle_points", rep.checks as u64);
            ctx.note_add("documents_compared", rep.compared as u64);
            ctx.note_add(
                "oracle_documents_equal_up_to_listed_staleness(published-stale:dependent-not-republished)",
                rep.stale_views as u64,
            );
            ctx.note_add(
                "oracle_points_equal_up_to_listed_message_variance(dropped-name-still-known)",
                rep.tolerated_name_variance as u64,
            );
            if rep.stale_views > 0 {
                classes.push("listed_staleness_tolerated".into());
            }
            if rep.tolerated_name_variance > 0 {
                classes.push("listed_message_variance_tolerated".into());
            }
            ctx.note_add("steps_excluded_to_stay_clear_of_listed_root_causes", h.flags.excluded_steps as u64);
            let text = serde_json::to_string(&h.to_json()).unwrap();
            Outcome::pass(
                hash_str(&text),
                h.flags.xfile_change && rep.diag_seen && rep.compared > 0,
                classes,
                h.pretty(),
            )
        }
        Verdict::Mismatch {
            signature,
            message,
            detail,
        } => {
            if std::env::var("C07_TRACE").is_ok() {
                eprintln!("--- [{signature}]\n{message}");
            }
            Outcome::fail(signature, message, json!({"history": h.to_json(), "detail": detail}))
        }
        Verdict::ServerGone { long_lived: true, err } => Outcome::fail(
            "server-stops-after-history",
            format!(
                "the long-lived server stopped working during the history while a fresh server handles the same buffers: {err}\nhistory:\n{}",
                h.pretty()
            ),
            json!({"history": h.to_json()}),
        ),
        Verdict::OffModel => Outcome::skip("the server started a background run the protocol model does not predict"),
        Verdict::Hang(m) => {
            // reached only when the retry fell silent as well (see `execute_retrying`)
            let dir = format!("{}/replays/C07", vcore::run::out_root());
            let _ = std::fs::create_dir_all(&dir);
            let text = serde_json::to_string_pretty(&json!({"property": "C07", "sub": "history", "payload": {"history": h.to_json()}, "note": m})).unwrap();
            let p = format!("{dir}/hang-{:016x}.json", hash_str(&text));
            let _ = std::fs::write(&p, text);
            inconclusive(&format!("{m} (history saved: {p})"))
        }
        Verdict::ServerGone { long_lived: false, err } => {
            ctx.note_add("skipped_server_crash_independent_of_history", 1);
            let _ = err;
            Outcome::skip("the server stops on these buffers regardless of history (a crash on input: C11's domain)")
        }
    }
}

pub fn run(ctx: &Ctx) {
    let mut env = Env {
        bin: vcore::util::repo_bin("veryl-ls"),
        cache: PathBuf::from(format!("{}/c07-cache-{}", vcore::util::work_root(), std::process::id())),
        close_starts_bg: false,
    };
    if !env.bin.exists() {
        inconclusive(&format!("{} not built (cargo build --release -p vls)", env.bin.display()));
    }
    std::fs::create_dir_all(&env.cache).expect("cache dir");
    {
        // protocol probe: what does this server do on didClose?
        let scratch = Scratch::new("c07-probe");
        let root = scratch.join("P");
        let mut files = BTreeMap::new();
        files.insert("src/a.veryl".to_string(), "module A {}\n".to_string());
        write_disk(&root, &crate::hist::toml(false), &files);
        let r = Ls::spawn(&env.bin, &root, &env.cache)
            .and_then(|mut ls| ls.probe_close_starts_bg(&uri(&root, "src/a.veryl"), "module A {}\n"));
        match r {
            Ok(b) => env.close_starts_bg = b,
            Err(e) => inconclusive(&format!("protocol probe failed: {e:?}")),
        }
        ctx.note("server_starts_background_run_on_didClose", json!(env.close_starts_bg));
    }
    let thorough = !ctx.is_quick();

    // explicit histories: reproducers of listed findings, --replay of a recorded history
    ctx.run_payloads("history", |p| {
        let Some(h) = p.get("history").and_then(Hist::from_json) else {
            return Outcome::skip("payload is not a history");
        };
        let v = execute_retrying(ctx, &env, &h);
        outcome_of(ctx, &h, v)
    });

    let n = std::env::var("C07_CASES")
        .ok()
        .and_then(|x| x.parse().ok())
        .unwrap_or(ctx.scale(32, 800));
    let shrink = if std::env::var("C07_NOSHRINK").is_ok() { 0 } else { 150 };
    ctx.run(
        "generated",
        CaseCfg::cases(n).choices(1500).timeout_s(900).shrink_iters(shrink),
        |d: &mut Draw| {
            let h = generate(d, thorough);
            if h.checks.is_empty() {
                return Outcome::skip("history never has an open document");
            }
            let v = execute_retrying(ctx, &env, &h);
            outcome_of(ctx, &h, v)
        },
    );
    let _ = std::fs::remove_dir_all(&env.cache);

    ctx.assume("a fresh server that has opened the same documents, finished background analysis and analysed each document once more (didChange with unchanged text) is the reference; its answer for the unchanged text is taken as 'what a freshly started server publishes once background analysis is complete'");
    ctx.assume("diagnostics are compared as multisets of (range, severity, code, message); relatedInformation is not compared");
    ctx.assume("the editor changes files on disk only through save / rename / delete / create, and announces rename and delete (will*/did* file operations); one message is outstanding at a time");
    ctx.assume("the reference for 'last published' diagnostics of an open document is what the fresh server publishes for it after all buffers are opened, background analysis is complete and the document is analysed once more (a fresh server's own first publish for a document opened early predates the later buffers)");
    ctx.finish(
        "exploration",
        "generated project (1-2 packages, 1-3 modules over 2-5 files, cross-file widths/types/enum values/functions/imports/instances) + generated history of 5-15 editor steps (24 in thorough); non-trivial = the history changes (renames, removes or retypes) a declaration that another file mentions AND a diagnostic was published at some point AND at least one document was compared with a fresh server; distinct by history content",
    );
}
