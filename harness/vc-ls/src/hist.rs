//! Histories of editor steps over a generated project, the editor-side world
//! they act on, and a model of what the server has been *told* (used to
//! attribute a mismatch to a root cause that is already listed, and to keep
//! most histories clear of those causes by construction).

use crate::proj::{Content, Damage, FileM, Names, View, declared_names, edit, gen_module, gen_package, has_word};
use serde_json::{Value, json};
use std::collections::{BTreeMap, BTreeSet};
use vcore::Draw;

#[derive(Clone, Debug)]
pub enum Step {
    /// didOpen with the text on disk
    Open { f: String },
    /// didChange (full text)
    Change { f: String, text: String, why: String },
    /// the editor writes the buffer to disk, then didSave
    Save { f: String },
    /// didClose; unsaved text is discarded
    Close { f: String },
    /// willRenameFiles, rename on disk, (didClose old + didOpen new when open), didRenameFiles
    RenameFile { from: String, to: String },
    /// willDeleteFiles, (didClose when open), remove from disk
    Delete { f: String },
    /// new empty file on disk + didOpen
    Create { f: String },
}

impl Step {
    pub fn kind(&self) -> &'static str {
        match self {
            Step::Open { .. } => "didOpen",
            Step::Change { .. } => "didChange",
            Step::Save { .. } => "didSave",
            Step::Close { .. } => "didClose",
            Step::RenameFile { .. } => "renameFile",
            Step::Delete { .. } => "deleteFile",
            Step::Create { .. } => "createFile",
        }
    }
    pub fn to_json(&self) -> Value {
        match self {
            Step::Open { f } => json!({"op": "didOpen", "file": f}),
            Step::Change { f, text, why } => json!({"op": "didChange", "file": f, "edit": why, "text": text}),
            Step::Save { f } => json!({"op": "save+didSave", "file": f}),
            Step::Close { f } => json!({"op": "didClose", "file": f}),
            Step::RenameFile { from, to } => json!({"op": "renameFile", "from": from, "to": to}),
            Step::Delete { f } => json!({"op": "deleteFile", "file": f}),
            Step::Create { f } => json!({"op": "createFile+didOpen", "file": f}),
        }
    }
    pub fn from_json(v: &Value) -> Option<Step> {
        let s = |k: &str| v.get(k).and_then(|x| x.as_str()).map(|x| x.to_string());
        Some(match v.get("op")?.as_str()? {
            "didOpen" => Step::Open { f: s("file")? },
            "didChange" => Step::Change {
                f: s("file")?,
                text: s("text")?,
                why: s("edit").unwrap_or_default(),
            },
            "save+didSave" => Step::Save { f: s("file")? },
            "didClose" => Step::Close { f: s("file")? },
            "renameFile" => Step::RenameFile {
                from: s("from")?,
                to: s("to")?,
            },
            "deleteFile" => Step::Delete { f: s("file")? },
            "createFile+didOpen" => Step::Create { f: s("file")? },
            _ => return None,
        })
    }
}

/// What the server has been told, per path, following its documented
/// message handling (backend.rs / server.rs):
/// * `docs`: `document_map` — last text received for a path; entries are never removed
/// * `syms`: the text whose symbols are registered for a path (None = dropped)
/// * `latest`: `latest_change`, replayed after the next background run
#[derive(Clone, Debug, Default)]
pub struct Told {
    pub docs: BTreeMap<String, String>,
    pub syms: BTreeMap<String, Option<String>>,
    pub latest: Option<(String, String)>,
    /// path -> why it diverges (filled by `divergence`)
    pub replayed_stale: BTreeSet<String>,
}

#[derive(Clone, Debug, Default)]
pub struct World {
    pub disk: BTreeMap<String, String>,
    pub open: BTreeMap<String, String>,
    pub told: Told,
    /// the server under test forgets a buffer on didClose / will*Files and
    /// re-reads the project (executor only; generation always assumes it does not)
    pub close_forgets: bool,
}

impl World {
    fn background_run(&mut self) {
        for (p, t) in &self.disk {
            if !self.told.docs.contains_key(p) {
                self.told.syms.insert(p.clone(), Some(t.clone()));
            }
        }
        if let Some((p, t)) = self.told.latest.take() {
            if !self.open.contains_key(&p) || self.open.get(&p) != Some(&t) {
                self.told.replayed_stale.insert(p.clone());
            }
            self.told.syms.insert(p.clone(), Some(t.clone()));
            self.told.docs.insert(p, t);
        }
    }

    fn forget(&mut self, f: &str) {
        self.told.docs.remove(f);
        self.told.syms.insert(f.to_string(), None);
        if matches!(&self.told.latest, Some((p, _)) if p == f) {
            self.told.latest = None;
        }
    }

    fn told_open(&mut self, f: &str, text: &str) {
        self.told.docs.insert(f.to_string(), text.to_string());
        self.told.syms.insert(f.to_string(), Some(text.to_string()));
        self.told.latest = Some((f.to_string(), text.to_string()));
        self.background_run();
    }

    pub fn apply(&mut self, s: &Step) {
        match s {
            Step::Open { f } => {
                let text = self.disk.get(f).cloned().unwrap_or_default();
                self.open.insert(f.clone(), text.clone());
                self.told_open(f, &text);
            }
            Step::Change { f, text, .. } => {
                self.open.insert(f.clone(), text.clone());
                self.told.docs.insert(f.clone(), text.clone());
                self.told.syms.insert(f.clone(), Some(text.clone()));
                self.told.latest = Some((f.clone(), text.clone()));
            }
            Step::Save { f } => {
                if let Some(t) = self.open.get(f) {
                    self.disk.insert(f.clone(), t.clone());
                }
            }
            Step::Close { f } => {
                self.open.remove(f);
                if self.close_forgets {
                    self.forget(f);
                    self.background_run();
                }
            }
            Step::RenameFile { from, to } => {
                self.told.syms.insert(from.clone(), None);
                if self.close_forgets {
                    self.forget(from);
                }
                if let Some(t) = self.disk.remove(from) {
                    self.disk.insert(to.clone(), t);
                }
                if let Some(t) = self.open.remove(from) {
                    if self.close_forgets {
                        self.background_run();
                    }
                    self.open.insert(to.clone(), t.clone());
                    self.told_open(to, &t);
                }
                self.background_run();
            }
            Step::Delete { f } => {
                self.told.syms.insert(f.clone(), None);
                if self.close_forgets {
                    self.forget(f);
                }
                let was_open = self.open.remove(f).is_some();
                self.disk.remove(f);
                if self.close_forgets && was_open {
                    self.background_run();
                }
            }
            Step::Create { f } => {
                self.disk.insert(f.clone(), String::new());
                self.open.insert(f.clone(), String::new());
                self.told_open(f, "");
            }
        }
    }

    /// What a server should hold: the buffer of every open document, the disk
    /// text of every other project file.
    pub fn ideal(&self) -> BTreeMap<String, String> {
        let mut m = self.disk.clone();
        for (f, t) in &self.open {
            m.insert(f.clone(), t.clone());
        }
        m
    }

    /// Paths for which the told-model holds symbols of a text other than the
    /// ideal one: path -> (text the server holds symbols for, cause).
    pub fn divergence(&self) -> BTreeMap<String, (String, &'static str)> {
        let ideal = self.ideal();
        let mut out = BTreeMap::new();
        let mut paths: BTreeSet<&String> = ideal.keys().collect();
        paths.extend(self.told.syms.keys());
        for p in paths {
            let want = ideal.get(p).cloned().unwrap_or_default();
            let have = self.told.syms.get(p).cloned().flatten().unwrap_or_default();
            if want.trim().is_empty() && have.trim().is_empty() {
                continue;
            }
            if want != have {
                let cause = if self.told.replayed_stale.contains(p) {
                    "stale-change-replayed"
                } else {
                    "closed-buffer-kept"
                };
                out.insert(p.clone(), (have, cause));
            }
        }
        out
    }
}

#[derive(Clone, Debug, Default)]
pub struct Flags {
    pub xfile_change: bool,
    pub xfile_rename: bool,
    pub xfile_rename_ref_open: bool,
    pub xfile_rename_ref_unopened: bool,
    pub syntax_break: bool,
    pub syntax_repair: bool,
    pub close_unsaved: bool,
    pub reopen: bool,
    pub incremental: bool,
    pub allow_known: bool,
    pub excluded_steps: u32,
}

#[derive(Clone, Debug)]
pub struct Hist {
    pub toml: String,
    pub files: BTreeMap<String, String>,
    pub steps: Vec<Step>,
    /// indices of steps after which the oracle runs
    pub checks: Vec<usize>,
    pub flags: Flags,
}

impl Hist {
    pub fn to_json(&self) -> Value {
        json!({
            "Veryl.toml": self.toml,
            "files": self.files,
            "steps": self.steps.iter().map(|s| s.to_json()).collect::<Vec<_>>(),
            "checks_after_steps": self.checks,
        })
    }
    pub fn from_json(v: &Value) -> Option<Hist> {
        let mut files = BTreeMap::new();
        for (k, t) in v.get("files")?.as_object()? {
            files.insert(k.clone(), t.as_str()?.to_string());
        }
        let steps: Option<Vec<Step>> = v.get("steps")?.as_array()?.iter().map(Step::from_json).collect();
        let steps = steps?;
        let checks = v
            .get("checks_after_steps")
            .and_then(|c| c.as_array())
            .map(|a| a.iter().filter_map(|x| x.as_u64()).map(|x| x as usize).collect())
            .unwrap_or_else(|| vec![steps.len().saturating_sub(1)]);
        Some(Hist {
            toml: v.get("Veryl.toml")?.as_str()?.to_string(),
            files,
            steps,
            checks,
            flags: Flags {
                allow_known: true,
                ..Default::default()
            },
        })
    }
    pub fn pretty(&self) -> String {
        let mut s = String::new();
        for (f, t) in &self.files {
            s.push_str(&format!("=== {f}\n{t}"));
        }
        for (i, st) in self.steps.iter().enumerate() {
            let c = if self.checks.contains(&i) { " [check]" } else { "" };
            match st {
                Step::Change { f, why, .. } => s.push_str(&format!("{i}: didChange {f}: {why}{c}\n")),
                Step::RenameFile { from, to } => s.push_str(&format!("{i}: renameFile {from} -> {to}{c}\n")),
                Step::Open { f } | Step::Save { f } | Step::Close { f } | Step::Delete { f } | Step::Create { f } => {
                    s.push_str(&format!("{i}: {} {f}{c}\n", st.kind()))
                }
            }
        }
        s
    }
}

pub fn toml(incremental: bool) -> String {
    format!(
        "[project]\nname = \"c07\"\nversion = \"0.1.0\"\n[build]\nsources = [\"src\"]\ntarget = {{type = \"directory\", path = \"target\"}}\nexclude_std = true\n{}",
        if incremental { "incremental = true\n" } else { "" }
    )
}

struct GFile {
    disk: Content,
    buf: Option<Content>,
    ever_closed: bool,
}

/// Generate a project and a history.  Pure function of the choice sequence.
pub fn generate(d: &mut Draw, thorough: bool) -> Hist {
    let mut nm = Names::new();
    let mut flags = Flags::default();
    // listed root causes are reachable only in a minority of histories
    flags.allow_known = d.chance(1, 6);
    flags.incremental = d.chance(1, 4);
    let mut g: BTreeMap<String, GFile> = BTreeMap::new();
    let models = |g: &BTreeMap<String, GFile>| -> View {
        View::of(g.values().map(|f| match &f.buf {
            Some(b) => &b.m,
            None => &f.disk.m,
        }))
    };
    // ---- project: one or two packages, then modules that use them and each other
    let n_pkg = d.usize_in(1, 2);
    let n_mod = d.usize_in(1, if n_pkg == 1 { 3 } else { 2 });
    let mut fno = 0;
    let fname = |fno: &mut u32| {
        *fno += 1;
        format!("src/f{}.veryl", *fno)
    };
    for _ in 0..n_pkg {
        let v = models(&g);
        let p = gen_package(d, &mut nm, &v);
        g.insert(
            fname(&mut fno),
            GFile {
                disk: Content {
                    m: FileM { decls: vec![p] },
                    dmg: None,
                    nl: 0,
                },
                buf: None,
                ever_closed: false,
            },
        );
    }
    for _ in 0..n_mod {
        let v = models(&g);
        let m = gen_module(d, &mut nm, &v);
        g.insert(
            fname(&mut fno),
            GFile {
                disk: Content {
                    m: FileM { decls: vec![m] },
                    dmg: None,
                    nl: 0,
                },
                buf: None,
                ever_closed: false,
            },
        );
    }
    let files: BTreeMap<String, String> = g.iter().map(|(k, f)| (k.clone(), f.disk.text())).collect();
    let mut w = World {
        disk: files.clone(),
        ..Default::default()
    };
    let mut steps: Vec<Step> = vec![];
    let mut former: Vec<String> = vec![];
    let mut renames: Vec<(String, String)> = vec![];
    let n_steps = d.usize_in(5, if thorough { 24 } else { 15 });
    let mut guard = 0;
    let mut deleted = false;
    while steps.len() < n_steps && guard < 200 {
        guard += 1;
        let open: Vec<String> = g.iter().filter(|(_, f)| f.buf.is_some()).map(|(k, _)| k.clone()).collect();
        let closed: Vec<String> = g.iter().filter(|(_, f)| f.buf.is_none()).map(|(k, _)| k.clone()).collect();
        let all: Vec<String> = g.keys().cloned().collect();
        let kind = if steps.is_empty() {
            0
        } else {
            d.weighted(&[
                if closed.is_empty() {
                    0
                } else if open.len() < 2 {
                    // several documents open early: renames are then seen from open dependents
                    16
                } else if closed.iter().any(|f| g[f].ever_closed) {
                    8
                } else {
                    4
                },
                if open.is_empty() { 0 } else { 20 },
                if open.is_empty() { 0 } else { 2 },
                if open.is_empty() { 0 } else { 4 },
                2,
                if all.len() >= 3 && !deleted { 1 } else { 0 },
                if all.len() <= 4 { 1 } else { 0 },
            ])
        };
        // candidate steps (more than one for compound user actions)
        let mut cand: Vec<Step> = vec![];
        let before_flags = flags.clone();
        // model changes are applied to a copy of the generator state lazily: collect closures' results
        enum GOp {
            Open(String),
            SetBuf(String, Content),
            Save(String),
            Close(String),
            Rename(String, String),
            Delete(String),
            Create(String),
        }
        let mut gops: Vec<GOp> = vec![];
        match kind {
            0 => {
                let f = d.pick(&closed).clone();
                if g[&f].ever_closed {
                    flags.reopen = true;
                }
                cand.push(Step::Open { f: f.clone() });
                gops.push(GOp::Open(f));
            }
            1 => {
                // until the history has changed a symbol that another file mentions,
                // prefer a document that declares such a symbol
                let mut f = d.pick(&open).clone();
                if !flags.xfile_change && d.chance(3, 4) {
                    let hot_files: Vec<String> = open
                        .iter()
                        .filter(|f| {
                            let mut others = String::new();
                            for (_, gf) in g.iter().filter(|(k, _)| k != f) {
                                others.push_str(&match &gf.buf {
                                    Some(b) => b.text(),
                                    None => gf.disk.text(),
                                });
                            }
                            let m = &g[*f].buf.as_ref().unwrap().m;
                            m.decls.iter().any(|x| has_word(&others, &x.name))
                                || declared_names(m).iter().any(|n| has_word(&others, &n.1))
                        })
                        .cloned()
                        .collect();
                    if !hot_files.is_empty() {
                        f = d.pick(&hot_files).clone();
                    }
                }
                let cur = g[&f].buf.clone().unwrap();
                let cur_text = cur.text();
                let mut new = cur.clone();
                let mut why = String::new();
                let sub = if cur.dmg.is_some() {
                    d.weighted(&[3, 3, 0, 1])
                } else {
                    d.weighted(&[12, 0, 3, 1])
                };
                match sub {
                    0 => {
                        let v = models(&g);
                        let mut others = String::new();
                        for (k, gf) in g.iter().filter(|(k, _)| **k != f) {
                            let _ = k;
                            others.push_str(&match &gf.buf {
                                Some(b) => b.text(),
                                None => gf.disk.text(),
                            });
                        }
                        let hot = |n: &str| has_word(&others, n);
                        for _ in 0..4 {
                            if let Some(info) = edit(d, &mut nm, &mut new.m, &v, &mut former, &renames, &hot, !flags.xfile_change) {
                                // cross-file effect: another file mentions a changed name
                                for ch in &info.changed {
                                    let mut in_open = false;
                                    let mut in_unopened = false;
                                    for (k, gf) in g.iter().filter(|(k, _)| **k != f) {
                                        let t = match &gf.buf {
                                            Some(b) => b.text(),
                                            None => gf.disk.text(),
                                        };
                                        if has_word(&t, ch) {
                                            if gf.buf.is_some() {
                                                in_open = true;
                                            } else {
                                                in_unopened = true;
                                            }
                                            let _ = k;
                                        }
                                    }
                                    if in_open || in_unopened {
                                        flags.xfile_change = true;
                                        if info.is_rename {
                                            flags.xfile_rename = true;
                                            flags.xfile_rename_ref_open |= in_open;
                                            flags.xfile_rename_ref_unopened |= in_unopened;
                                        }
                                    }
                                }
                                if info.is_rename
                                    && let Some((o, n)) = info.what.strip_prefix("rename ").and_then(|x| x.split_once(" -> "))
                                {
                                    renames.push((o.to_string(), n.to_string()));
                                }
                                why = info.what;
                                break;
                            }
                        }
                    }
                    1 => {
                        new.dmg = None;
                        why = "repair syntax".into();
                        flags.syntax_repair = true;
                    }
                    2 => {
                        new.dmg = Some(Damage::draw(d));
                        why = format!("break syntax ({:?})", new.dmg.as_ref().unwrap());
                        flags.syntax_break = true;
                    }
                    _ => {
                        new = g[&f].disk.clone();
                        why = "revert to the saved text".into();
                    }
                }
                let mut text = new.text();
                if text == cur_text || why.is_empty() {
                    // a whitespace edit is an edit
                    new = cur.clone();
                    new.nl = (cur.nl + 1) % 3;
                    text = new.text();
                    why = "change trailing blank lines".into();
                }
                cand.push(Step::Change {
                    f: f.clone(),
                    text,
                    why,
                });
                gops.push(GOp::SetBuf(f, new));
            }
            2 => {
                let f = d.pick(&open).clone();
                cand.push(Step::Save { f: f.clone() });
                gops.push(GOp::Save(f));
            }
            3 => {
                // histories that may reach listed root causes close documents with unsaved changes
                let dirty_open: Vec<String> = open.iter().filter(|f| w.open.get(*f) != w.disk.get(*f)).cloned().collect();
                let f = if flags.allow_known && !dirty_open.is_empty() {
                    d.pick(&dirty_open).clone()
                } else {
                    d.pick(&open).clone()
                };
                let dirty = w.open.get(&f) != w.disk.get(&f);
                if dirty && !flags.allow_known {
                    // the user answers "save" to the editor's prompt
                    cand.push(Step::Save { f: f.clone() });
                    gops.push(GOp::Save(f.clone()));
                } else if dirty {
                    flags.close_unsaved = true;
                }
                cand.push(Step::Close { f: f.clone() });
                gops.push(GOp::Close(f));
            }
            4 => {
                let f = d.pick(&all).clone();
                // sometimes back to a name the project used before
                let old_names: Vec<String> = w
                    .told
                    .docs
                    .keys()
                    .filter(|p| !g.contains_key(*p))
                    .cloned()
                    .collect();
                let to = if !old_names.is_empty() && d.chance(1, 3) {
                    d.pick(&old_names).clone()
                } else {
                    fname(&mut fno)
                };
                cand.push(Step::RenameFile {
                    from: f.clone(),
                    to: to.clone(),
                });
                gops.push(GOp::Rename(f, to));
            }
            5 => {
                let f = d.pick(&all).clone();
                deleted = true;
                cand.push(Step::Delete { f: f.clone() });
                gops.push(GOp::Delete(f));
            }
            _ => {
                let f = fname(&mut fno);
                cand.push(Step::Create { f: f.clone() });
                gops.push(GOp::Create(f));
            }
        }
        // ---- clean histories stay clear of the listed root causes
        let mut w2 = w.clone();
        for s in &cand {
            w2.apply(s);
        }
        if !flags.allow_known && !w2.divergence().is_empty() {
            flags = before_flags;
            flags.excluded_steps += 1;
            continue;
        }
        w = w2;
        for op in gops {
            match op {
                GOp::Open(f) => {
                    let gf = g.get_mut(&f).unwrap();
                    gf.buf = Some(gf.disk.clone());
                }
                GOp::SetBuf(f, c) => {
                    g.get_mut(&f).unwrap().buf = Some(c);
                }
                GOp::Save(f) => {
                    let gf = g.get_mut(&f).unwrap();
                    // the text on disk is the text of the buffer, including a trailing blank line if any
                    gf.disk = gf.buf.clone().unwrap();
                }
                GOp::Close(f) => {
                    let gf = g.get_mut(&f).unwrap();
                    gf.buf = None;
                    gf.ever_closed = true;
                }
                GOp::Rename(f, to) => {
                    let gf = g.remove(&f).unwrap();
                    g.insert(to, gf);
                }
                GOp::Delete(f) => {
                    g.remove(&f);
                }
                GOp::Create(f) => {
                    let c = Content {
                        m: FileM::default(),
                        dmg: None,
                        nl: 0,
                    };
                    g.insert(
                        f,
                        GFile {
                            disk: c.clone(),
                            buf: Some(c),
                            ever_closed: false,
                        },
                    );
                }
            }
        }
        steps.extend(cand);
    }
    // ---- checkpoints: the last step and a few earlier ones with an open document
    let mut checks = vec![];
    {
        let mut w3 = World {
            disk: files.clone(),
            ..Default::default()
        };
        let mut ok = vec![];
        for (i, s) in steps.iter().enumerate() {
            w3.apply(s);
            if !w3.open.is_empty() {
                ok.push(i);
            }
        }
        if let Some(last) = ok.last().copied() {
            let extra = if thorough { 4 } else { 2 };
            for _ in 0..extra {
                if ok.len() > 1 {
                    let i = ok[d.below_usize(ok.len() - 1)];
                    if !checks.contains(&i) {
                        checks.push(i);
                    }
                }
            }
            checks.push(last);
            checks.sort();
            checks.dedup();
        }
    }
    Hist {
        toml: toml(flags.incremental),
        files,
        steps,
        checks,
        flags,
    }
}
