// placeholder
