//! `vbv` — a small reference model of IEEE 1800 four-state bit vectors.
//!
//! Written from the LRM (IEEE 1800-2017 clause 11: Table 11-21 expression bit
//! lengths, 11.8.1/11.8.2 expression types and evaluation steps, 11.4.x
//! operator definitions), not from any implementation.  Clarity over speed: a
//! value is a `Vec<Bit>` (LSB first) plus a signedness flag; arithmetic on
//! fully known operands goes through mathematical integers (`num-bigint`) and
//! is reduced modulo 2^width.
//!
//! Two layers:
//!
//! * [`Bv`] and the *sized* operator functions ([`Bv::add`], [`Bv::shl`], …):
//!   the operands are already in the context type (same width, same
//!   signedness) exactly as after the propagation step of 11.8.2.
//! * [`unary`] / [`binary`] / [`cond`] and the [`expr::Expr`] tree: apply the
//!   sizing and signedness rules themselves (self-determined vs context
//!   determined operands) and then call the sized functions.
//!
//! See README.md for the rule list and the places where the LRM leaves
//! latitude ([`Latitude`]).

pub mod expr;

use num_bigint::{BigInt, BigUint, Sign};
use num_traits::{One, Zero};
use std::fmt;

// ---------------------------------------------------------------------------
// Bit
// ---------------------------------------------------------------------------

/// One four-state bit.
#[derive(Clone, Copy, PartialEq, Eq, Hash, Debug, PartialOrd, Ord)]
pub enum Bit {
    Zero,
    One,
    X,
    Z,
}

use Bit::{One as B1, X as BX, Z as BZ, Zero as B0};

impl Bit {
    pub const ALL: [Bit; 4] = [B0, B1, BX, BZ];

    pub fn from_bool(b: bool) -> Bit {
        if b { B1 } else { B0 }
    }
    /// `Some(false/true)` for 0/1, `None` for X/Z.
    pub fn known(self) -> Option<bool> {
        match self {
            B0 => Some(false),
            B1 => Some(true),
            _ => None,
        }
    }
    pub fn is_xz(self) -> bool {
        matches!(self, BX | BZ)
    }
    pub fn to_char(self) -> char {
        match self {
            B0 => '0',
            B1 => '1',
            BX => 'x',
            BZ => 'z',
        }
    }
    pub fn from_char(c: char) -> Option<Bit> {
        match c {
            '0' => Some(B0),
            '1' => Some(B1),
            'x' | 'X' => Some(BX),
            'z' | 'Z' | '?' => Some(BZ),
            _ => None,
        }
    }
    /// Table 11-11 (bitwise and).  Z behaves as X.
    pub fn and(self, o: Bit) -> Bit {
        match (self.known(), o.known()) {
            (Some(false), _) | (_, Some(false)) => B0,
            (Some(true), Some(true)) => B1,
            _ => BX,
        }
    }
    /// Table 11-12 (bitwise or).
    pub fn or(self, o: Bit) -> Bit {
        match (self.known(), o.known()) {
            (Some(true), _) | (_, Some(true)) => B1,
            (Some(false), Some(false)) => B0,
            _ => BX,
        }
    }
    /// Table 11-13 (bitwise xor).
    pub fn xor(self, o: Bit) -> Bit {
        match (self.known(), o.known()) {
            (Some(a), Some(b)) => Bit::from_bool(a ^ b),
            _ => BX,
        }
    }
    /// Table 11-14 (bitwise xnor).
    pub fn xnor(self, o: Bit) -> Bit {
        self.xor(o).not()
    }
    /// Table 11-15 (bitwise negation).
    pub fn not(self) -> Bit {
        match self.known() {
            Some(b) => Bit::from_bool(!b),
            None => BX,
        }
    }
    /// Table 11-20 (merge of the two arms of `?:` under an unknown condition).
    pub fn merge(self, o: Bit) -> Bit {
        match (self.known(), o.known()) {
            (Some(a), Some(b)) if a == b => Bit::from_bool(a),
            _ => BX,
        }
    }
}

/// Three-valued truth of an operand used as a condition (11.4.7): true when
/// some bit is a known 1, false when every bit is a known 0, unknown otherwise.
#[derive(Clone, Copy, PartialEq, Eq, Debug)]
pub enum Truth {
    False,
    True,
    Unknown,
}

impl Truth {
    pub fn to_bit(self) -> Bit {
        match self {
            Truth::False => B0,
            Truth::True => B1,
            Truth::Unknown => BX,
        }
    }
}

// ---------------------------------------------------------------------------
// Operators
// ---------------------------------------------------------------------------

#[derive(Clone, Copy, PartialEq, Eq, Hash, Debug)]
pub enum UnOp {
    /// `+a`
    Plus,
    /// `-a`
    Minus,
    /// `~a`
    BitNot,
    /// `&a`
    RedAnd,
    /// `~&a`
    RedNand,
    /// `|a`
    RedOr,
    /// `~|a`
    RedNor,
    /// `^a`
    RedXor,
    /// `~^a`
    RedXnor,
    /// `!a`
    LogNot,
}

impl UnOp {
    pub const ALL: [UnOp; 10] = [
        UnOp::Plus,
        UnOp::Minus,
        UnOp::BitNot,
        UnOp::RedAnd,
        UnOp::RedNand,
        UnOp::RedOr,
        UnOp::RedNor,
        UnOp::RedXor,
        UnOp::RedXnor,
        UnOp::LogNot,
    ];
    /// Operand is context-determined and the result has the context type
    /// (`+ - ~`); otherwise the operand is self-determined and the result is
    /// 1 bit unsigned.
    pub fn is_context(self) -> bool {
        matches!(self, UnOp::Plus | UnOp::Minus | UnOp::BitNot)
    }
    pub fn sv(self) -> &'static str {
        match self {
            UnOp::Plus => "+",
            UnOp::Minus => "-",
            UnOp::BitNot => "~",
            UnOp::RedAnd => "&",
            UnOp::RedNand => "~&",
            UnOp::RedOr => "|",
            UnOp::RedNor => "~|",
            UnOp::RedXor => "^",
            UnOp::RedXnor => "~^",
            UnOp::LogNot => "!",
        }
    }
}

#[derive(Clone, Copy, PartialEq, Eq, Hash, Debug)]
pub enum BinOp {
    Add,
    Sub,
    Mul,
    Div,
    Rem,
    Pow,
    And,
    Or,
    Xor,
    Xnor,
    /// `<<`
    Shl,
    /// `>>`
    Shr,
    /// `<<<`
    AShl,
    /// `>>>`
    AShr,
    Lt,
    Le,
    Gt,
    Ge,
    Eq,
    Ne,
    /// `===`
    CaseEq,
    /// `!==`
    CaseNe,
    /// `==?`
    WildEq,
    /// `!=?`
    WildNe,
    LogAnd,
    LogOr,
}

/// How an operator sizes its operands and result (Table 11-21).
#[derive(Clone, Copy, PartialEq, Eq, Debug)]
pub enum BinClass {
    /// `+ - * / % & | ^ ~^`: both operands context-determined, result = context.
    Arith,
    /// `<< >> <<< >>> **`: left operand context-determined, right self-determined.
    ShiftPow,
    /// relational / equality: operands sized to max(L(i),L(j)) (signed iff both
    /// signed), result 1 bit unsigned.
    Compare,
    /// `&& ||`: both operands self-determined, result 1 bit unsigned.
    Logical,
}

impl BinOp {
    pub const ALL: [BinOp; 26] = [
        BinOp::Add,
        BinOp::Sub,
        BinOp::Mul,
        BinOp::Div,
        BinOp::Rem,
        BinOp::Pow,
        BinOp::And,
        BinOp::Or,
        BinOp::Xor,
        BinOp::Xnor,
        BinOp::Shl,
        BinOp::Shr,
        BinOp::AShl,
        BinOp::AShr,
        BinOp::Lt,
        BinOp::Le,
        BinOp::Gt,
        BinOp::Ge,
        BinOp::Eq,
        BinOp::Ne,
        BinOp::CaseEq,
        BinOp::CaseNe,
        BinOp::WildEq,
        BinOp::WildNe,
        BinOp::LogAnd,
        BinOp::LogOr,
    ];
    pub fn class(self) -> BinClass {
        use BinOp::*;
        match self {
            Add | Sub | Mul | Div | Rem | And | Or | Xor | Xnor => BinClass::Arith,
            Shl | Shr | AShl | AShr | Pow => BinClass::ShiftPow,
            Lt | Le | Gt | Ge | Eq | Ne | CaseEq | CaseNe | WildEq | WildNe => BinClass::Compare,
            LogAnd | LogOr => BinClass::Logical,
        }
    }
    pub fn sv(self) -> &'static str {
        use BinOp::*;
        match self {
            Add => "+",
            Sub => "-",
            Mul => "*",
            Div => "/",
            Rem => "%",
            Pow => "**",
            And => "&",
            Or => "|",
            Xor => "^",
            Xnor => "~^",
            Shl => "<<",
            Shr => ">>",
            AShl => "<<<",
            AShr => ">>>",
            Lt => "<",
            Le => "<=",
            Gt => ">",
            Ge => ">=",
            Eq => "==",
            Ne => "!=",
            CaseEq => "===",
            CaseNe => "!==",
            WildEq => "==?",
            WildNe => "!=?",
            LogAnd => "&&",
            LogOr => "||",
        }
    }
}

/// Points where the LRM is silent or implementations are known to differ.
/// The sized operator functions report them so that a caller can accept
/// either behaviour (and count how often that happened).
#[derive(Clone, Copy, PartialEq, Eq, Hash, Debug, PartialOrd, Ord)]
pub enum Latitude {
    /// signed `MIN / -1` (quotient not representable; this model wraps to MIN)
    /// and `MIN % -1` (this model gives 0).
    SignedMinDivMinusOne,
    /// `**` with operands of different signedness: this model takes the type
    /// of the result from the left operand alone (the right operand is
    /// self-determined, 11.4.3 / 11.8.1); some tools take it from both.
    PowMixedSign,
    /// a sign bit that is X or Z was replicated (sign extension or `>>>`
    /// fill): this model replicates the bit as it is; the alternative fills
    /// with X.
    XzSignBit,
    /// unary `+` on an operand with x/z bits: Table 11-5 lists it as an
    /// arithmetic operator (⇒ all x, this model's default); many tools treat
    /// it as the identity.
    UnaryPlusXz,
    /// an unbased unsized literal (`'0 '1 'x 'z`) in a context-determined
    /// position: 5.7.1 calls it unsigned only for the self-determined case.
    /// This model treats it as unsigned everywhere (its siblings are then
    /// zero-extended); the alternative lets it take the sign of its siblings.
    UnsizedLiteralSign,
}

/// One consistent choice at every [`Latitude`] point that has a finite set of
/// alternatives.  `Dialect::default()` is the literal reading of the LRM;
/// [`Dialect::all`] enumerates every combination so that a checker can accept
/// any of them.  ([`Latitude::SignedMinDivMinusOne`] has no switch: any result
/// is acceptable there, a checker should not constrain such a case at all.)
#[derive(Clone, Copy, PartialEq, Eq, Hash, Debug, Default)]
pub struct Dialect {
    /// `**`: result (and base) signed only if *both* operands are signed.
    pub pow_sign_from_both: bool,
    /// unary `+` passes x/z bits through unchanged.
    pub unary_plus_passthrough: bool,
    /// an x/z sign bit extends / arithmetic-shifts in as x (not as itself).
    pub xz_sign_fill_x: bool,
    /// an unbased unsized literal does not make its context unsigned.
    pub unsized_literal_signed: bool,
}

impl Dialect {
    pub fn all() -> Vec<Dialect> {
        let mut v = vec![];
        for a in [false, true] {
            for b in [false, true] {
                for c in [false, true] {
                    for e in [false, true] {
                        v.push(Dialect {
                            pow_sign_from_both: a,
                            unary_plus_passthrough: b,
                            xz_sign_fill_x: c,
                            unsized_literal_signed: e,
                        });
                    }
                }
            }
        }
        v
    }
}

// ---------------------------------------------------------------------------
// Bv
// ---------------------------------------------------------------------------

/// A four-state bit vector of fixed width with a signedness flag.
/// `bits[0]` is the least significant bit.  Width 0 is allowed (empty
/// concatenation seed) but no operator other than `concat` accepts it.
#[derive(Clone, PartialEq, Eq, Hash, Debug)]
pub struct Bv {
    bits: Vec<Bit>,
    signed: bool,
}

fn pow2(width: usize) -> BigUint {
    BigUint::one() << width
}

impl Bv {
    // ----- construction ---------------------------------------------------

    /// From bits given LSB first.
    pub fn new(bits_lsb_first: Vec<Bit>, signed: bool) -> Bv {
        Bv {
            bits: bits_lsb_first,
            signed,
        }
    }
    pub fn filled(bit: Bit, width: usize, signed: bool) -> Bv {
        Bv::new(vec![bit; width], signed)
    }
    pub fn zeros(width: usize, signed: bool) -> Bv {
        Bv::filled(B0, width, signed)
    }
    pub fn all_x(width: usize, signed: bool) -> Bv {
        Bv::filled(BX, width, signed)
    }
    pub fn bit1(b: Bit) -> Bv {
        Bv::new(vec![b], false)
    }
    /// The low `width` bits of `v` (two's complement pattern).
    pub fn from_biguint(v: &BigUint, width: usize, signed: bool) -> Bv {
        Bv::new((0..width as u64).map(|i| Bit::from_bool(v.bit(i))).collect(), signed)
    }
    /// The mathematical integer `v` reduced modulo 2^width.
    pub fn from_bigint(v: &BigInt, width: usize, signed: bool) -> Bv {
        let m = BigInt::from_biguint(Sign::Plus, pow2(width));
        let mut r = v % &m;
        if r.sign() == Sign::Minus {
            r += &m;
        }
        Bv::from_biguint(r.magnitude(), width, signed)
    }
    pub fn from_u64(v: u64, width: usize, signed: bool) -> Bv {
        Bv::from_biguint(&BigUint::from(v), width, signed)
    }
    pub fn from_i64(v: i64, width: usize, signed: bool) -> Bv {
        Bv::from_bigint(&BigInt::from(v), width, signed)
    }
    /// From a string of `0 1 x z` written MSB first (underscores ignored).
    pub fn from_msb_str(s: &str, signed: bool) -> Option<Bv> {
        let mut bits = Vec::new();
        for c in s.chars().rev() {
            if c == '_' {
                continue;
            }
            bits.push(Bit::from_char(c)?);
        }
        Some(Bv::new(bits, signed))
    }
    /// Two-plane encoding used by many implementations: bit i of `xz` clear ⇒
    /// the bit is `val[i]`; set ⇒ X when `val[i]` is 0 and Z when it is 1.
    pub fn from_planes(val: &BigUint, xz: &BigUint, width: usize, signed: bool) -> Bv {
        Bv::new(
            (0..width as u64)
                .map(|i| match (xz.bit(i), val.bit(i)) {
                    (false, false) => B0,
                    (false, true) => B1,
                    (true, false) => BX,
                    (true, true) => BZ,
                })
                .collect(),
            signed,
        )
    }
    /// Inverse of [`Bv::from_planes`]: `(val, xz)`.
    pub fn to_planes(&self) -> (BigUint, BigUint) {
        let mut val = BigUint::zero();
        let mut xz = BigUint::zero();
        for (i, b) in self.bits.iter().enumerate() {
            match b {
                B0 => {}
                B1 => val.set_bit(i as u64, true),
                BX => xz.set_bit(i as u64, true),
                BZ => {
                    val.set_bit(i as u64, true);
                    xz.set_bit(i as u64, true);
                }
            }
        }
        (val, xz)
    }
    /// IEEE 1800 Annex H `svLogicVecVal` words (32 bits per word, LSB word
    /// first): per bit `(aval,bval)` = 0→(0,0) 1→(1,0) Z→(0,1) X→(1,1).
    /// Unused bits of the last word are 0.
    pub fn to_sv_logic_words(&self) -> Vec<(u32, u32)> {
        let words = self.width().div_ceil(32);
        let mut out = vec![(0u32, 0u32); words];
        for (i, b) in self.bits.iter().enumerate() {
            let (a, bv) = match b {
                B0 => (0, 0),
                B1 => (1, 0),
                BZ => (0, 1),
                BX => (1, 1),
            };
            out[i / 32].0 |= a << (i % 32);
            out[i / 32].1 |= bv << (i % 32);
        }
        out
    }
    /// Inverse of [`Bv::to_sv_logic_words`] for the low `width` bits.
    pub fn from_sv_logic_words(words: &[(u32, u32)], width: usize, signed: bool) -> Bv {
        Bv::new(
            (0..width)
                .map(|i| {
                    let (a, b) = words.get(i / 32).copied().unwrap_or((0, 0));
                    match ((a >> (i % 32)) & 1, (b >> (i % 32)) & 1) {
                        (0, 0) => B0,
                        (1, 0) => B1,
                        (0, 1) => BZ,
                        _ => BX,
                    }
                })
                .collect(),
            signed,
        )
    }

    // ----- inspection -----------------------------------------------------

    pub fn width(&self) -> usize {
        self.bits.len()
    }
    pub fn signed(&self) -> bool {
        self.signed
    }
    /// Bits, LSB first.
    pub fn bits(&self) -> &[Bit] {
        &self.bits
    }
    /// Bit `i` (LSB = 0); X when out of range (11.5.1).
    pub fn bit(&self, i: usize) -> Bit {
        self.bits.get(i).copied().unwrap_or(BX)
    }
    pub fn msb(&self) -> Bit {
        self.bits.last().copied().unwrap_or(B0)
    }
    pub fn has_xz(&self) -> bool {
        self.bits.iter().any(|b| b.is_xz())
    }
    /// The bit pattern as an unsigned integer; `None` when a bit is X/Z.
    pub fn to_biguint(&self) -> Option<BigUint> {
        let mut v = BigUint::zero();
        for (i, b) in self.bits.iter().enumerate() {
            if b.known()? {
                v.set_bit(i as u64, true);
            }
        }
        Some(v)
    }
    /// The mathematical value under the vector's own signedness.
    pub fn to_bigint(&self) -> Option<BigInt> {
        let u = self.to_biguint()?;
        let v = BigInt::from_biguint(Sign::Plus, u);
        if self.signed && self.msb() == B1 {
            Some(v - BigInt::from_biguint(Sign::Plus, pow2(self.width())))
        } else {
            Some(v)
        }
    }
    pub fn truth(&self) -> Truth {
        if self.bits.contains(&B1) {
            Truth::True
        } else if self.has_xz() {
            Truth::Unknown
        } else {
            Truth::False
        }
    }
    /// Same bits, other signedness (`$signed` / `$unsigned`, 11.7).
    pub fn with_signed(&self, signed: bool) -> Bv {
        Bv::new(self.bits.clone(), signed)
    }
    /// MSB-first string of `0 1 x z`.
    pub fn to_msb_string(&self) -> String {
        self.bits.iter().rev().map(|b| b.to_char()).collect()
    }

    // ----- sizing ---------------------------------------------------------

    /// Extend to `width` (no-op when already that wide or wider): sign
    /// extension (replicating the MSB as it is, also when it is X/Z) when
    /// `sign_extend`, zero extension otherwise.
    pub fn extend(&self, width: usize, sign_extend: bool) -> Bv {
        let mut bits = self.bits.clone();
        let fill = if sign_extend && !bits.is_empty() { self.msb() } else { B0 };
        while bits.len() < width {
            bits.push(fill);
        }
        Bv::new(bits, self.signed)
    }
    /// Keep the low `width` bits (no-op when not wider).
    pub fn truncate(&self, width: usize) -> Bv {
        let mut bits = self.bits.clone();
        bits.truncate(width);
        Bv::new(bits, self.signed)
    }
    /// Assignment-style resize (10.7): extend by the vector's own signedness,
    /// or truncate.
    pub fn resize(&self, width: usize) -> Bv {
        if self.width() >= width {
            self.truncate(width)
        } else {
            self.extend(width, self.signed)
        }
    }
    /// The propagation step of 11.8.2 for a simple operand: convert to the
    /// propagated type; when it has to be extended it is sign-extended only
    /// if the propagated type is signed (which, by 11.8.1, implies the operand
    /// itself is signed).  `width` must be ≥ the operand's width.
    pub fn to_context(&self, width: usize, signed: bool) -> Bv {
        assert!(width >= self.width(), "context narrower than operand");
        self.extend(width, signed && self.signed).with_signed(signed)
    }
    /// [`Bv::to_context`] under a dialect (x/z sign bit handling).
    pub fn to_context_d(&self, width: usize, signed: bool, d: &Dialect) -> Bv {
        if d.xz_sign_fill_x && self.xz_sign_replicated(width, signed) {
            let mut bits = self.bits.clone();
            bits.resize(width, BX);
            return Bv::new(bits, signed);
        }
        self.to_context(width, signed)
    }
    /// True when [`Bv::to_context`] / `resize` would replicate an X/Z sign bit.
    pub fn xz_sign_replicated(&self, width: usize, sign_extend: bool) -> bool {
        sign_extend && self.signed && width > self.width() && self.msb().is_xz()
    }

    /// `{self, low}` (11.4.12): unsigned.
    pub fn concat(&self, low: &Bv) -> Bv {
        let mut bits = low.bits.clone();
        bits.extend_from_slice(&self.bits);
        Bv::new(bits, false)
    }
    /// `{parts[0], parts[1], …}` — first part is the most significant.
    pub fn concat_all(parts: &[Bv]) -> Bv {
        let mut r = Bv::new(vec![], false);
        for p in parts {
            r = r.concat(p);
        }
        r
    }
    /// `{n{self}}` (11.4.12.1): unsigned.
    pub fn replicate(&self, n: usize) -> Bv {
        let mut bits = Vec::with_capacity(n * self.width());
        for _ in 0..n {
            bits.extend_from_slice(&self.bits);
        }
        Bv::new(bits, false)
    }
    /// Part select `[hi:lo]` (11.5.1): unsigned, bits outside the vector read
    /// X.  Requires `hi >= lo`.
    pub fn part_select(&self, hi: usize, lo: usize) -> Bv {
        assert!(hi >= lo);
        Bv::new((lo..=hi).map(|i| self.bit(i)).collect(), false)
    }
    /// Write `value` (resized to the slice) into `[hi:lo]`; bits outside the
    /// vector are ignored.
    pub fn part_assign(&self, hi: usize, lo: usize, value: &Bv) -> Bv {
        assert!(hi >= lo);
        let v = value.resize(hi - lo + 1);
        let mut bits = self.bits.clone();
        for i in lo..=hi {
            if i < bits.len() {
                bits[i] = v.bits[i - lo];
            }
        }
        Bv::new(bits, self.signed)
    }

    // ----- sized operators (operands already in the context type) ----------

    fn same_type(&self, o: &Bv) {
        assert_eq!(self.width(), o.width(), "sized operator: widths differ");
        assert_eq!(self.signed, o.signed, "sized operator: signedness differs");
        assert!(self.width() > 0, "sized operator: zero width");
    }
    fn arith(&self, o: &Bv, f: impl Fn(BigInt, BigInt) -> Option<BigInt>) -> Bv {
        self.same_type(o);
        match (self.to_bigint(), o.to_bigint()) {
            (Some(a), Some(b)) => match f(a, b) {
                Some(r) => Bv::from_bigint(&r, self.width(), self.signed),
                None => Bv::all_x(self.width(), self.signed),
            },
            // 11.4.2: any x/z bit in an arithmetic operand ⇒ the whole result is x
            _ => Bv::all_x(self.width(), self.signed),
        }
    }
    /// `a + b` modulo 2^width.
    pub fn add(&self, o: &Bv) -> Bv {
        self.arith(o, |a, b| Some(a + b))
    }
    pub fn sub(&self, o: &Bv) -> Bv {
        self.arith(o, |a, b| Some(a - b))
    }
    pub fn mul(&self, o: &Bv) -> Bv {
        self.arith(o, |a, b| Some(a * b))
    }
    /// 11.4.2: truncates toward zero; division by zero ⇒ x.
    pub fn div(&self, o: &Bv) -> Bv {
        // BigInt `/` truncates toward zero
        self.arith(o, |a, b| if b.is_zero() { None } else { Some(a / b) })
    }
    /// 11.4.2: the result takes the sign of the first operand; modulus by zero ⇒ x.
    pub fn rem(&self, o: &Bv) -> Bv {
        // BigInt `%` has the sign of the dividend
        self.arith(o, |a, b| if b.is_zero() { None } else { Some(a % b) })
    }
    /// True when `self / o` (or `%`) is the signed `MIN / -1` corner.
    pub fn is_min_div_minus_one(&self, o: &Bv) -> bool {
        if !self.signed || !o.signed || self.has_xz() || o.has_xz() {
            return false;
        }
        let w = self.width();
        let min = (0..w).all(|i| (self.bits[i] == B1) == (i == w - 1));
        min && o.bits.iter().all(|b| *b == B1)
    }
    /// `-a` = `0 - a`.
    pub fn neg(&self) -> Bv {
        Bv::zeros(self.width(), self.signed).sub(self)
    }
    /// `self ** exp` (11.4.3, Table 11-4).  `self` is in the context type;
    /// `exp` is self-determined (own width and signedness).
    pub fn pow(&self, exp: &Bv) -> Bv {
        let w = self.width();
        assert!(w > 0 && exp.width() > 0);
        let (Some(base), Some(e)) = (self.to_bigint(), exp.to_bigint()) else {
            return Bv::all_x(w, self.signed);
        };
        let one = BigInt::one();
        if e.sign() == Sign::Minus {
            // negative exponent
            return if base.is_zero() {
                Bv::all_x(w, self.signed)
            } else if base == one {
                Bv::from_bigint(&one, w, self.signed)
            } else if base == -&one {
                let odd = e.magnitude().bit(0);
                Bv::from_bigint(&(if odd { -one } else { one }), w, self.signed)
            } else {
                Bv::zeros(w, self.signed)
            };
        }
        // non-negative exponent: square-and-multiply on the two's complement
        // pattern modulo 2^w (a ring homomorphism, so the sign takes care of itself)
        let m = pow2(w);
        let pat = self.to_biguint().unwrap();
        let mut acc = BigUint::one() % &m;
        let ebits = e.magnitude().bits();
        for i in (0..ebits).rev() {
            acc = (&acc * &acc) % &m;
            if e.magnitude().bit(i) {
                acc = (&acc * &pat) % &m;
            }
        }
        Bv::from_biguint(&acc, w, self.signed)
    }
    fn bitwise(&self, o: &Bv, f: impl Fn(Bit, Bit) -> Bit) -> Bv {
        self.same_type(o);
        Bv::new(
            self.bits.iter().zip(o.bits.iter()).map(|(a, b)| f(*a, *b)).collect(),
            self.signed,
        )
    }
    pub fn and(&self, o: &Bv) -> Bv {
        self.bitwise(o, Bit::and)
    }
    pub fn or(&self, o: &Bv) -> Bv {
        self.bitwise(o, Bit::or)
    }
    pub fn xor(&self, o: &Bv) -> Bv {
        self.bitwise(o, Bit::xor)
    }
    pub fn xnor(&self, o: &Bv) -> Bv {
        self.bitwise(o, Bit::xnor)
    }
    pub fn not(&self) -> Bv {
        Bv::new(self.bits.iter().map(|b| b.not()).collect(), self.signed)
    }
    /// Shift amount: the right operand is always treated as unsigned
    /// (11.4.10); `None` when it has an x/z bit.
    fn shift_amount(amount: &Bv) -> Option<BigUint> {
        amount.to_biguint()
    }
    /// `a << n` and `a <<< n` (identical, 11.4.10): vacated bits are 0; an
    /// unknown amount gives all x.
    pub fn shl(&self, amount: &Bv) -> Bv {
        let w = self.width();
        let Some(n) = Bv::shift_amount(amount) else {
            return Bv::all_x(w, self.signed);
        };
        let n: usize = if n >= BigUint::from(w) { w } else { n.try_into().unwrap() };
        let mut bits = vec![B0; w];
        for i in n..w {
            bits[i] = self.bits[i - n];
        }
        Bv::new(bits, self.signed)
    }
    /// `a >> n`: vacated bits are 0.
    pub fn shr(&self, amount: &Bv) -> Bv {
        self.shr_fill(amount, B0)
    }
    /// `a >>> n`: vacated bits take the MSB when the (context) type is signed,
    /// 0 otherwise.
    pub fn ashr(&self, amount: &Bv) -> Bv {
        self.ashr_d(amount, &Dialect::default())
    }
    pub fn ashr_d(&self, amount: &Bv, d: &Dialect) -> Bv {
        let mut fill = if self.signed { self.msb() } else { B0 };
        if d.xz_sign_fill_x && fill.is_xz() {
            fill = BX;
        }
        self.shr_fill(amount, fill)
    }
    fn shr_fill(&self, amount: &Bv, fill: Bit) -> Bv {
        let w = self.width();
        let Some(n) = Bv::shift_amount(amount) else {
            return Bv::all_x(w, self.signed);
        };
        let n: usize = if n >= BigUint::from(w) { w } else { n.try_into().unwrap() };
        let mut bits = vec![fill; w];
        for i in 0..w - n {
            bits[i] = self.bits[i + n];
        }
        Bv::new(bits, self.signed)
    }
    /// `<`, as a bit (x when an operand has x/z, 11.4.4).
    pub fn lt(&self, o: &Bv) -> Bit {
        self.same_type(o);
        match (self.to_bigint(), o.to_bigint()) {
            (Some(a), Some(b)) => Bit::from_bool(a < b),
            _ => BX,
        }
    }
    pub fn le(&self, o: &Bv) -> Bit {
        o.lt(self).not()
    }
    pub fn gt(&self, o: &Bv) -> Bit {
        o.lt(self)
    }
    pub fn ge(&self, o: &Bv) -> Bit {
        self.lt(o).not()
    }
    /// `==` (11.4.5): 0 when some bit position holds two known, different
    /// bits (the relation is decided); otherwise x when any bit of either
    /// operand is x/z (ambiguous); otherwise 1.
    pub fn eq_logical(&self, o: &Bv) -> Bit {
        self.same_type(o);
        let mut ambiguous = false;
        for (a, b) in self.bits.iter().zip(o.bits.iter()) {
            match (a.known(), b.known()) {
                (Some(x), Some(y)) => {
                    if x != y {
                        return B0;
                    }
                }
                _ => ambiguous = true,
            }
        }
        if ambiguous { BX } else { B1 }
    }
    pub fn ne_logical(&self, o: &Bv) -> Bit {
        self.eq_logical(o).not()
    }
    /// True when `==` sees a decided mismatch *and* an x/z bit: tools that
    /// answer x whenever an operand has an x/z differ from the "ambiguous
    /// only" reading here.  (Not a [`Latitude`]: the LRM wording is clear;
    /// exposed for statistics.)
    pub fn eq_decided_with_xz(&self, o: &Bv) -> bool {
        self.eq_logical(o) == B0 && (self.has_xz() || o.has_xz())
    }
    /// `===` (11.4.5): x and z compare as values; never x.
    pub fn eq_case(&self, o: &Bv) -> Bit {
        self.same_type(o);
        Bit::from_bool(self.bits == o.bits)
    }
    /// `==?` (11.4.6): x/z bits of the *right* operand are wildcards; the
    /// remaining positions compare as `==`.
    pub fn eq_wild(&self, o: &Bv) -> Bit {
        self.same_type(o);
        let mut ambiguous = false;
        for (a, b) in self.bits.iter().zip(o.bits.iter()) {
            let Some(y) = b.known() else { continue };
            match a.known() {
                Some(x) => {
                    if x != y {
                        return B0;
                    }
                }
                None => ambiguous = true,
            }
        }
        if ambiguous { BX } else { B1 }
    }
    /// Reductions (11.4.9): the bitwise table folded over all bits, starting
    /// from the operator's identity (so a lone z bit still becomes x).
    pub fn red_and(&self) -> Bit {
        self.bits.iter().fold(B1, |a, b| a.and(*b))
    }
    pub fn red_or(&self) -> Bit {
        self.bits.iter().fold(B0, |a, b| a.or(*b))
    }
    pub fn red_xor(&self) -> Bit {
        self.bits.iter().fold(B0, |a, b| a.xor(*b))
    }
}

impl fmt::Display for Bv {
    /// `8'sb0000x01z`
    fn fmt(&self, f: &mut fmt::Formatter<'_>) -> fmt::Result {
        write!(
            f,
            "{}'{}b{}",
            self.width(),
            if self.signed { "s" } else { "" },
            self.to_msb_string()
        )
    }
}

// ---------------------------------------------------------------------------
// Expression-level helpers: sizing + signedness + operator
// ---------------------------------------------------------------------------

/// Result of an expression-level evaluation: the value and the latitude
/// points touched on the way.
#[derive(Clone, Debug, PartialEq, Eq)]
pub struct Eval {
    pub value: Bv,
    pub latitude: Vec<Latitude>,
}

/// Self-determined width of `op x` (Table 11-21).
pub fn unary_width(op: UnOp, x: usize) -> usize {
    if op.is_context() { x } else { 1 }
}

/// Self-determined width of `x op y` (Table 11-21).
pub fn binary_width(op: BinOp, x: usize, y: usize) -> usize {
    match op.class() {
        BinClass::Arith => x.max(y),
        BinClass::ShiftPow => x,
        BinClass::Compare | BinClass::Logical => 1,
    }
}

/// Signedness of `x op y` (11.8.1).
pub fn binary_signed(op: BinOp, x: bool, y: bool, d: &Dialect) -> bool {
    match op.class() {
        BinClass::Arith => x && y,
        BinClass::ShiftPow if op == BinOp::Pow && d.pow_sign_from_both => x && y,
        BinClass::ShiftPow => x,
        BinClass::Compare | BinClass::Logical => false,
    }
}

/// Apply a sized unary operator.  For `+ - ~` the operand must already be in
/// the context type; for the others it is the self-determined operand and
/// the result is 1 bit unsigned.
pub fn unary_sized(op: UnOp, x: &Bv, d: &Dialect) -> Bv {
    match op {
        UnOp::Plus => {
            if x.has_xz() && !d.unary_plus_passthrough {
                Bv::all_x(x.width(), x.signed())
            } else {
                x.clone()
            }
        }
        UnOp::Minus => x.neg(),
        UnOp::BitNot => x.not(),
        UnOp::RedAnd => Bv::bit1(x.red_and()),
        UnOp::RedNand => Bv::bit1(x.red_and().not()),
        UnOp::RedOr => Bv::bit1(x.red_or()),
        UnOp::RedNor => Bv::bit1(x.red_or().not()),
        UnOp::RedXor => Bv::bit1(x.red_xor()),
        UnOp::RedXnor => Bv::bit1(x.red_xor().not()),
        UnOp::LogNot => Bv::bit1(x.truth().to_bit().not()),
    }
}

/// `&&` / `||` on three-valued truths (11.4.7): `0 && x = 0`, `1 || x = 1`.
pub fn logical(op: BinOp, a: Truth, b: Truth) -> Bit {
    match op {
        BinOp::LogAnd => a.to_bit().and(b.to_bit()),
        BinOp::LogOr => a.to_bit().or(b.to_bit()),
        _ => panic!("not a logical operator"),
    }
}

/// `c ? a : b` (11.4.11) with the arms already in the context type.
pub fn cond_sized(c: &Bv, a: &Bv, b: &Bv) -> Bv {
    a.same_type(b);
    match c.truth() {
        Truth::True => a.clone(),
        Truth::False => b.clone(),
        Truth::Unknown => a.bitwise(b, Bit::merge),
    }
}

/// Size cast `N'(x)` (6.24.1): the value an `N`-bit variable holds after
/// being assigned `x` — extended by the operand's own signedness or
/// truncated; the signedness passes through.
pub fn size_cast(x: &Bv, n: usize) -> Bv {
    x.resize(n)
}

/// Evaluate an expression tree in an outer context: `ctx_width` bits
/// (`None` = self-determined) and `ctx_signed` (`None` = nothing else in the
/// context, `Some(false)` = an unsigned sibling).
pub fn eval_in_context(e: &expr::Expr, ctx_width: Option<usize>, ctx_signed: Option<bool>, d: &Dialect) -> Eval {
    let w = e.width().max(ctx_width.unwrap_or(0));
    let s = e.signed_d(d) && ctx_signed.unwrap_or(true);
    let mut n = expr::Notes::default();
    let value = e.eval_in(w, s, d, &mut n);
    Eval {
        value,
        latitude: n.latitude,
    }
}

/// `op x` for a simple operand `x`, evaluated in a context of `ctx_width`
/// bits (`None` = self-determined).  `ctx_signed`: signedness imposed by the
/// rest of the context (`None` = nothing else in the context; `Some(false)` =
/// an unsigned sibling made the whole context unsigned) — it can only ever
/// remove signedness.  The result is `max(self-determined width, ctx_width)`
/// bits wide.
pub fn unary(op: UnOp, x: &Bv, ctx_width: Option<usize>, ctx_signed: Option<bool>) -> Eval {
    unary_d(op, x, ctx_width, ctx_signed, &Dialect::default())
}
pub fn unary_d(op: UnOp, x: &Bv, ctx_width: Option<usize>, ctx_signed: Option<bool>, d: &Dialect) -> Eval {
    eval_in_context(&expr::Expr::un(op, expr::Expr::Lit(x.clone())), ctx_width, ctx_signed, d)
}

/// `x op y` for two simple operands; context as for [`unary`].
pub fn binary(op: BinOp, x: &Bv, y: &Bv, ctx_width: Option<usize>, ctx_signed: Option<bool>) -> Eval {
    binary_d(op, x, y, ctx_width, ctx_signed, &Dialect::default())
}
pub fn binary_d(
    op: BinOp,
    x: &Bv,
    y: &Bv,
    ctx_width: Option<usize>,
    ctx_signed: Option<bool>,
    d: &Dialect,
) -> Eval {
    eval_in_context(
        &expr::Expr::bin(op, expr::Expr::Lit(x.clone()), expr::Expr::Lit(y.clone())),
        ctx_width,
        ctx_signed,
        d,
    )
}

/// `c ? a : b` for simple operands; context as for [`unary`].
pub fn cond(c: &Bv, a: &Bv, b: &Bv, ctx_width: Option<usize>, ctx_signed: Option<bool>) -> Eval {
    cond_d(c, a, b, ctx_width, ctx_signed, &Dialect::default())
}
pub fn cond_d(
    c: &Bv,
    a: &Bv,
    b: &Bv,
    ctx_width: Option<usize>,
    ctx_signed: Option<bool>,
    d: &Dialect,
) -> Eval {
    eval_in_context(
        &expr::Expr::cond(
            expr::Expr::Lit(c.clone()),
            expr::Expr::Lit(a.clone()),
            expr::Expr::Lit(b.clone()),
        ),
        ctx_width,
        ctx_signed,
        d,
    )
}

#[cfg(test)]
mod tests {
    use super::*;

    fn b(s: &str) -> Bv {
        // "4'sb10xz" / "4'b0101"
        let (w, rest) = s.split_once('\'').unwrap();
        let signed = rest.starts_with('s');
        let digits = rest.trim_start_matches('s').trim_start_matches('b');
        let v = Bv::from_msb_str(digits, signed).unwrap();
        assert_eq!(v.width(), w.parse::<usize>().unwrap());
        v
    }
    fn bin(op: BinOp, x: &str, y: &str) -> String {
        binary(op, &b(x), &b(y), None, None).value.to_string()
    }

    #[test]
    fn lrm_examples() {
        // 11.4.2 Table 11-6 style examples
        assert_eq!(bin(BinOp::Div, "4'b1010", "4'b0011"), "4'b0011");
        assert_eq!(bin(BinOp::Rem, "4'sb1001", "4'sb0011"), "4'sb1111"); // -7 % 3 = -1
        assert_eq!(bin(BinOp::Rem, "4'sb0111", "4'sb1101"), "4'sb0001"); // 7 % -3 = 1
        assert_eq!(bin(BinOp::Div, "4'sb1001", "4'sb0010"), "4'sb1101"); // -7 / 2 = -3
        assert_eq!(bin(BinOp::Div, "4'b1010", "4'b0000"), "4'bxxxx");
        assert_eq!(bin(BinOp::Add, "4'b1010", "4'b0x00"), "4'bxxxx");
        // wrap-around
        assert_eq!(bin(BinOp::Add, "4'b1111", "4'b0001"), "4'b0000");
        assert_eq!(bin(BinOp::Mul, "4'sb1000", "4'sb1111"), "4'sb1000");
        // mixed sign ⇒ unsigned, zero extension
        assert_eq!(bin(BinOp::Add, "2'sb11", "4'b0000"), "4'b0011");
        assert_eq!(bin(BinOp::Add, "2'sb11", "4'sb0000"), "4'sb1111");
        // bitwise tables
        assert_eq!(bin(BinOp::And, "4'b01xz", "4'b0000"), "4'b0000");
        assert_eq!(bin(BinOp::And, "4'b01xz", "4'b1111"), "4'b01xx");
        assert_eq!(bin(BinOp::Or, "4'b01xz", "4'b1111"), "4'b1111");
        assert_eq!(bin(BinOp::Or, "4'b01xz", "4'b0000"), "4'b01xx");
        assert_eq!(bin(BinOp::Xor, "4'b01xz", "4'b1111"), "4'b10xx");
        // equality
        assert_eq!(bin(BinOp::Eq, "2'b1x", "2'b11"), "1'bx");
        assert_eq!(bin(BinOp::Eq, "2'b1x", "2'b01"), "1'b0");
        assert_eq!(bin(BinOp::Ne, "2'b1x", "2'b01"), "1'b1");
        assert_eq!(bin(BinOp::Eq, "2'b10", "2'b10"), "1'b1");
        assert_eq!(bin(BinOp::CaseEq, "2'b1x", "2'b1x"), "1'b1");
        assert_eq!(bin(BinOp::CaseEq, "2'b1x", "2'b1z"), "1'b0");
        assert_eq!(bin(BinOp::WildEq, "4'b0011", "4'b00xx"), "1'b1");
        assert_eq!(bin(BinOp::WildEq, "4'b0111", "4'b00xx"), "1'b0");
        assert_eq!(bin(BinOp::WildEq, "4'b0x11", "4'b00xx"), "1'bx");
        assert_eq!(bin(BinOp::WildEq, "4'b00xx", "4'b0011"), "1'bx");
        // relational
        assert_eq!(bin(BinOp::Lt, "4'sb1111", "4'sb0001"), "1'b1");
        assert_eq!(bin(BinOp::Lt, "4'sb1111", "4'b0001"), "1'b0");
        assert_eq!(bin(BinOp::Lt, "4'b1x11", "4'b0001"), "1'bx");
        // logical
        assert_eq!(bin(BinOp::LogAnd, "1'b0", "1'bx"), "1'b0");
        assert_eq!(bin(BinOp::LogAnd, "1'bx", "1'b0"), "1'b0");
        assert_eq!(bin(BinOp::LogAnd, "1'b1", "1'bx"), "1'bx");
        assert_eq!(bin(BinOp::LogOr, "1'b1", "1'bx"), "1'b1");
        assert_eq!(bin(BinOp::LogOr, "1'b0", "1'bz"), "1'bx");
        assert_eq!(bin(BinOp::LogAnd, "2'b1x", "2'b01"), "1'b1");
        // shifts (11.4.10 examples)
        assert_eq!(bin(BinOp::Shl, "4'b0001", "2'b10"), "4'b0100");
        assert_eq!(bin(BinOp::AShr, "4'sb1000", "2'b10"), "4'sb1110");
        assert_eq!(bin(BinOp::AShr, "4'b1000", "2'b10"), "4'b0010");
        assert_eq!(bin(BinOp::Shr, "4'sb1000", "2'b10"), "4'sb0010");
        assert_eq!(bin(BinOp::Shr, "4'b1000", "3'b100"), "4'b0000");
        assert_eq!(bin(BinOp::AShr, "4'sb1000", "3'b111"), "4'sb1111");
        assert_eq!(bin(BinOp::Shl, "4'b1000", "2'b1x"), "4'bxxxx");
        assert_eq!(bin(BinOp::Shr, "4'bz01x", "1'b1"), "4'b0z01");
        // power (Table 11-4)
        assert_eq!(bin(BinOp::Pow, "4'b0010", "4'b0011"), "4'b1000");
        assert_eq!(bin(BinOp::Pow, "4'b0010", "4'b0100"), "4'b0000");
        assert_eq!(bin(BinOp::Pow, "4'sb1110", "4'sb0011"), "4'sb1000"); // (-2)**3 = -8
        assert_eq!(bin(BinOp::Pow, "4'sb0010", "4'sb1111"), "4'sb0000"); // 2 ** -1 = 0
        assert_eq!(bin(BinOp::Pow, "4'sb0000", "4'sb1111"), "4'sbxxxx"); // 0 ** -1 = x
        assert_eq!(bin(BinOp::Pow, "4'sb1111", "4'sb1111"), "4'sb1111"); // -1 ** -1 = -1
        assert_eq!(bin(BinOp::Pow, "4'sb1111", "4'sb1110"), "4'sb0001"); // -1 ** -2 = 1
        assert_eq!(bin(BinOp::Pow, "4'sb0001", "4'sb1000"), "4'sb0001");
        assert_eq!(bin(BinOp::Pow, "4'sb0000", "4'sb0000"), "4'sb0001");
        assert_eq!(bin(BinOp::Pow, "4'sb0101", "4'sb0000"), "4'sb0001");
    }

    #[test]
    fn unary_ops() {
        let u = |op, x: &str| unary(op, &b(x), None, None).value.to_string();
        assert_eq!(u(UnOp::Minus, "4'b0001"), "4'b1111");
        assert_eq!(u(UnOp::Minus, "4'b00x1"), "4'bxxxx");
        assert_eq!(u(UnOp::Plus, "4'b00x1"), "4'bxxxx");
        assert_eq!(u(UnOp::Plus, "4'b0011"), "4'b0011");
        let pt = Dialect { unary_plus_passthrough: true, ..Default::default() };
        assert_eq!(unary_d(UnOp::Plus, &b("4'b00z1"), None, None, &pt).value.to_string(), "4'b00z1");
        assert_eq!(unary(UnOp::Plus, &b("4'b00z1"), None, None).latitude, vec![Latitude::UnaryPlusXz]);
        assert_eq!(u(UnOp::BitNot, "4'b01xz"), "4'b10xx");
        assert_eq!(u(UnOp::RedAnd, "4'b11x1"), "1'bx");
        assert_eq!(u(UnOp::RedAnd, "4'b01x1"), "1'b0");
        assert_eq!(u(UnOp::RedOr, "4'b00x1"), "1'b1");
        assert_eq!(u(UnOp::RedOr, "4'b00z0"), "1'bx");
        assert_eq!(u(UnOp::RedXor, "4'b0111"), "1'b1");
        assert_eq!(u(UnOp::RedXnor, "4'b0111"), "1'b0");
        assert_eq!(u(UnOp::RedXor, "4'b01x1"), "1'bx");
        assert_eq!(u(UnOp::RedNand, "1'bz"), "1'bx");
        assert_eq!(u(UnOp::LogNot, "4'b0x10"), "1'b0");
        assert_eq!(u(UnOp::LogNot, "4'b0x00"), "1'bx");
        assert_eq!(u(UnOp::LogNot, "4'b0000"), "1'b1");
        // context: -4'sb1000 in 8 bits
        assert_eq!(unary(UnOp::Minus, &b("4'sb1000"), Some(8), None).value.to_string(), "8'sb00001000");
        assert_eq!(unary(UnOp::BitNot, &b("4'b1000"), Some(8), None).value.to_string(), "8'b11110111");
        assert_eq!(unary(UnOp::RedOr, &b("4'b1000"), Some(4), None).value.to_string(), "4'b0001");
    }

    #[test]
    fn conditional_and_structure() {
        let c = |c: &str, a: &str, bb: &str| cond(&b(c), &b(a), &b(bb), None, None).value.to_string();
        assert_eq!(c("1'b1", "4'b0101", "4'b0110"), "4'b0101");
        assert_eq!(c("1'b0", "4'b0101", "4'b0110"), "4'b0110");
        assert_eq!(c("1'bx", "4'b0101", "4'b0110"), "4'b01xx");
        assert_eq!(c("1'bz", "4'bzz01", "4'bzz01"), "4'bxx01");
        assert_eq!(c("1'b1", "2'sb11", "4'sb0000"), "4'sb1111");
        assert_eq!(c("1'b1", "2'sb11", "4'b0000"), "4'b0011");
        assert_eq!(b("2'b1x").concat(&b("2'sbz0")).to_string(), "4'b1xz0");
        assert_eq!(b("2'sb10").replicate(3).to_string(), "6'b101010");
        assert_eq!(b("4'b1010").part_select(5, 2).to_string(), "4'bxx10");
        assert_eq!(b("4'b1010").part_assign(5, 2, &b("4'b0101")).to_string(), "4'b0110");
        assert_eq!(size_cast(&b("4'sb1010"), 8).to_string(), "8'sb11111010");
        assert_eq!(size_cast(&b("4'b1010"), 8).to_string(), "8'b00001010");
        assert_eq!(size_cast(&b("4'sb1010"), 2).to_string(), "2'sb10");
    }

    #[test]
    fn encodings() {
        let v = b("5'b01xz1");
        let (val, xz) = v.to_planes();
        assert_eq!(Bv::from_planes(&val, &xz, 5, false), v);
        let w = v.to_sv_logic_words();
        assert_eq!(w, vec![(0b01101, 0b00110)]);
        assert_eq!(Bv::from_sv_logic_words(&w, 5, false), v);
    }
}
