//! Expression trees evaluated by the two-step algorithm of IEEE 1800 11.8.2:
//! (1) self-determined size (Table 11-21) and signedness (11.8.1) bottom-up,
//! (2) the type of each context is propagated back down to its
//! context-determined operands, simple operands are converted (sign-extended
//! only when the propagated type is signed), then operators are applied.

use crate::{
    BinClass, BinOp, Bit, Bv, Dialect, Latitude, Truth, UnOp, binary_signed, binary_width, cond_sized,
    logical, unary_sized, unary_width,
};

#[derive(Clone, Debug, PartialEq, Eq, Hash)]
pub enum Expr {
    /// Sized literal / constant.
    Lit(Bv),
    /// Unbased unsized literal `'0 '1 'x 'z`: every bit of the context gets
    /// this value (5.7.1); 1 bit unsigned when self-determined.
    Fill(Bit),
    Un(UnOp, Box<Expr>),
    Bin(BinOp, Box<Expr>, Box<Expr>),
    /// `c ? a : b`
    Cond(Box<Expr>, Box<Expr>, Box<Expr>),
    /// `{a, b, …}` — first element most significant.
    Concat(Vec<Expr>),
    /// `{n{a}}`
    Repl(usize, Box<Expr>),
    /// `N'(e)`
    SizeCast(usize, Box<Expr>),
    /// `$signed(e)` (true) / `$unsigned(e)` (false)
    SignCast(bool, Box<Expr>),
    /// constant part select `e[hi:lo]` of a self-determined operand
    Select(Box<Expr>, usize, usize),
}

/// Evaluation statistics: which latitude points were touched.
#[derive(Clone, Debug, Default, PartialEq, Eq)]
pub struct Notes {
    pub latitude: Vec<Latitude>,
}

impl Notes {
    fn add(&mut self, l: Latitude) {
        if !self.latitude.contains(&l) {
            self.latitude.push(l);
        }
    }
}

/// Conversion of a simple operand to the propagated type, noting an x/z sign
/// bit that gets replicated.
fn ctx(v: &Bv, width: usize, signed: bool, d: &Dialect, n: &mut Notes) -> Bv {
    if v.xz_sign_replicated(width, signed) {
        n.add(Latitude::XzSignBit);
    }
    v.to_context_d(width, signed, d)
}

impl Expr {
    pub fn lit(v: Bv) -> Expr {
        Expr::Lit(v)
    }
    pub fn un(op: UnOp, x: Expr) -> Expr {
        Expr::Un(op, Box::new(x))
    }
    pub fn bin(op: BinOp, x: Expr, y: Expr) -> Expr {
        Expr::Bin(op, Box::new(x), Box::new(y))
    }
    pub fn cond(c: Expr, a: Expr, b: Expr) -> Expr {
        Expr::Cond(Box::new(c), Box::new(a), Box::new(b))
    }

    /// Self-determined width (Table 11-21).
    pub fn width(&self) -> usize {
        match self {
            Expr::Lit(v) => v.width(),
            Expr::Fill(_) => 1,
            Expr::Un(op, x) => unary_width(*op, x.width()),
            Expr::Bin(op, x, y) => binary_width(*op, x.width(), y.width()),
            Expr::Cond(_, a, b) => a.width().max(b.width()),
            Expr::Concat(xs) => xs.iter().map(|x| x.width()).sum(),
            Expr::Repl(n, x) => n * x.width(),
            Expr::SizeCast(n, _) => *n,
            Expr::SignCast(_, x) => x.width(),
            Expr::Select(_, hi, lo) => hi - lo + 1,
        }
    }

    /// Signedness (11.8.1), literal reading of the LRM.
    pub fn signed(&self) -> bool {
        self.signed_d(&Dialect::default())
    }
    pub fn signed_d(&self, d: &Dialect) -> bool {
        match self {
            Expr::Lit(v) => v.signed(),
            Expr::Fill(_) => d.unsized_literal_signed,
            Expr::Un(op, x) => op.is_context() && x.signed_d(d),
            Expr::Bin(op, x, y) => binary_signed(*op, x.signed_d(d), y.signed_d(d), d),
            Expr::Cond(_, a, b) => a.signed_d(d) && b.signed_d(d),
            Expr::Concat(_) | Expr::Repl(..) | Expr::Select(..) => false,
            Expr::SizeCast(_, x) => x.signed_d(d),
            Expr::SignCast(s, _) => *s,
        }
    }

    /// Self-determined evaluation, literal reading of the LRM.
    pub fn eval(&self) -> Bv {
        self.eval_noted(&Dialect::default(), &mut Notes::default())
    }
    pub fn eval_noted(&self, d: &Dialect, n: &mut Notes) -> Bv {
        self.eval_in(self.width(), self.signed_d(d), d, n)
    }

    /// The value an `lhs_width`-bit variable holds after `lhs = self`
    /// (10.7 / 11.8.2: the right-hand side is evaluated in a context of
    /// `max(L(lhs), L(rhs))` bits with its own signedness, then truncated).
    pub fn eval_assign(&self, lhs_width: usize, d: &Dialect, n: &mut Notes) -> Bv {
        let w = self.width().max(lhs_width);
        self.eval_in(w, self.signed_d(d), d, n).truncate(lhs_width)
    }

    /// Every value `lhs = self` may produce over all [`Dialect`]s, plus the
    /// latitude points touched.  `None` when the result is unconstrained
    /// (signed `MIN / -1`).
    pub fn eval_assign_all(&self, lhs_width: usize) -> (Option<Vec<Bv>>, Notes) {
        let mut n = Notes::default();
        let first = self.eval_assign(lhs_width, &Dialect::default(), &mut n);
        if n.latitude.contains(&Latitude::SignedMinDivMinusOne) {
            return (None, n);
        }
        let mut out = vec![first];
        if !n.latitude.is_empty() {
            for d in Dialect::all() {
                let mut n2 = Notes::default();
                let v = self.eval_assign(lhs_width, &d, &mut n2);
                if n2.latitude.contains(&Latitude::SignedMinDivMinusOne) {
                    return (None, n2);
                }
                for l in n2.latitude {
                    n.add(l);
                }
                if !out.contains(&v) {
                    out.push(v);
                }
            }
        }
        (Some(out), n)
    }

    /// Context-determined evaluation: `width` ≥ `self.width()` and `signed`
    /// are the propagated type.  The result has exactly that type.
    pub fn eval_in(&self, width: usize, signed: bool, d: &Dialect, n: &mut Notes) -> Bv {
        assert!(width >= self.width(), "context narrower than the expression");
        match self {
            Expr::Lit(v) => ctx(v, width, signed, d, n),
            Expr::Fill(b) => {
                n.add(Latitude::UnsizedLiteralSign);
                Bv::filled(*b, width, signed)
            }
            Expr::Un(op, x) => {
                if op.is_context() {
                    let v = x.eval_in(width, signed, d, n);
                    if *op == UnOp::Plus && v.has_xz() {
                        n.add(Latitude::UnaryPlusXz);
                    }
                    unary_sized(*op, &v, d)
                } else {
                    unary_sized(*op, &x.eval_noted(d, n), d).to_context(width, signed)
                }
            }
            Expr::Bin(op, x, y) => match op.class() {
                BinClass::Arith => {
                    let a = x.eval_in(width, signed, d, n);
                    let b = y.eval_in(width, signed, d, n);
                    match op {
                        BinOp::Add => a.add(&b),
                        BinOp::Sub => a.sub(&b),
                        BinOp::Mul => a.mul(&b),
                        BinOp::Div | BinOp::Rem => {
                            if a.is_min_div_minus_one(&b) {
                                n.add(Latitude::SignedMinDivMinusOne);
                            }
                            if *op == BinOp::Div { a.div(&b) } else { a.rem(&b) }
                        }
                        BinOp::And => a.and(&b),
                        BinOp::Or => a.or(&b),
                        BinOp::Xor => a.xor(&b),
                        BinOp::Xnor => a.xnor(&b),
                        _ => unreachable!(),
                    }
                }
                BinClass::ShiftPow => {
                    let a = x.eval_in(width, signed, d, n);
                    let b = y.eval_noted(d, n);
                    match op {
                        BinOp::Shl | BinOp::AShl => a.shl(&b),
                        BinOp::Shr => a.shr(&b),
                        BinOp::AShr => {
                            if signed && a.msb().is_xz() && b.to_biguint().is_some_and(|k| k.bits() > 0) {
                                n.add(Latitude::XzSignBit);
                            }
                            a.ashr_d(&b, d)
                        }
                        BinOp::Pow => {
                            if x.signed_d(&Dialect::default()) != b.signed() {
                                n.add(Latitude::PowMixedSign);
                            }
                            a.pow(&b)
                        }
                        _ => unreachable!(),
                    }
                }
                BinClass::Compare => {
                    let w = x.width().max(y.width());
                    let s = x.signed_d(d) && y.signed_d(d);
                    let a = x.eval_in(w, s, d, n);
                    let b = y.eval_in(w, s, d, n);
                    let bit = match op {
                        BinOp::Lt => a.lt(&b),
                        BinOp::Le => a.le(&b),
                        BinOp::Gt => a.gt(&b),
                        BinOp::Ge => a.ge(&b),
                        BinOp::Eq => a.eq_logical(&b),
                        BinOp::Ne => a.ne_logical(&b),
                        BinOp::CaseEq => a.eq_case(&b),
                        BinOp::CaseNe => a.eq_case(&b).not(),
                        BinOp::WildEq => a.eq_wild(&b),
                        BinOp::WildNe => a.eq_wild(&b).not(),
                        _ => unreachable!(),
                    };
                    Bv::bit1(bit).to_context(width, signed)
                }
                BinClass::Logical => {
                    let a = x.eval_noted(d, n).truth();
                    let b = y.eval_noted(d, n).truth();
                    Bv::bit1(logical(*op, a, b)).to_context(width, signed)
                }
            },
            Expr::Cond(c, a, b) => {
                let cv = c.eval_noted(d, n);
                let av = a.eval_in(width, signed, d, n);
                let bv = b.eval_in(width, signed, d, n);
                cond_sized(&cv, &av, &bv)
            }
            Expr::Concat(xs) => {
                let parts: Vec<Bv> = xs.iter().map(|x| x.eval_noted(d, n)).collect();
                Bv::concat_all(&parts).to_context(width, signed)
            }
            Expr::Repl(k, x) => x.eval_noted(d, n).replicate(*k).to_context(width, signed),
            Expr::SizeCast(k, x) => {
                let v = x.eval_assign(*k, d, n);
                ctx(&v, width, signed, d, n)
            }
            Expr::SignCast(s, x) => {
                let v = x.eval_noted(d, n).with_signed(*s);
                ctx(&v, width, signed, d, n)
            }
            Expr::Select(x, hi, lo) => x.eval_noted(d, n).part_select(*hi, *lo).to_context(width, signed),
        }
    }

    /// True when the condition of some `?:` evaluates to unknown, i.e. the
    /// merge rule of Table 11-20 applies somewhere (statistics).
    pub fn has_unknown_condition(&self) -> bool {
        match self {
            Expr::Cond(c, a, b) => {
                c.eval().truth() == Truth::Unknown || c.has_unknown_condition() || a.has_unknown_condition() || b.has_unknown_condition()
            }
            Expr::Lit(_) | Expr::Fill(_) => false,
            Expr::Un(_, x) | Expr::Repl(_, x) | Expr::SizeCast(_, x) | Expr::SignCast(_, x) | Expr::Select(x, _, _) => {
                x.has_unknown_condition()
            }
            Expr::Bin(_, x, y) => x.has_unknown_condition() || y.has_unknown_condition(),
            Expr::Concat(xs) => xs.iter().any(|x| x.has_unknown_condition()),
        }
    }

    /// SystemVerilog text (fully parenthesised).
    pub fn to_sv(&self) -> String {
        match self {
            Expr::Lit(v) => v.to_string(),
            Expr::Fill(b) => format!("'{}", b.to_char()),
            Expr::Un(op, x) => format!("({}{})", op.sv(), x.to_sv()),
            Expr::Bin(op, x, y) => format!("({} {} {})", x.to_sv(), op.sv(), y.to_sv()),
            Expr::Cond(c, a, b) => format!("({} ? {} : {})", c.to_sv(), a.to_sv(), b.to_sv()),
            Expr::Concat(xs) => format!("{{{}}}", xs.iter().map(|x| x.to_sv()).collect::<Vec<_>>().join(", ")),
            Expr::Repl(k, x) => format!("{{{k}{{{}}}}}", x.to_sv()),
            Expr::SizeCast(k, x) => format!("{k}'({})", x.to_sv()),
            Expr::SignCast(s, x) => format!("{}({})", if *s { "$signed" } else { "$unsigned" }, x.to_sv()),
            Expr::Select(x, hi, lo) => format!("{}[{hi}:{lo}]", x.to_sv()),
        }
    }
}

#[cfg(test)]
mod tests {
    use super::*;

    fn l(s: &str) -> Expr {
        let (_, rest) = s.split_once('\'').unwrap();
        let signed = rest.starts_with('s');
        let digits = rest.trim_start_matches('s').trim_start_matches('b');
        Expr::Lit(Bv::from_msb_str(digits, signed).unwrap())
    }

    #[test]
    fn context_propagation() {
        // LRM 11.6.2 example: (a + b) >> 1 assigned to a 16-bit sum keeps the carry
        // only when evaluated at 17+ bits; at 16 bits the carry is lost.
        let a = l("4'b1111");
        let b = l("4'b0001");
        let sum = Expr::bin(BinOp::Add, a.clone(), b.clone());
        let e = Expr::bin(BinOp::Shr, sum.clone(), l("1'b1"));
        assert_eq!(e.eval().to_string(), "4'b0000");
        assert_eq!(e.eval_assign(8, &Dialect::default(), &mut Notes::default()).to_string(), "8'b00001000");
        // an unsigned sibling makes the whole context unsigned: >>> becomes logical
        let sh = Expr::bin(BinOp::AShr, l("4'sb1000"), l("1'b1"));
        assert_eq!(sh.eval().to_string(), "4'sb1100");
        let mixed = Expr::bin(BinOp::Add, sh.clone(), l("4'b0000"));
        assert_eq!(mixed.eval().to_string(), "4'b0100");
        // comparison operands size each other, result zero-extends
        let cmp = Expr::bin(BinOp::Eq, Expr::bin(BinOp::Sub, l("2'b00"), l("2'b01")), l("3'b111"));
        assert_eq!(cmp.eval().to_string(), "1'b1");
        // reduction operand is self-determined
        let red = Expr::un(UnOp::RedAnd, Expr::bin(BinOp::Or, l("4'b1111"), Expr::un(UnOp::BitNot, l("4'b1111"))));
        assert_eq!(red.eval_assign(32, &Dialect::default(), &mut Notes::default()).to_biguint().unwrap(), 1u32.into());
        // fill literal takes the context width
        let f = Expr::bin(BinOp::Add, Expr::Fill(Bit::One), l("4'b0001"));
        assert_eq!(f.eval().to_string(), "4'b0000");
        assert_eq!(f.eval_assign(8, &Dialect::default(), &mut Notes::default()).to_string(), "8'b00000000");
        // conditional with unknown condition merges
        let c = Expr::cond(l("1'bx"), l("4'b0101"), l("4'b0110"));
        assert_eq!(c.eval().to_string(), "4'b01xx");
        assert!(c.has_unknown_condition());
        // size cast is a context boundary
        let sc = Expr::SizeCast(8, Box::new(Expr::bin(BinOp::Add, l("4'b1111"), l("4'b0001"))));
        assert_eq!(sc.eval().to_string(), "8'b00010000");
        assert_eq!(Expr::SignCast(true, Box::new(l("4'b1000"))).eval_assign(8, &Dialect::default(), &mut Notes::default()).to_string(), "8'sb11111000");
    }
}
