//! Developer tool: `vsvtool parse FILE…` / `vsvtool elab TOP FILE…` / `vsvtool tops FILE…`
use std::collections::BTreeMap;

fn main() {
    let args: Vec<String> = std::env::args().skip(1).collect();
    match args.first().map(|s| s.as_str()) {
        Some("parse") => {
            let mut ok = 0;
            let mut hist: BTreeMap<String, u32> = BTreeMap::new();
            for f in &args[1..] {
                let text = std::fs::read_to_string(f).unwrap();
                match vsv::parse::parse(&text) {
                    Ok(_) => ok += 1,
                    Err(e) => {
                        println!("{f}: {e}");
                        *hist.entry(e.class()).or_default() += 1;
                    }
                }
            }
            println!("parsed {ok} of {}", args.len() - 1);
            for (k, v) in hist {
                println!("  {v:3} {k}");
            }
        }
        Some("elab") => {
            let top = &args[1];
            let texts: Vec<String> = args[2..].iter().map(|f| std::fs::read_to_string(f).unwrap()).collect();
            let refs: Vec<&str> = texts.iter().map(|s| s.as_str()).collect();
            match vsv::Sim::from_sv(&refs, top) {
                Ok(mut s) => {
                    println!("ok: {} signals, {} processes ({} ff)", s.n_signals(), s.n_procs(), s.n_ff_procs());
                    for n in s.notes() {
                        println!("note: {n}");
                    }
                    match s.settle() {
                        Ok(()) => {
                            for (n, v) in s.dump() {
                                println!("  {n} = {v}");
                            }
                        }
                        Err(e) => println!("settle: {e}"),
                    }
                }
                Err(e) => println!("{e}"),
            }
        }
        Some("elab-all") => {
            // every module of every file as a top, with all files as the library
            let texts: Vec<String> = args[1..].iter().map(|f| std::fs::read_to_string(f).unwrap()).collect();
            let mut parsed = vec![];
            for (f, t) in args[1..].iter().zip(&texts) {
                match vsv::parse::parse(t) {
                    Ok(p) => parsed.push(p),
                    Err(e) => println!("{f}: {e}"),
                }
            }
            let mut ok = 0;
            let mut total = 0;
            let mut hist: BTreeMap<String, u32> = BTreeMap::new();
            let tops: Vec<String> = parsed
                .iter()
                .flat_map(|p| p.units.iter())
                .filter(|u| u.kind == vsv::ast::UnitKind::Module)
                .map(|u| u.name.clone())
                .collect();
            for top in tops {
                total += 1;
                match vsv::Sim::from_parsed(&parsed, &top).and_then(|mut s| s.settle().map(|_| s)) {
                    Ok(_) => ok += 1,
                    Err(e) => {
                        println!("{top}: {e}");
                        *hist.entry(e.class()).or_default() += 1;
                    }
                }
            }
            println!("elaborated+settled {ok} of {total} modules");
            for (k, v) in hist {
                println!("  {v:3} {k}");
            }
        }
        _ => eprintln!("usage: vsvtool parse FILE… | elab TOP FILE… | elab-all FILE…"),
    }
}
