//! `vsv` — a small IEEE 1800-2017 simulator for the SystemVerilog subset that
//! veryl's emitter produces: lexer, recursive-descent parser, elaborator
//! (parameters, generate, hierarchy, interfaces) and an event-driven
//! simulator with 4-state values (`vbv`), context-determined expression
//! widths (11.6–11.8), blocking / non-blocking assignment with an NBA region,
//! `always_comb` / `assign` fix-point settling and `always_ff` edge detection.
//!
//! Whatever it does not model is reported as [`Unsupported`] — never guessed.

pub mod ast;
pub mod elab;
mod elab_expr;
mod elab_stmt;
pub mod exec;
pub mod ir;
pub mod lex;
pub mod parse;
pub mod sim;

pub use sim::{Pins, Sim};
pub use vbv::{Bit, Bv};

#[derive(Clone, Debug, PartialEq, Eq)]
pub struct Unsupported {
    pub reason: String,
}

impl Unsupported {
    pub fn new(reason: impl Into<String>) -> Unsupported {
        Unsupported { reason: reason.into() }
    }
    /// Reason with numbers and quoted names removed: a class for histograms.
    pub fn class(&self) -> String {
        let mut out = String::new();
        let mut in_quote = false;
        for c in self.reason.chars() {
            if c == '"' {
                in_quote = !in_quote;
                continue;
            }
            if in_quote || c.is_ascii_digit() {
                continue;
            }
            out.push(c);
        }
        out.split_whitespace().take(8).collect::<Vec<_>>().join(" ")
    }
}

impl std::fmt::Display for Unsupported {
    fn fmt(&self, f: &mut std::fmt::Formatter<'_>) -> std::fmt::Result {
        write!(f, "unsupported: {}", self.reason)
    }
}
