//! Recursive-descent parser for the SystemVerilog subset veryl's emitter
//! produces (IEEE 1800-2017 Annex A names in the comments).  Anything it does
//! not understand is a clean `Unsupported`, never a guess.

use crate::ast::*;
use crate::lex::{Tk, Token, lex};
use crate::Unsupported;
use std::collections::BTreeSet;
use std::rc::Rc;
use vbv::{Bit, Bv};

type R<T> = Result<T, Unsupported>;

const KEYWORDS: &[&str] = &[
    "alias", "always", "always_comb", "always_ff", "always_latch", "assert", "assign", "assume", "automatic", "begin",
    "bind", "bit", "break", "byte", "case", "casex", "casez", "chandle", "class", "const", "continue", "cover",
    "default", "defparam", "disable", "do", "else", "end", "endcase", "endfunction", "endgenerate", "endinterface",
    "endmodule", "endpackage", "endtask", "enum", "event", "export", "final", "for", "foreach", "forever", "fork",
    "function", "generate", "genvar", "if", "import", "initial", "inout", "input", "inside", "int", "integer",
    "interface", "localparam", "logic", "longint", "modport", "module", "negedge", "output", "package", "packed",
    "parameter", "posedge", "priority", "real", "realtime", "ref", "reg", "repeat", "return", "shortint", "shortreal",
    "signed", "static", "string", "struct", "task", "time", "tri", "type", "typedef", "union", "unique", "unique0",
    "unsigned", "var", "void", "wait", "while", "wire", "let", "edge", "or", "and", "not", "supply0", "supply1",
];

/// Conditional compilation (22.6): keep the tokens of the branches selected by
/// `defines`.  Any other directive (macro use, `` `define ``, `` `include ``)
/// is unsupported.
pub fn preprocess(toks: Vec<Token>, defines: &BTreeSet<String>) -> R<Vec<Token>> {
    // stack of (currently active, some branch already taken, parent active)
    let mut stack: Vec<(bool, bool, bool)> = vec![];
    let mut out = vec![];
    for t in toks {
        if t.is_comment() {
            continue;
        }
        let active = stack.last().map(|s| s.0).unwrap_or(true);
        if t.kind == Tk::Directive {
            let mut w = t.text.split_whitespace();
            let name = w.next().unwrap_or("");
            let arg = w.next();
            match name {
                "`ifdef" | "`ifndef" => {
                    let Some(a) = arg else {
                        return Err(Unsupported::new(format!("directive without argument at line {}", t.line)));
                    };
                    let mut c = defines.contains(a);
                    if name == "`ifndef" {
                        c = !c;
                    }
                    stack.push((active && c, c, active));
                }
                "`elsif" => {
                    let Some(a) = arg else {
                        return Err(Unsupported::new(format!("directive without argument at line {}", t.line)));
                    };
                    let Some(s) = stack.last_mut() else {
                        return Err(Unsupported::new(format!("`elsif without `ifdef at line {}", t.line)));
                    };
                    let c = defines.contains(a) && !s.1;
                    s.0 = s.2 && c;
                    s.1 |= c;
                }
                "`else" => {
                    let Some(s) = stack.last_mut() else {
                        return Err(Unsupported::new(format!("`else without `ifdef at line {}", t.line)));
                    };
                    s.0 = s.2 && !s.1;
                    s.1 = true;
                }
                "`endif" => {
                    if stack.pop().is_none() {
                        return Err(Unsupported::new(format!("`endif without `ifdef at line {}", t.line)));
                    }
                }
                "`timescale" | "`default_nettype" | "`resetall" | "`celldefine" | "`endcelldefine" => {}
                _ => {
                    if active {
                        return Err(Unsupported::new(format!("directive {} at line {}", t.text, t.line)));
                    }
                }
            }
            continue;
        }
        if active {
            out.push(t);
        }
    }
    if !stack.is_empty() {
        return Err(Unsupported::new("unterminated `ifdef"));
    }
    // attribute instances `(* name [= value], … *)` carry no simulation semantics (5.12)
    let mut res = Vec::with_capacity(out.len());
    let mut i = 0;
    while i < out.len() {
        if out[i].text == "(" && out[i].kind == Tk::Op && i + 2 < out.len() && out[i + 1].text == "*" && out[i + 2].kind == Tk::Ident {
            let mut j = i + 2;
            loop {
                if j + 1 >= out.len() {
                    return Err(Unsupported::new("unterminated attribute instance"));
                }
                if out[j].text == "*" && out[j + 1].text == ")" && out[j].kind == Tk::Op {
                    break;
                }
                j += 1;
            }
            i = j + 2;
            continue;
        }
        res.push(out[i].clone());
        i += 1;
    }
    Ok(res)
}

pub fn parse(src: &str) -> R<SourceText> {
    parse_with(src, &BTreeSet::new())
}

pub fn parse_with(src: &str, defines: &BTreeSet<String>) -> R<SourceText> {
    let toks = preprocess(lex(src)?, defines)?;
    let mut p = Parser { t: toks, i: 0 };
    p.source_text()
}

/// Decode an integer literal (5.7.1).
pub fn decode_number(text: &str) -> R<Bv> {
    let bad = || Unsupported::new(format!("malformed number {text:?}"));
    let clean: String = text.chars().filter(|c| *c != '_' && !c.is_whitespace()).collect();
    let Some(q) = clean.find('\'') else {
        // unsized decimal: at least 32 bits, signed
        let v: num_bigint::BigUint = clean.parse().map_err(|_| bad())?;
        let w = (v.bits() as usize + 1).max(32);
        return Ok(Bv::from_biguint(&v, w, true));
    };
    let size_txt = &clean[..q];
    let mut rest = &clean[q + 1..];
    let mut signed = false;
    if rest.starts_with(['s', 'S']) {
        signed = true;
        rest = &rest[1..];
    }
    let base = rest.chars().next().ok_or_else(bad)?.to_ascii_lowercase();
    let digits = &rest[1..];
    if digits.is_empty() {
        return Err(bad());
    }
    let size: Option<usize> = if size_txt.is_empty() {
        None
    } else {
        let s: usize = size_txt.parse().map_err(|_| bad())?;
        if s == 0 {
            return Err(bad());
        }
        Some(s)
    };
    // bits MSB first
    let mut bits: Vec<Bit> = vec![];
    match base {
        'b' | 'o' | 'h' => {
            let per = match base {
                'b' => 1,
                'o' => 3,
                _ => 4,
            };
            for c in digits.chars() {
                match c.to_ascii_lowercase() {
                    'x' => bits.extend(std::iter::repeat_n(Bit::X, per)),
                    'z' | '?' => bits.extend(std::iter::repeat_n(Bit::Z, per)),
                    c => {
                        let v = c.to_digit(16).ok_or_else(bad)?;
                        if v >= (1 << per) {
                            return Err(bad());
                        }
                        for k in (0..per).rev() {
                            bits.push(Bit::from_bool((v >> k) & 1 == 1));
                        }
                    }
                }
            }
        }
        'd' => {
            let lower = digits.to_ascii_lowercase();
            if lower == "x" || lower == "z" || lower == "?" {
                bits.push(if lower == "x" { Bit::X } else { Bit::Z });
            } else {
                let v: num_bigint::BigUint = digits.parse().map_err(|_| bad())?;
                let n = (v.bits() as usize).max(1);
                let tmp = Bv::from_biguint(&v, n, false);
                bits = tmp.bits().iter().rev().cloned().collect();
            }
        }
        _ => return Err(bad()),
    }
    // strip redundant leading zeros only when unsized; resize per 5.7.1:
    // pad on the left with 0, or with x/z when the leftmost digit is x/z; truncate from the left
    let width = size.unwrap_or_else(|| bits.len().max(32));
    let msb = bits[0];
    let pad = if msb.is_xz() { msb } else { Bit::Zero };
    let mut lsb_first: Vec<Bit> = bits.into_iter().rev().collect();
    if lsb_first.len() > width {
        lsb_first.truncate(width);
    } else {
        lsb_first.resize(width, pad);
    }
    Ok(Bv::new(lsb_first, signed))
}

struct Parser {
    t: Vec<Token>,
    i: usize,
}

impl Parser {
    // ----- token helpers -------------------------------------------------

    fn peek(&self) -> Option<&Token> {
        self.t.get(self.i)
    }
    fn peek_n(&self, n: usize) -> Option<&Token> {
        self.t.get(self.i + n)
    }
    fn text_n(&self, n: usize) -> &str {
        self.t.get(self.i + n).map(|t| t.text.as_str()).unwrap_or("")
    }
    fn text(&self) -> &str {
        self.text_n(0)
    }
    fn line(&self) -> u32 {
        self.peek().or(self.t.last()).map(|t| t.line).unwrap_or(0)
    }
    fn unsup<T>(&self, what: &str) -> R<T> {
        Err(Unsupported::new(format!("parse: {what} at line {} near {:?}", self.line(), self.text())))
    }
    fn is(&self, s: &str) -> bool {
        self.peek().is_some_and(|t| t.text == s && t.kind != Tk::Str)
    }
    fn is_n(&self, n: usize, s: &str) -> bool {
        self.peek_n(n).is_some_and(|t| t.text == s && t.kind != Tk::Str)
    }
    fn eat(&mut self, s: &str) -> bool {
        if self.is(s) {
            self.i += 1;
            true
        } else {
            false
        }
    }
    fn expect(&mut self, s: &str) -> R<()> {
        if self.eat(s) { Ok(()) } else { self.unsup(&format!("expected {s:?}")) }
    }
    fn is_ident(&self) -> bool {
        self.is_ident_n(0)
    }
    fn is_ident_n(&self, n: usize) -> bool {
        self.peek_n(n).is_some_and(|t| t.kind == Tk::Ident && !KEYWORDS.contains(&t.text.as_str()))
    }
    fn ident(&mut self) -> R<String> {
        if self.is_ident() {
            let s = self.t[self.i].text.clone();
            self.i += 1;
            Ok(s)
        } else {
            self.unsup("expected identifier")
        }
    }
    fn opt_end_label(&mut self) -> R<()> {
        if self.eat(":") {
            self.ident()?;
        }
        Ok(())
    }

    // ----- A.1 source text -------------------------------------------------

    fn source_text(&mut self) -> R<SourceText> {
        let mut st = SourceText::default();
        while self.peek().is_some() {
            match self.text() {
                "module" | "interface" | "package" => st.units.push(Rc::new(self.unit()?)),
                ";" => {
                    self.i += 1;
                }
                "bind" => return self.unsup("bind directive"),
                _ => {
                    let it = self.item(UnitKind::Package)?;
                    st.unit_items.extend(it);
                }
            }
        }
        Ok(st)
    }

    fn unit(&mut self) -> R<Unit> {
        let line = self.line();
        let (kind, end) = match self.text() {
            "module" => (UnitKind::Module, "endmodule"),
            "interface" => (UnitKind::Interface, "endinterface"),
            _ => (UnitKind::Package, "endpackage"),
        };
        self.i += 1;
        if self.eat("automatic") || self.eat("static") {}
        let name = self.ident()?;
        let mut u = Unit {
            kind,
            name,
            header_imports: vec![],
            params: vec![],
            ports: vec![],
            items: vec![],
            line,
        };
        if kind != UnitKind::Package {
            while self.is("import") {
                for (p, n) in self.import_decl()? {
                    u.header_imports.push((p, n));
                }
            }
            if self.eat("#") {
                self.expect("(")?;
                u.params = self.param_port_list()?;
                self.expect(")")?;
            }
            if self.eat("(") {
                u.ports = self.port_list()?;
                self.expect(")")?;
            }
        }
        self.expect(";")?;
        while !self.is(end) {
            if self.peek().is_none() {
                return self.unsup(&format!("missing {end}"));
            }
            let it = self.item(kind)?;
            u.items.extend(it);
        }
        self.i += 1;
        self.opt_end_label()?;
        Ok(u)
    }

    fn import_decl(&mut self) -> R<Vec<(String, Option<String>)>> {
        self.expect("import")?;
        let mut v = vec![];
        loop {
            let pkg = self.ident()?;
            self.expect("::")?;
            if self.eat("*") {
                v.push((pkg, None));
            } else {
                v.push((pkg, Some(self.ident()?)));
            }
            if !self.eat(",") {
                break;
            }
        }
        self.expect(";")?;
        Ok(v)
    }

    fn param_port_list(&mut self) -> R<Vec<ParamDecl>> {
        let mut v = vec![];
        let mut local = false;
        if self.is(")") {
            return Ok(v);
        }
        loop {
            if self.eat("parameter") {
                local = false;
            } else if self.eat("localparam") {
                local = true;
            }
            v.push(self.param_assignment(local)?);
            if !self.eat(",") {
                break;
            }
        }
        Ok(v)
    }

    /// `[type | data_type] name [udims] [= value]` after the keyword
    fn param_assignment(&mut self, local: bool) -> R<ParamDecl> {
        let line = self.line();
        if self.eat("type") {
            let name = self.ident()?;
            let mut tv = None;
            if self.eat("=") {
                tv = Some(self.data_type()?);
            }
            return Ok(ParamDecl {
                local,
                is_type: true,
                ty: None,
                name,
                udims: vec![],
                value: None,
                type_value: tv,
                line,
            });
        }
        let ty = self.opt_data_type_before_name()?;
        let name = self.ident()?;
        let udims = self.udims()?;
        let mut value = None;
        if self.eat("=") {
            value = Some(self.expr()?);
        }
        Ok(ParamDecl {
            local,
            is_type: false,
            ty,
            name,
            udims,
            value,
            type_value: None,
            line,
        })
    }

    /// A data type if the upcoming tokens are `type name`, nothing if they are
    /// just `name`.
    fn opt_data_type_before_name(&mut self) -> R<Option<DataType>> {
        if self.is_ident() {
            // `T name` / `pkg::T name` / `T [3:0] name` versus `name =`, `name [n] =`, `name ,`
            let mut n = 1;
            while self.is_n(n, "::") && self.is_ident_n(n + 1) {
                n += 2;
            }
            // skip packed dimensions
            let mut m = n;
            while self.is_n(m, "[") {
                let mut depth = 0;
                loop {
                    if self.is_n(m, "[") {
                        depth += 1;
                    } else if self.is_n(m, "]") {
                        depth -= 1;
                    } else if self.peek_n(m).is_none() {
                        return self.unsup("unbalanced brackets");
                    }
                    m += 1;
                    if depth == 0 {
                        break;
                    }
                }
            }
            if self.is_ident_n(m) {
                return Ok(Some(self.data_type()?));
            }
            return Ok(None);
        }
        if self.starts_data_type() {
            return Ok(Some(self.data_type()?));
        }
        Ok(None)
    }

    fn starts_data_type(&self) -> bool {
        matches!(
            self.text(),
            "logic"
                | "bit"
                | "reg"
                | "byte"
                | "shortint"
                | "int"
                | "longint"
                | "integer"
                | "time"
                | "struct"
                | "union"
                | "enum"
                | "signed"
                | "unsigned"
                | "string"
                | "real"
                | "shortreal"
                | "realtime"
                | "chandle"
                | "event"
                | "void"
                | "type"
                | "["
        ) && self.peek().is_some_and(|t| t.kind != Tk::Str)
    }

    fn packed_dims(&mut self) -> R<Vec<(Expr, Expr)>> {
        let mut v = vec![];
        while self.is("[") {
            self.i += 1;
            let l = self.expr()?;
            self.expect(":")?;
            let r = self.expr()?;
            self.expect("]")?;
            v.push((l, r));
        }
        Ok(v)
    }

    fn udims(&mut self) -> R<Vec<UDim>> {
        let mut v = vec![];
        while self.is("[") {
            self.i += 1;
            if self.is("]") || self.is("$") || self.is("*") {
                return self.unsup("dynamic / queue / associative array");
            }
            let l = self.expr()?;
            if self.eat(":") {
                let r = self.expr()?;
                v.push(UDim::Range(l, r));
            } else {
                v.push(UDim::Size(l));
            }
            self.expect("]")?;
        }
        Ok(v)
    }

    fn signing(&mut self) -> Option<bool> {
        if self.eat("signed") {
            Some(true)
        } else if self.eat("unsigned") {
            Some(false)
        } else {
            None
        }
    }

    /// A.2.2.1 data_type (and implicit_data_type)
    fn data_type(&mut self) -> R<DataType> {
        let kw = self.text().to_string();
        match kw.as_str() {
            "logic" | "bit" | "reg" => {
                self.i += 1;
                let kind = match kw.as_str() {
                    "logic" => VecKind::Logic,
                    "bit" => VecKind::Bit,
                    _ => VecKind::Reg,
                };
                let signed = self.signing().unwrap_or(false);
                let dims = self.packed_dims()?;
                Ok(DataType::Vector { kind, signed, dims })
            }
            "byte" | "shortint" | "int" | "longint" | "integer" | "time" => {
                self.i += 1;
                let kind = match kw.as_str() {
                    "byte" => AtomKind::Byte,
                    "shortint" => AtomKind::Shortint,
                    "int" => AtomKind::Int,
                    "longint" => AtomKind::Longint,
                    "integer" => AtomKind::Integer,
                    _ => AtomKind::Time,
                };
                let signed = self.signing();
                if self.is("[") && !self.is_ident_n(0) {
                    // `int [3:0] x` is not legal; an unpacked dimension follows a name only
                    return self.unsup("packed dimension on an integer atom type");
                }
                Ok(DataType::Atom { kind, signed })
            }
            "string" | "real" | "shortreal" | "realtime" | "chandle" | "event" | "void" => {
                self.i += 1;
                Ok(DataType::Other(kw))
            }
            "signed" | "unsigned" | "[" => {
                let signed = self.signing().unwrap_or(false);
                let dims = self.packed_dims()?;
                Ok(DataType::Implicit { signed, dims })
            }
            "struct" | "union" => {
                self.i += 1;
                let union = kw == "union";
                if self.eat("tagged") {
                    return self.unsup("tagged union");
                }
                let packed = self.eat("packed");
                let signed = self.signing().unwrap_or(false);
                self.expect("{")?;
                let mut members = vec![];
                while !self.is("}") {
                    let ty = self.data_type()?;
                    loop {
                        let name = self.ident()?;
                        if self.is("[") {
                            return self.unsup("unpacked dimension on a struct member");
                        }
                        if self.is("=") {
                            return self.unsup("struct member default");
                        }
                        members.push((ty.clone(), name));
                        if !self.eat(",") {
                            break;
                        }
                    }
                    self.expect(";")?;
                }
                self.expect("}")?;
                let dims = self.packed_dims()?;
                Ok(DataType::Struct {
                    union,
                    packed,
                    signed,
                    members,
                    dims,
                })
            }
            "enum" => {
                self.i += 1;
                let base = if self.is("{") { None } else { Some(Box::new(self.data_type()?)) };
                self.expect("{")?;
                let mut variants = vec![];
                loop {
                    let name = self.ident()?;
                    if self.is("[") {
                        return self.unsup("enum name range");
                    }
                    let mut v = None;
                    if self.eat("=") {
                        v = Some(self.expr()?);
                    }
                    variants.push((name, v));
                    if !self.eat(",") {
                        break;
                    }
                }
                self.expect("}")?;
                let dims = self.packed_dims()?;
                Ok(DataType::Enum { base, variants, dims })
            }
            "type" => {
                self.i += 1;
                self.expect("(")?;
                let e = if self.starts_data_type() { Expr::Type(Box::new(self.data_type()?)) } else { self.expr()? };
                self.expect(")")?;
                Ok(DataType::TypeOf(Box::new(e)))
            }
            _ => {
                if !self.is_ident() {
                    return self.unsup("expected data type");
                }
                let path = self.path()?;
                if self.is(".") {
                    return self.unsup("interface-scoped type");
                }
                if self.is("#") {
                    return self.unsup("parameterised class type");
                }
                let dims = self.packed_dims()?;
                Ok(DataType::Named { path, dims })
            }
        }
    }

    fn path(&mut self) -> R<Path> {
        let mut scope = vec![];
        let mut name = if self.is("$") && self.is_n(1, "unit") {
            self.i += 2;
            "$unit".to_string()
        } else {
            self.ident()?
        };
        while self.is("::") {
            self.i += 1;
            scope.push(name);
            name = self.ident()?;
        }
        Ok(Path { scope, name })
    }

    // ----- ports -------------------------------------------------------------

    fn port_list(&mut self) -> R<Vec<Port>> {
        let mut v = vec![];
        if self.is(")") {
            return Ok(v);
        }
        // inherited from the previous port (23.2.2.3)
        let mut dir: Option<Dir> = None;
        let mut net: Option<String> = None;
        let mut ty: Option<DataType> = None;
        loop {
            let line = self.line();
            let d = match self.text() {
                "input" => Some(Dir::Input),
                "output" => Some(Dir::Output),
                "inout" => Some(Dir::Inout),
                "ref" => Some(Dir::Ref),
                _ => None,
            };
            if d.is_some() {
                self.i += 1;
            }
            // interface port: `If.mp name` / `If name` / `interface[.mp] name`
            if d.is_none() && (self.is("interface") || (self.is_ident() && (self.is_n(1, ".") || self.is_ident_n(1)) && !self.is_n(1, "::")))
            {
                // `T name` with T a typedef is also possible for a port that inherits its
                // direction; the emitter always writes the direction, so `Ident Ident`
                // without a direction is an interface port.
                let iface = if self.eat("interface") { "interface".to_string() } else { self.ident()? };
                let mut modport = None;
                if self.eat(".") {
                    modport = Some(self.ident()?);
                }
                let name = self.ident()?;
                let udims = self.udims()?;
                v.push(Port::Interface {
                    iface,
                    modport,
                    name,
                    udims,
                });
                dir = None;
                ty = None;
                net = None;
            } else {
                let mut n = None;
                if matches!(self.text(), "var" | "wire" | "tri" | "wand" | "wor" | "tri0" | "tri1" | "uwire" | "supply0" | "supply1") {
                    n = Some(self.text().to_string());
                    self.i += 1;
                }
                let t = self.opt_data_type_before_name()?;
                if d.is_some() {
                    dir = d;
                    net = n.clone();
                    ty = t.clone();
                } else {
                    if n.is_some() {
                        net = n.clone();
                    }
                    if t.is_some() {
                        ty = t.clone();
                    }
                }
                let Some(dirv) = dir else {
                    return self.unsup("port without direction");
                };
                let name = self.ident()?;
                let udims = self.udims()?;
                let mut init = None;
                if self.eat("=") {
                    init = Some(self.expr()?);
                }
                let tyv = ty.clone().unwrap_or(DataType::Implicit {
                    signed: false,
                    dims: vec![],
                });
                v.push(Port::Var {
                    dir: dirv,
                    net: net.clone(),
                    decl: VarDecl {
                        ty: tyv,
                        name,
                        udims,
                        init,
                        line,
                        is_param: false,
                    },
                });
            }
            if !self.eat(",") {
                break;
            }
        }
        Ok(v)
    }

    // ----- module / package / generate items ----------------------------------

    fn item(&mut self, ctx: UnitKind) -> R<Vec<Item>> {
        let line = self.line();
        let kw = self.text().to_string();
        if self.peek().is_some_and(|t| t.kind == Tk::SysIdent) {
            // elaboration system task ($error, $fatal, … at item level)
            let e = self.expr()?;
            self.expect(";")?;
            let _ = e;
            return Ok(vec![Item::Unsupported(format!("elaboration system task {kw}"))]);
        }
        match kw.as_str() {
            ";" => {
                self.i += 1;
                Ok(vec![])
            }
            "parameter" | "localparam" => {
                self.i += 1;
                let local = kw == "localparam";
                let mut v = vec![];
                let first = self.param_assignment(local)?;
                let ty = first.ty.clone();
                let is_type = first.is_type;
                v.push(Item::Param(first));
                while self.eat(",") {
                    if is_type {
                        return self.unsup("list of type parameters");
                    }
                    let line = self.line();
                    let name = self.ident()?;
                    let udims = self.udims()?;
                    let mut value = None;
                    if self.eat("=") {
                        value = Some(self.expr()?);
                    }
                    v.push(Item::Param(ParamDecl {
                        local,
                        is_type: false,
                        ty: ty.clone(),
                        name,
                        udims,
                        value,
                        type_value: None,
                        line,
                    }));
                }
                self.expect(";")?;
                Ok(v)
            }
            "typedef" => {
                self.i += 1;
                if self.is("interface") || self.is("class") {
                    return self.unsup("forward typedef");
                }
                let ty = self.data_type()?;
                let name = self.ident()?;
                let udims = self.udims()?;
                self.expect(";")?;
                Ok(vec![Item::Typedef { name, ty, udims }])
            }
            "import" => {
                if self.is_n(1, "\"DPI-C\"") || self.peek_n(1).is_some_and(|t| t.kind == Tk::Str) {
                    return self.unsup("DPI import");
                }
                let v = self.import_decl()?;
                Ok(v.into_iter().map(|(pkg, name)| Item::Import { pkg, name }).collect())
            }
            "export" => {
                if self.peek_n(1).is_some_and(|t| t.kind == Tk::Str) {
                    return self.unsup("DPI export");
                }
                while !self.is(";") {
                    if self.peek().is_none() {
                        return self.unsup("unterminated export");
                    }
                    self.i += 1;
                }
                self.i += 1;
                Ok(vec![Item::Export])
            }
            "function" => Ok(vec![Item::Function(Rc::new(self.function()?))]),
            "task" => self.unsup("task declaration"),
            "assign" => {
                self.i += 1;
                if self.is("#") || self.is("(") {
                    return self.unsup("delay / strength on a continuous assignment");
                }
                let mut v = vec![];
                loop {
                    let lhs = self.lvalue()?;
                    self.expect("=")?;
                    let rhs = self.expr()?;
                    v.push(Item::Assign { lhs, rhs, line });
                    if !self.eat(",") {
                        break;
                    }
                }
                self.expect(";")?;
                Ok(v)
            }
            "always_comb" => {
                self.i += 1;
                let s = self.stmt()?;
                Ok(vec![Item::AlwaysComb(s, line)])
            }
            "always_ff" => {
                self.i += 1;
                self.expect("@")?;
                self.expect("(")?;
                let mut events = vec![];
                loop {
                    let edge = if self.eat("posedge") {
                        Edge::Pos
                    } else if self.eat("negedge") {
                        Edge::Neg
                    } else if self.eat("edge") {
                        Edge::Any
                    } else {
                        return self.unsup("always_ff event without an edge");
                    };
                    let e = self.expr()?;
                    if self.is("iff") {
                        return self.unsup("iff qualifier");
                    }
                    events.push((edge, e));
                    if !(self.eat(",") || self.eat("or")) {
                        break;
                    }
                }
                self.expect(")")?;
                let body = self.stmt()?;
                Ok(vec![Item::AlwaysFf { events, body, line }])
            }
            "always" | "always_latch" => self.unsup(&format!("{kw} procedure")),
            "initial" => {
                self.i += 1;
                let s = self.stmt_lenient()?;
                Ok(vec![Item::Initial(s)])
            }
            "final" => {
                self.i += 1;
                let s = self.stmt_lenient()?;
                Ok(vec![Item::Final(s)])
            }
            "modport" => {
                self.i += 1;
                let mut v = vec![];
                loop {
                    let name = self.ident()?;
                    self.expect("(")?;
                    let mut items = vec![];
                    let mut dir = None;
                    loop {
                        if self.is(")") && items.is_empty() {
                            break;
                        }
                        match self.text() {
                            "input" => {
                                dir = Some(Dir::Input);
                                self.i += 1;
                            }
                            "output" => {
                                dir = Some(Dir::Output);
                                self.i += 1;
                            }
                            "inout" => {
                                dir = Some(Dir::Inout);
                                self.i += 1;
                            }
                            "ref" => {
                                dir = Some(Dir::Ref);
                                self.i += 1;
                            }
                            "import" | "export" | "clocking" => return self.unsup("modport import/export/clocking"),
                            _ => {}
                        }
                        let Some(d) = dir else {
                            return self.unsup("modport item without direction");
                        };
                        if self.is(".") {
                            return self.unsup("modport expression");
                        }
                        items.push(ModportItem {
                            dir: d,
                            name: self.ident()?,
                        });
                        if !self.eat(",") {
                            break;
                        }
                    }
                    self.expect(")")?;
                    v.push(Item::Modport { name, items });
                    if !self.eat(",") {
                        break;
                    }
                }
                self.expect(";")?;
                Ok(v)
            }
            "genvar" => {
                self.i += 1;
                let mut v = vec![];
                loop {
                    v.push(Item::Genvar(self.ident()?));
                    if !self.eat(",") {
                        break;
                    }
                }
                self.expect(";")?;
                Ok(v)
            }
            "generate" => {
                self.i += 1;
                let mut v = vec![];
                while !self.is("endgenerate") {
                    if self.peek().is_none() {
                        return self.unsup("missing endgenerate");
                    }
                    v.extend(self.item(ctx)?);
                }
                self.i += 1;
                Ok(v)
            }
            "for" => {
                self.i += 1;
                self.expect("(")?;
                let _ = self.eat("genvar");
                let var = self.ident()?;
                self.expect("=")?;
                let init = self.expr()?;
                self.expect(";")?;
                let cond = self.expr()?;
                self.expect(";")?;
                let step = self.for_step()?;
                self.expect(")")?;
                let (label, items) = self.gen_block(ctx)?;
                Ok(vec![Item::GenFor {
                    var,
                    init,
                    cond,
                    step: Box::new(step),
                    label,
                    items,
                }])
            }
            "if" => {
                self.i += 1;
                self.expect("(")?;
                let cond = self.expr()?;
                self.expect(")")?;
                let (then_label, then) = self.gen_block(ctx)?;
                let mut els = None;
                if self.eat("else") {
                    els = Some(self.gen_block(ctx)?);
                }
                Ok(vec![Item::GenIf {
                    cond,
                    then_label,
                    then,
                    els,
                }])
            }
            "case" => self.unsup("generate case"),
            "begin" => {
                let (label, items) = self.gen_block(ctx)?;
                Ok(vec![Item::GenBlock { label, items }])
            }
            "var" | "wire" | "tri" | "wand" | "wor" | "tri0" | "tri1" | "uwire" | "supply0" | "supply1" | "const" | "static"
            | "automatic" => {
                self.i += 1;
                let is_net = !matches!(kw.as_str(), "var" | "const" | "static" | "automatic");
                if kw == "const" {
                    let _ = self.eat("var");
                }
                let ty = self.opt_data_type_before_name()?.unwrap_or(DataType::Implicit {
                    signed: false,
                    dims: vec![],
                });
                let decls = self.var_decl_list(ty)?;
                Ok(decls.into_iter().map(|d| if is_net { Item::Net(d) } else { Item::Var(d) }).collect())
            }
            "let" => self.unsup("let declaration"),
            "assert" | "assume" | "cover" | "property" | "sequence" | "covergroup" | "clocking" | "default" | "class"
            | "program" | "defparam" | "alias" | "specify" | "bind" | "timeunit" | "timeprecision" => {
                self.unsup(&format!("{kw} item"))
            }
            _ => {
                if self.starts_data_type() {
                    let ty = self.data_type()?;
                    let decls = self.var_decl_list(ty)?;
                    return Ok(decls.into_iter().map(Item::Var).collect());
                }
                if !self.is_ident() {
                    return self.unsup("unexpected token at item level");
                }
                // label: `name : assert …`
                if self.is_n(1, ":") {
                    return self.unsup("labelled item");
                }
                // `T x;` | `pkg::T x;` | `M #(…) u (…);` | `M u (…);` | `If u ();`
                let save = self.i;
                let mut n = 1;
                while self.is_n(n, "::") && self.is_ident_n(n + 1) {
                    n += 2;
                }
                if self.is_n(n, "#") {
                    return Ok(vec![Item::Instance(self.instance()?)]);
                }
                if self.is_ident_n(n) && n == 1 {
                    // skip unpacked dims after the instance / variable name
                    let mut m = n + 1;
                    let mut depth = 0;
                    while self.is_n(m, "[") || depth > 0 {
                        if self.is_n(m, "[") {
                            depth += 1;
                        } else if self.is_n(m, "]") {
                            depth -= 1;
                        } else if self.peek_n(m).is_none() {
                            return self.unsup("unbalanced brackets");
                        }
                        m += 1;
                    }
                    if self.is_n(m, "(") {
                        return Ok(vec![Item::Instance(self.instance()?)]);
                    }
                }
                self.i = save;
                let ty = self.data_type()?;
                let decls = self.var_decl_list(ty)?;
                Ok(decls.into_iter().map(Item::Var).collect())
            }
        }
    }

    fn var_decl_list(&mut self, ty: DataType) -> R<Vec<VarDecl>> {
        let mut v = vec![];
        loop {
            let line = self.line();
            let name = self.ident()?;
            let udims = self.udims()?;
            let mut init = None;
            if self.eat("=") {
                init = Some(self.expr()?);
            }
            v.push(VarDecl {
                ty: ty.clone(),
                name,
                udims,
                init,
                line,
                is_param: false,
            });
            if !self.eat(",") {
                break;
            }
        }
        self.expect(";")?;
        Ok(v)
    }

    fn gen_block(&mut self, ctx: UnitKind) -> R<(Option<String>, Vec<Item>)> {
        if self.is("begin") {
            self.i += 1;
            let mut label = None;
            if self.eat(":") {
                label = Some(self.ident()?);
            }
            let mut items = vec![];
            while !self.is("end") {
                if self.peek().is_none() {
                    return self.unsup("missing end of generate block");
                }
                items.extend(self.item(ctx)?);
            }
            self.i += 1;
            self.opt_end_label()?;
            Ok((label, items))
        } else {
            Ok((None, self.item(ctx)?))
        }
    }

    fn connections(&mut self) -> R<Vec<Connection>> {
        let mut v = vec![];
        if self.is(")") {
            return Ok(v);
        }
        loop {
            if self.is(".") && self.is_n(1, "*") {
                return self.unsup("wildcard port connection");
            }
            if !self.eat(".") {
                return self.unsup("positional connection");
            }
            let name = self.ident()?;
            if self.eat("(") {
                let expr = if self.is(")") {
                    None
                } else if self.starts_data_type() && !self.is("[") && !self.is_n(1, "'") {
                    Some(Expr::Type(Box::new(self.data_type()?)))
                } else {
                    Some(self.expr()?)
                };
                self.expect(")")?;
                v.push(Connection {
                    name,
                    expr,
                    implicit: false,
                });
            } else {
                v.push(Connection {
                    name,
                    expr: None,
                    implicit: true,
                });
            }
            if !self.eat(",") {
                break;
            }
        }
        Ok(v)
    }

    fn instance(&mut self) -> R<Instance> {
        let line = self.line();
        let module = self.ident()?;
        if self.is("::") {
            return self.unsup("scoped module name");
        }
        let mut params = vec![];
        if self.eat("#") {
            self.expect("(")?;
            params = self.connections()?;
            self.expect(")")?;
        }
        let name = self.ident()?;
        let udims = self.udims()?;
        self.expect("(")?;
        let ports = self.connections()?;
        self.expect(")")?;
        if self.is(",") {
            return self.unsup("several instances in one statement");
        }
        self.expect(";")?;
        Ok(Instance {
            module,
            name,
            udims,
            params,
            ports,
            line,
        })
    }

    fn function(&mut self) -> R<Function> {
        let line = self.line();
        self.expect("function")?;
        if self.eat("static") {
            return self.unsup("static function");
        }
        let _ = self.eat("automatic");
        let ret = if self.eat("void") {
            None
        } else {
            match self.opt_data_type_before_name()? {
                Some(t) => Some(t),
                None => Some(DataType::Implicit {
                    signed: false,
                    dims: vec![],
                }),
            }
        };
        let name = self.ident()?;
        if self.is("::") || self.is(".") {
            return self.unsup("scoped function name");
        }
        let mut args = vec![];
        if self.eat("(") {
            if !self.is(")") {
                let mut dir = Dir::Input;
                let mut ty: Option<DataType> = None;
                loop {
                    let line = self.line();
                    let d = match self.text() {
                        "input" => Some(Dir::Input),
                        "output" => Some(Dir::Output),
                        "inout" => Some(Dir::Inout),
                        "ref" => Some(Dir::Ref),
                        _ => None,
                    };
                    if d.is_some() {
                        self.i += 1;
                    }
                    if self.eat("const") {
                        let _ = self.eat("ref");
                        return self.unsup("const ref argument");
                    }
                    let _ = self.eat("var");
                    let t = self.opt_data_type_before_name()?;
                    if let Some(d) = d {
                        dir = d;
                        ty = t;
                    } else if t.is_some() {
                        ty = t;
                    }
                    let name = self.ident()?;
                    let udims = self.udims()?;
                    let mut init = None;
                    if self.eat("=") {
                        init = Some(self.expr()?);
                    }
                    args.push(FuncArg {
                        dir,
                        decl: VarDecl {
                            ty: ty.clone().unwrap_or(DataType::Vector {
                                kind: VecKind::Logic,
                                signed: false,
                                dims: vec![],
                            }),
                            name,
                            udims,
                            init,
                            line,
                            is_param: false,
                        },
                    });
                    if !self.eat(",") {
                        break;
                    }
                }
            }
            self.expect(")")?;
        }
        self.expect(";")?;
        let mut decls = vec![];
        let mut body = vec![];
        while !self.is("endfunction") {
            if self.peek().is_none() {
                return self.unsup("missing endfunction");
            }
            if matches!(self.text(), "input" | "output" | "inout" | "ref") {
                return self.unsup("non-ANSI function arguments");
            }
            if body.is_empty() && self.starts_decl() {
                decls.extend(self.block_decl()?);
            } else {
                body.push(self.stmt()?);
            }
        }
        self.i += 1;
        self.opt_end_label()?;
        Ok(Function {
            name,
            ret,
            args,
            decls,
            body,
            line,
        })
    }

    // ----- statements ------------------------------------------------------------

    /// Does a block item declaration start here?
    fn starts_decl(&self) -> bool {
        if matches!(self.text(), "var" | "automatic" | "static" | "const" | "localparam" | "parameter") {
            return true;
        }
        if self.starts_data_type() && !self.is("[") {
            // `type'(…)` casts never start a statement
            return true;
        }
        if self.is_ident() {
            let mut n = 1;
            while self.is_n(n, "::") && self.is_ident_n(n + 1) {
                n += 2;
            }
            // `T [N-1:0] name` — packed dimensions of a type name
            let mut depth = 0;
            while self.is_n(n, "[") || depth > 0 {
                if self.is_n(n, "[") {
                    depth += 1;
                } else if self.is_n(n, "]") {
                    depth -= 1;
                } else if self.peek_n(n).is_none() {
                    return false;
                }
                n += 1;
            }
            return self.is_ident_n(n);
        }
        false
    }

    fn block_decl(&mut self) -> R<Vec<VarDecl>> {
        if self.is("localparam") || self.is("parameter") {
            self.i += 1;
            let p = self.param_assignment(true)?;
            if p.is_type || self.is(",") {
                return self.unsup("local type parameter / parameter list");
            }
            self.expect(";")?;
            let Some(v) = p.value else {
                return self.unsup("local parameter without a value");
            };
            return Ok(vec![VarDecl {
                ty: p.ty.unwrap_or(DataType::Implicit {
                    signed: false,
                    dims: vec![],
                }),
                name: p.name,
                udims: vec![],
                init: Some(v),
                line: p.line,
                is_param: true,
            }]);
        }
        if self.eat("static") {
            return self.unsup("static variable in a procedural block");
        }
        let _ = self.eat("automatic");
        if self.eat("const") {
            return self.unsup("const variable");
        }
        let _ = self.eat("var");
        let ty = self.opt_data_type_before_name()?.unwrap_or(DataType::Implicit {
            signed: false,
            dims: vec![],
        });
        self.var_decl_list(ty)
    }

    /// Statement inside `initial` / `final`: anything that parses as a
    /// statement is kept, timing controls and the like make the whole
    /// procedure `Ignored` (it never takes part in the synthesizable behaviour).
    fn stmt_lenient(&mut self) -> R<Stmt> {
        let save = self.i;
        match self.stmt() {
            Ok(s) => Ok(s),
            Err(e) => {
                self.i = save;
                // skip a balanced begin…end or up to the semicolon
                if self.is("begin") {
                    let mut depth = 0;
                    loop {
                        match self.text() {
                            "begin" | "fork" | "case" | "casez" | "casex" => depth += 1,
                            "end" | "join" | "join_any" | "join_none" | "endcase" => depth -= 1,
                            "" => return Err(e),
                            _ => {}
                        }
                        self.i += 1;
                        if depth == 0 {
                            break;
                        }
                    }
                    self.opt_end_label()?;
                    Ok(Stmt::Ignored(format!("initial/final block: {}", e.reason)))
                } else {
                    Err(e)
                }
            }
        }
    }

    fn stmt(&mut self) -> R<Stmt> {
        let line = self.line();
        let kw = self.text().to_string();
        if self.peek().is_some_and(|t| t.kind == Tk::SysIdent) {
            let e = self.primary()?;
            self.expect(";")?;
            return Ok(Stmt::Call(e));
        }
        match kw.as_str() {
            ";" => {
                self.i += 1;
                Ok(Stmt::Null)
            }
            "begin" => {
                self.i += 1;
                let mut label = None;
                if self.eat(":") {
                    label = Some(self.ident()?);
                }
                let mut decls = vec![];
                let mut stmts = vec![];
                while !self.is("end") {
                    if self.peek().is_none() {
                        return self.unsup("missing end");
                    }
                    if stmts.is_empty() && self.starts_decl() {
                        decls.extend(self.block_decl()?);
                    } else {
                        stmts.push(self.stmt()?);
                    }
                }
                self.i += 1;
                self.opt_end_label()?;
                Ok(Stmt::Block { label, decls, stmts })
            }
            "unique" | "unique0" | "priority" => {
                // violation reports only; the selected branch is the same (12.4.2, 12.5.3)
                self.i += 1;
                if !matches!(self.text(), "if" | "case" | "casez" | "casex") {
                    return self.unsup("unique/priority before something else than if/case");
                }
                self.stmt()
            }
            "if" => {
                self.i += 1;
                self.expect("(")?;
                let cond = self.expr()?;
                if self.is("matches") || self.is("&&&") {
                    return self.unsup("pattern matching condition");
                }
                self.expect(")")?;
                let then = Box::new(self.stmt()?);
                let mut els = None;
                if self.eat("else") {
                    els = Some(Box::new(self.stmt()?));
                }
                Ok(Stmt::If { cond, then, els })
            }
            "case" | "casez" | "casex" => {
                self.i += 1;
                let kind = match kw.as_str() {
                    "case" => CaseKind::Case,
                    "casez" => CaseKind::Casez,
                    _ => CaseKind::Casex,
                };
                self.expect("(")?;
                let sel = self.expr()?;
                self.expect(")")?;
                if self.is("matches") {
                    return self.unsup("case matches");
                }
                let inside = self.eat("inside");
                if inside && kind != CaseKind::Case {
                    return self.unsup("casez/casex inside");
                }
                let mut arms = vec![];
                let mut default = None;
                while !self.is("endcase") {
                    if self.peek().is_none() {
                        return self.unsup("missing endcase");
                    }
                    if self.eat("default") {
                        let _ = self.eat(":");
                        if default.is_some() {
                            return self.unsup("two default arms");
                        }
                        default = Some(Box::new(self.stmt()?));
                        continue;
                    }
                    let mut items = vec![];
                    loop {
                        if inside && self.is("[") {
                            self.i += 1;
                            let l = self.expr()?;
                            self.expect(":")?;
                            let r = self.expr()?;
                            self.expect("]")?;
                            items.push(InsideItem::Range(l, r));
                        } else {
                            items.push(InsideItem::Val(self.expr()?));
                        }
                        if !self.eat(",") {
                            break;
                        }
                    }
                    self.expect(":")?;
                    let s = self.stmt()?;
                    arms.push((items, s));
                }
                self.i += 1;
                Ok(Stmt::Case {
                    kind,
                    inside,
                    sel,
                    arms,
                    default,
                })
            }
            "for" => {
                self.i += 1;
                self.expect("(")?;
                let mut init_decl = None;
                let mut init = None;
                if self.starts_decl() {
                    let _ = self.eat("var");
                    let ty = self.data_type()?;
                    let line = self.line();
                    let name = self.ident()?;
                    self.expect("=")?;
                    let e = self.expr()?;
                    if self.is(",") {
                        return self.unsup("several loop variables");
                    }
                    init_decl = Some(VarDecl {
                        ty,
                        name,
                        udims: vec![],
                        init: Some(e),
                        line,
                        is_param: false,
                    });
                } else if !self.is(";") {
                    let lhs = self.lvalue()?;
                    self.expect("=")?;
                    let rhs = self.expr()?;
                    if self.is(",") {
                        return self.unsup("several loop initialisations");
                    }
                    init = Some(Box::new(Stmt::Blocking {
                        lhs,
                        op: None,
                        rhs,
                        line,
                    }));
                }
                self.expect(";")?;
                let cond = self.expr()?;
                self.expect(";")?;
                let step = self.for_step()?;
                self.expect(")")?;
                let body = Box::new(self.stmt()?);
                Ok(Stmt::For {
                    init_decl,
                    init,
                    cond,
                    step: Box::new(step),
                    body,
                })
            }
            "break" => {
                self.i += 1;
                self.expect(";")?;
                Ok(Stmt::Break)
            }
            "continue" => {
                self.i += 1;
                self.expect(";")?;
                Ok(Stmt::Continue)
            }
            "return" => {
                self.i += 1;
                let e = if self.is(";") { None } else { Some(self.expr()?) };
                self.expect(";")?;
                Ok(Stmt::Return(e))
            }
            "assert" | "assume" | "cover" => {
                // immediate assertion: `assert (e) [stmt] [else stmt]`
                self.i += 1;
                if self.is("property") || self.is("#") || self.is("final") {
                    return self.unsup("concurrent / deferred assertion");
                }
                self.expect("(")?;
                let _ = self.expr()?;
                self.expect(")")?;
                if self.eat(";") {
                } else if self.is("else") {
                } else {
                    let _ = self.stmt()?;
                }
                if self.eat("else") {
                    let _ = self.stmt()?;
                }
                Ok(Stmt::Ignored("immediate assertion".into()))
            }
            "while" | "do" | "foreach" | "repeat" | "forever" | "wait" | "fork" | "disable" | "#" | "@" | "->" | "void" => {
                self.unsup(&format!("{kw} statement"))
            }
            "++" | "--" => {
                self.i += 1;
                let lhs = self.lvalue()?;
                self.expect(";")?;
                Ok(Stmt::IncDec { lhs, inc: kw == "++" })
            }
            _ => {
                if self.is_ident() && self.is_n(1, ":") && !self.is_n(2, ":") {
                    return self.unsup("statement label");
                }
                let s = self.assign_or_call()?;
                self.expect(";")?;
                Ok(s)
            }
        }
    }

    /// `lhs = e`, `lhs <= e`, `lhs op= e`, `lhs++`, `f(x)` — without the semicolon
    fn assign_or_call(&mut self) -> R<Stmt> {
        let line = self.line();
        let lhs = self.lvalue()?;
        if let Expr::Call(..) = lhs {
            return Ok(Stmt::Call(lhs));
        }
        let op = self.text().to_string();
        self.i += 1;
        match op.as_str() {
            "=" => {
                if self.is("#") || self.is("@") {
                    return self.unsup("intra-assignment timing control");
                }
                let rhs = self.expr()?;
                Ok(Stmt::Blocking {
                    lhs,
                    op: None,
                    rhs,
                    line,
                })
            }
            "<=" => {
                if self.is("#") || self.is("@") {
                    return self.unsup("intra-assignment timing control");
                }
                let rhs = self.expr()?;
                Ok(Stmt::NonBlocking { lhs, rhs, line })
            }
            "++" => Ok(Stmt::IncDec { lhs, inc: true }),
            "--" => Ok(Stmt::IncDec { lhs, inc: false }),
            _ => {
                let b = match op.as_str() {
                    "+=" => BinOp::Add,
                    "-=" => BinOp::Sub,
                    "*=" => BinOp::Mul,
                    "/=" => BinOp::Div,
                    "%=" => BinOp::Rem,
                    "&=" => BinOp::And,
                    "|=" => BinOp::Or,
                    "^=" => BinOp::Xor,
                    "<<=" => BinOp::Shl,
                    ">>=" => BinOp::Shr,
                    "<<<=" => BinOp::AShl,
                    ">>>=" => BinOp::AShr,
                    _ => {
                        self.i -= 1;
                        return self.unsup("expected an assignment operator");
                    }
                };
                let rhs = self.expr()?;
                Ok(Stmt::Blocking {
                    lhs,
                    op: Some(b),
                    rhs,
                    line,
                })
            }
        }
    }

    fn for_step(&mut self) -> R<Stmt> {
        if self.is("++") || self.is("--") {
            let inc = self.is("++");
            self.i += 1;
            let lhs = self.lvalue()?;
            return Ok(Stmt::IncDec { lhs, inc });
        }
        let s = self.assign_or_call()?;
        if self.is(",") {
            return self.unsup("several loop steps");
        }
        Ok(s)
    }

    /// variable_lvalue: name with selects, a concatenation of lvalues, or (for
    /// statements) a subroutine call.
    fn lvalue(&mut self) -> R<Expr> {
        if self.is("{") {
            self.i += 1;
            let mut v = vec![];
            loop {
                v.push(self.lvalue()?);
                if !self.eat(",") {
                    break;
                }
            }
            self.expect("}")?;
            return Ok(Expr::Concat(v));
        }
        if self.is("'{") {
            return self.unsup("assignment pattern as lvalue");
        }
        if !self.is_ident() {
            return self.unsup("expected lvalue");
        }
        let p = self.path()?;
        let mut e = if self.is("(") {
            self.i += 1;
            let args = self.call_args()?;
            Expr::Call(p, args)
        } else {
            Expr::Name(p)
        };
        if !matches!(e, Expr::Call(..)) {
            e = self.postfix(e)?;
        }
        Ok(e)
    }

    // ----- expressions (A.8.3, precedence of Table 11-2) ------------------------

    fn expr(&mut self) -> R<Expr> {
        let c = self.binary(0)?;
        if self.is("?") {
            self.i += 1;
            let a = self.expr()?;
            self.expect(":")?;
            let b = self.expr()?;
            return Ok(Expr::Cond(Box::new(c), Box::new(a), Box::new(b)));
        }
        if self.is("->") || self.is("<->") {
            return self.unsup("implication operator");
        }
        Ok(c)
    }

    /// binary operators at precedence level ≥ `min` (0 = `||` … 10 = `**`)
    fn binary(&mut self, min: u8) -> R<Expr> {
        let mut lhs = self.unary()?;
        loop {
            let Some(t) = self.peek() else { break };
            if t.kind == Tk::Str {
                break;
            }
            if t.text == "inside" {
                let lvl = 6;
                if lvl < min {
                    break;
                }
                self.i += 1;
                self.expect("{")?;
                let items = self.inside_items()?;
                self.expect("}")?;
                lhs = Expr::Inside(Box::new(lhs), items);
                continue;
            }
            let (op, lvl) = match t.text.as_str() {
                "||" => (BinOp::LogOr, 0),
                "&&" => (BinOp::LogAnd, 1),
                "|" => (BinOp::Or, 2),
                "^" => (BinOp::Xor, 3),
                "~^" | "^~" => (BinOp::Xnor, 3),
                "&" => (BinOp::And, 4),
                "==" => (BinOp::Eq, 5),
                "!=" => (BinOp::Ne, 5),
                "===" => (BinOp::CaseEq, 5),
                "!==" => (BinOp::CaseNe, 5),
                "==?" => (BinOp::WildEq, 5),
                "!=?" => (BinOp::WildNe, 5),
                "<" => (BinOp::Lt, 6),
                "<=" => (BinOp::Le, 6),
                ">" => (BinOp::Gt, 6),
                ">=" => (BinOp::Ge, 6),
                "<<" => (BinOp::Shl, 7),
                ">>" => (BinOp::Shr, 7),
                "<<<" => (BinOp::AShl, 7),
                ">>>" => (BinOp::AShr, 7),
                "+" => (BinOp::Add, 8),
                "-" => (BinOp::Sub, 8),
                "*" => (BinOp::Mul, 9),
                "/" => (BinOp::Div, 9),
                "%" => (BinOp::Rem, 9),
                "**" => (BinOp::Pow, 10),
                _ => break,
            };
            if lvl < min {
                break;
            }
            self.i += 1;
            if self.is("(") && self.is_n(1, "*") {
                return self.unsup("attribute instance");
            }
            // all binary operators associate left to right
            let rhs = self.binary(lvl + 1)?;
            lhs = Expr::Binary(op, Box::new(lhs), Box::new(rhs));
        }
        Ok(lhs)
    }

    fn inside_items(&mut self) -> R<Vec<InsideItem>> {
        let mut items = vec![];
        loop {
            if self.is("[") {
                self.i += 1;
                let l = self.expr()?;
                self.expect(":")?;
                let r = self.expr()?;
                self.expect("]")?;
                items.push(InsideItem::Range(l, r));
            } else {
                items.push(InsideItem::Val(self.expr()?));
            }
            if !self.eat(",") {
                break;
            }
        }
        Ok(items)
    }

    fn unary(&mut self) -> R<Expr> {
        let Some(t) = self.peek() else {
            return self.unsup("unexpected end of input in expression");
        };
        if t.kind == Tk::Op {
            let op = match t.text.as_str() {
                "+" => Some(UnOp::Plus),
                "-" => Some(UnOp::Minus),
                "!" => Some(UnOp::LogNot),
                "~" => Some(UnOp::BitNot),
                "&" => Some(UnOp::RedAnd),
                "~&" => Some(UnOp::RedNand),
                "|" => Some(UnOp::RedOr),
                "~|" => Some(UnOp::RedNor),
                "^" => Some(UnOp::RedXor),
                "~^" | "^~" => Some(UnOp::RedXnor),
                "++" | "--" => return self.unsup("increment inside an expression"),
                _ => None,
            };
            if let Some(op) = op {
                self.i += 1;
                // unary operators bind tighter than any binary one; the operand is
                // a primary (possibly itself with a unary operator)
                let x = self.unary()?;
                return Ok(Expr::Unary(op, Box::new(x)));
            }
        }
        let p = self.primary()?;
        if self.is("++") || self.is("--") {
            return self.unsup("increment inside an expression");
        }
        Ok(p)
    }

    fn call_args(&mut self) -> R<Vec<Expr>> {
        let mut v = vec![];
        if self.eat(")") {
            return Ok(v);
        }
        loop {
            if self.is(".") {
                return self.unsup("named argument binding");
            }
            if self.is(",") || self.is(")") {
                return self.unsup("empty argument");
            }
            if self.starts_data_type() && !self.is("[") && !self.is_n(1, "'") {
                v.push(Expr::Type(Box::new(self.data_type()?)));
            } else {
                v.push(self.expr()?);
            }
            if !self.eat(",") {
                break;
            }
        }
        self.expect(")")?;
        Ok(v)
    }

    fn postfix(&mut self, mut e: Expr) -> R<Expr> {
        loop {
            if self.is("[") {
                self.i += 1;
                let a = self.expr()?;
                if self.eat(":") {
                    let b = self.expr()?;
                    e = Expr::Range(Box::new(e), Box::new(a), Box::new(b));
                } else if self.eat("+:") {
                    let b = self.expr()?;
                    e = Expr::PlusRange(Box::new(e), Box::new(a), Box::new(b));
                } else if self.eat("-:") {
                    let b = self.expr()?;
                    e = Expr::MinusRange(Box::new(e), Box::new(a), Box::new(b));
                } else {
                    e = Expr::Index(Box::new(e), Box::new(a));
                }
                self.expect("]")?;
            } else if self.is(".") && self.is_ident_n(1) {
                self.i += 1;
                let n = self.ident()?;
                if self.is("(") {
                    return self.unsup("method call");
                }
                e = Expr::Member(Box::new(e), n);
            } else {
                break;
            }
        }
        Ok(e)
    }

    /// After a primary: `'(e)` makes it a cast target, `'{…}` a typed pattern.
    fn cast_suffix(&mut self, target: Expr) -> R<Expr> {
        let mut e = target;
        while self.is("'") && self.is_n(1, "(") {
            self.i += 2;
            let inner = self.expr()?;
            self.expect(")")?;
            e = Expr::Cast(Box::new(CastTarget::Expr(e)), Box::new(inner));
        }
        Ok(e)
    }

    fn pattern(&mut self, ty: Option<DataType>) -> R<Expr> {
        self.expect("'{")?;
        let mut items = vec![];
        if self.is("}") {
            return self.unsup("empty assignment pattern");
        }
        // replication form `'{n{a, b}}`
        let save = self.i;
        if let Ok(n) = self.expr() {
            if self.is("{") {
                self.i += 1;
                let mut inner = vec![];
                loop {
                    inner.push(self.expr()?);
                    if !self.eat(",") {
                        break;
                    }
                }
                self.expect("}")?;
                self.expect("}")?;
                // the count must be a literal for the parser to unroll it
                let Expr::Num(nv) = &n else {
                    return self.unsup("pattern replication with a non-literal count");
                };
                let Some(k) = nv.to_biguint().and_then(|k| u32::try_from(k).ok()) else {
                    return self.unsup("pattern replication count");
                };
                if k == 0 || k > 4096 {
                    return self.unsup("pattern replication count");
                }
                for _ in 0..k {
                    for x in &inner {
                        items.push(PatItem {
                            key: PatKey::Positional,
                            value: x.clone(),
                        });
                    }
                }
                return Ok(Expr::Pattern(ty.map(Box::new), items));
            }
        }
        self.i = save;
        loop {
            if self.eat("default") {
                self.expect(":")?;
                items.push(PatItem {
                    key: PatKey::Default,
                    value: self.expr()?,
                });
            } else {
                let e = if self.starts_data_type() && !self.is("[") && !self.is_n(1, "'") {
                    return self.unsup("type key in an assignment pattern");
                } else {
                    self.expr()?
                };
                if self.eat(":") {
                    let v = self.expr()?;
                    items.push(PatItem {
                        key: PatKey::Key(e),
                        value: v,
                    });
                } else {
                    items.push(PatItem {
                        key: PatKey::Positional,
                        value: e,
                    });
                }
            }
            if !self.eat(",") {
                break;
            }
        }
        self.expect("}")?;
        Ok(Expr::Pattern(ty.map(Box::new), items))
    }

    fn primary(&mut self) -> R<Expr> {
        let Some(t) = self.peek().cloned() else {
            return self.unsup("unexpected end of input in expression");
        };
        match t.kind {
            Tk::Number => {
                self.i += 1;
                let txt = t.text.replace([' ', '\t'], "");
                let e = if txt.len() == 2 && txt.starts_with('\'') {
                    match txt.as_bytes()[1].to_ascii_lowercase() {
                        b'0' => Expr::Fill(Bit::Zero),
                        b'1' => Expr::Fill(Bit::One),
                        b'x' => Expr::Fill(Bit::X),
                        _ => Expr::Fill(Bit::Z),
                    }
                } else {
                    Expr::Num(decode_number(&txt)?)
                };
                self.cast_suffix(e)
            }
            Tk::Real => self.unsup("real / time literal"),
            Tk::Str => {
                self.i += 1;
                Ok(Expr::Str(t.text[1..t.text.len() - 1].to_string()))
            }
            Tk::SysIdent => {
                self.i += 1;
                let args = if self.eat("(") { self.call_args()? } else { vec![] };
                let e = Expr::SysCall(t.text.clone(), args);
                self.cast_suffix(e)
            }
            Tk::Op => match t.text.as_str() {
                "(" => {
                    self.i += 1;
                    let e = self.expr()?;
                    if self.is(":") {
                        return self.unsup("mintypmax expression");
                    }
                    self.expect(")")?;
                    // a parenthesised expression may be a cast size: `(W+1)'(x)`;
                    // selects on a parenthesised expression are not legal SV
                    if self.is("[") {
                        return self.unsup("select on a parenthesised expression");
                    }
                    self.cast_suffix(e)
                }
                "{" => {
                    self.i += 1;
                    if self.is("<<") || self.is(">>") {
                        return self.unsup("streaming concatenation");
                    }
                    if self.is("}") {
                        return self.unsup("empty concatenation");
                    }
                    let first = self.expr()?;
                    let e = if self.is("{") {
                        self.i += 1;
                        let mut inner = vec![];
                        loop {
                            inner.push(self.expr()?);
                            if !self.eat(",") {
                                break;
                            }
                        }
                        self.expect("}")?;
                        self.expect("}")?;
                        Expr::Repl(Box::new(first), inner)
                    } else {
                        let mut v = vec![first];
                        while self.eat(",") {
                            v.push(self.expr()?);
                        }
                        self.expect("}")?;
                        Expr::Concat(v)
                    };
                    // `{…}[i]` select on a concatenation
                    let e = self.postfix_concat(e)?;
                    Ok(e)
                }
                "'{" => self.pattern(None),
                "$" => self.unsup("$ primary"),
                _ => self.unsup("unexpected operator in expression"),
            },
            Tk::Ident => {
                let kw = t.text.as_str();
                match kw {
                    "signed" | "unsigned" | "const" if self.is_n(1, "'") && self.is_n(2, "(") => {
                        self.i += 3;
                        let inner = self.expr()?;
                        self.expect(")")?;
                        let tgt = match kw {
                            "signed" => CastTarget::Sign(true),
                            "unsigned" => CastTarget::Sign(false),
                            _ => CastTarget::Const,
                        };
                        let e = Expr::Cast(Box::new(tgt), Box::new(inner));
                        self.cast_suffix(e)
                    }
                    "logic" | "bit" | "reg" | "byte" | "shortint" | "int" | "longint" | "integer" | "time" | "string"
                    | "real" | "shortreal" | "realtime" => {
                        if self.is_n(1, "'") && self.is_n(2, "(") {
                            let ty = self.data_type()?;
                            self.i += 2;
                            let inner = self.expr()?;
                            self.expect(")")?;
                            let e = Expr::Cast(Box::new(CastTarget::Type(ty)), Box::new(inner));
                            self.cast_suffix(e)
                        } else {
                            self.unsup("data type in expression position")
                        }
                    }
                    "type" => self.unsup("type operator in an expression"),
                    "null" | "this" | "super" | "new" | "tagged" => self.unsup(&format!("{kw} primary")),
                    _ => {
                        if !self.is_ident() && !(self.is("$") && self.is_n(1, "unit")) {
                            return self.unsup("unexpected keyword in expression");
                        }
                        let p = self.path()?;
                        if self.is("(") {
                            self.i += 1;
                            let args = self.call_args()?;
                            let e = Expr::Call(p, args);
                            return self.cast_suffix(e);
                        }
                        if self.is("#") {
                            return self.unsup("parameterised scope");
                        }
                        if self.is("'{") {
                            let ty = DataType::Named { path: p, dims: vec![] };
                            return self.pattern(Some(ty));
                        }
                        let e = self.postfix(Expr::Name(p))?;
                        self.cast_suffix(e)
                    }
                }
            }
            _ => self.unsup("unexpected token in expression"),
        }
    }

    fn postfix_concat(&mut self, e: Expr) -> R<Expr> {
        if self.is("[") {
            return self.postfix(e);
        }
        Ok(e)
    }
}
