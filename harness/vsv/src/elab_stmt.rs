//! Elaboration of statements, functions and processes.

use crate::ast::*;
use crate::elab::{Deferred, Elab, Locals, R, ScopeId, fail};
use crate::elab_expr::Res;
use crate::ir::{self, *};
use std::collections::HashMap;
use std::rc::Rc;
use vbv::Bv;

impl Elab {
    fn local_decl(&mut self, d: &VarDecl, sc: ScopeId, lc: &mut Locals, out: &mut Vec<EStmt>, init: &mut Vec<(Slot, VarTy)>) -> R<()> {
        self.cur_consts = lc.consts.clone();
        let t = self.resolve_type(&d.ty, sc);
        let u = self.udims(&d.udims, sc);
        self.cur_consts.clear();
        let mut vt = t?;
        let ud = u?;
        if !ud.is_empty() {
            let mut all = ud;
            all.extend(vt.udims.iter().cloned());
            vt.udims = all;
        }
        if d.is_param {
            let Some(e) = &d.init else {
                return fail("local parameter without a value");
            };
            // constant expression over parameters and earlier local parameters
            let ee = self.expr(e, sc, lc)?;
            let saved = std::mem::replace(&mut self.m.const_only, true);
            let v = self.m.eval_self(&ee);
            self.m.const_only = saved;
            let raw = v?;
            let implicit = matches!(&d.ty, DataType::Implicit { signed: false, dims } if dims.is_empty());
            let (val, pvt) = if implicit {
                let t = VarTy {
                    ty: Rc::new(Ty::vector(raw.width(), raw.signed(), false)),
                    udims: vec![],
                };
                (raw, t)
            } else {
                (raw.resize(vt.ty.width).with_signed(vt.ty.signed), vt)
            };
            lc.consts.insert(d.name.clone(), (Rc::new(vec![val]), pvt));
            return Ok(());
        }
        // the initialiser is evaluated before the name becomes visible
        let rhs = match &d.init {
            Some(e) => Some(self.expr(e, sc, lc)?),
            None => None,
        };
        let slot = lc.declare(&d.name, vt.clone());
        init.push((slot, vt.clone()));
        if let Some(rhs) = rhs {
            if !vt.udims.is_empty() {
                return fail("initialiser of a local array");
            }
            out.push(EStmt::Assign {
                lhs: ELhs::Ref(ERef {
                    base: Base::Local(slot),
                    uidx: vec![],
                    slices: vec![],
                    elem_w: vt.ty.width,
                    elem_two_state: vt.ty.two_state,
                    rest: vec![],
                    w: vt.ty.width,
                    s: vt.ty.signed,
                    two_state: vt.ty.two_state,
                }),
                rhs,
                nonblocking: false,
                line: d.line,
            });
        }
        Ok(())
    }

    fn assignment(&mut self, lhs: &Expr, op: Option<BinOp>, rhs: &Expr, nonblocking: bool, line: u32, sc: ScopeId, lc: &mut Locals) -> R<EStmt> {
        // whole unpacked array on the left: pattern or array copy
        if !matches!(lhs, Expr::Concat(_)) {
            let r = self.lhs_ref(lhs, sc, lc)?;
            if !r.rest.is_empty() {
                if op.is_some() {
                    return fail("operator assignment to an array");
                }
                return match rhs {
                    Expr::Pattern(None, items) => {
                        let flat = self.flatten_pattern(items, &r.rest, sc)?;
                        let mut vals = vec![];
                        for e in &flat {
                            vals.push(self.expr(e, sc, lc)?);
                        }
                        Ok(EStmt::AssignArray {
                            lhs: r,
                            rhs: vals,
                            nonblocking,
                        })
                    }
                    _ => {
                        let Res::Var(rb) = self.resolve(rhs, sc, lc)? else {
                            return fail("array assigned from something that is not an array");
                        };
                        let src = rb.finish();
                        let n = |d: &[(i64, i64)]| d.iter().map(|(l, r)| (l - r).unsigned_abs() as usize + 1).collect::<Vec<_>>();
                        if n(&src.rest) != n(&r.rest) {
                            return fail("array assignment with different dimensions");
                        }
                        Ok(EStmt::CopyArray {
                            lhs: r,
                            rhs: src,
                            nonblocking,
                        })
                    }
                };
            }
            // untyped pattern on the right: typed by the target
            if let Expr::Pattern(None, items) = rhs {
                let vt = self.place_type(lhs, sc, lc)?;
                let v = self.struct_pattern(&vt, items, sc, lc)?;
                return Ok(EStmt::Assign {
                    lhs: ELhs::Ref(r),
                    rhs: v,
                    nonblocking,
                    line,
                });
            }
        }
        let l = self.lhs(lhs, sc, lc)?;
        let mut r = self.expr(rhs, sc, lc)?;
        if let Some(op) = op {
            // `a op= b` is `a = a op b` (11.4.1)
            let cur = self.expr(lhs, sc, lc)?;
            r = Self::bin(op, cur, r);
        }
        Ok(EStmt::Assign {
            lhs: l,
            rhs: r,
            nonblocking,
            line,
        })
    }

    fn place_type(&mut self, e: &Expr, sc: ScopeId, lc: &mut Locals) -> R<Rc<Ty>> {
        let saved = std::mem::replace(&mut lc.lhs_base, true);
        let r = self.resolve(e, sc, lc);
        lc.lhs_base = saved;
        match r? {
            Res::Var(rb) => Ok(rb.cur),
            _ => fail("not a variable"),
        }
    }

    pub(crate) fn stmt(&mut self, st: &Stmt, sc: ScopeId, lc: &mut Locals) -> R<EStmt> {
        Ok(match st {
            Stmt::Null | Stmt::Ignored(_) => EStmt::Null,
            Stmt::Block { decls, stmts, .. } => {
                lc.blocks.push(HashMap::new());
                let mut out = vec![];
                let mut init = vec![];
                let mut res = Ok(());
                for d in decls {
                    res = self.local_decl(d, sc, lc, &mut out, &mut init);
                    if res.is_err() {
                        break;
                    }
                }
                if res.is_ok() {
                    for s in stmts {
                        match self.stmt(s, sc, lc) {
                            Ok(s) => out.push(s),
                            Err(e) => {
                                res = Err(e);
                                break;
                            }
                        }
                    }
                }
                lc.blocks.pop();
                res?;
                if init.is_empty() { EStmt::Block(out) } else { EStmt::Scoped(init, out) }
            }
            Stmt::Blocking { lhs, op, rhs, line } => self.assignment(lhs, *op, rhs, false, *line, sc, lc)?,
            Stmt::NonBlocking { lhs, rhs, line } => self.assignment(lhs, None, rhs, true, *line, sc, lc)?,
            Stmt::IncDec { lhs, inc } => {
                let one = Expr::Num(Bv::from_u64(1, 32, true));
                self.assignment(lhs, Some(if *inc { BinOp::Add } else { BinOp::Sub }), &one, false, 0, sc, lc)?
            }
            Stmt::If { cond, then, els } => {
                let c = self.expr(cond, sc, lc)?;
                let t = self.stmt(then, sc, lc)?;
                let e = match els {
                    Some(e) => Some(Box::new(self.stmt(e, sc, lc)?)),
                    None => None,
                };
                EStmt::If(c, Box::new(t), e)
            }
            Stmt::Case {
                kind,
                inside,
                sel,
                arms,
                default,
            } => {
                let sel = self.expr(sel, sc, lc)?;
                let (mut w, mut s) = (sel.w, sel.s);
                let mut earms = vec![];
                for (items, body) in arms {
                    let its = self.inside_items(items, sc, lc)?;
                    for it in &its {
                        if let ir::InsideItem::Val(v) = it {
                            w = w.max(v.w);
                            s = s && v.s;
                        }
                    }
                    earms.push((its, self.stmt(body, sc, lc)?));
                }
                let d = match default {
                    Some(d) => Some(Box::new(self.stmt(d, sc, lc)?)),
                    None => None,
                };
                EStmt::Case {
                    kind: *kind,
                    inside: *inside,
                    sel,
                    arms: earms,
                    default: d,
                    w,
                    s,
                }
            }
            Stmt::For {
                init_decl,
                init,
                cond,
                step,
                body,
            } => {
                lc.blocks.push(HashMap::new());
                let r = (|| -> R<EStmt> {
                    let mut pre = vec![];
                    let mut slots = vec![];
                    if let Some(d) = init_decl {
                        self.local_decl(d, sc, lc, &mut pre, &mut slots)?;
                    }
                    if let Some(i) = init {
                        pre.push(self.stmt(i, sc, lc)?);
                    }
                    let cond = self.expr(cond, sc, lc)?;
                    let step = self.stmt(step, sc, lc)?;
                    let body = self.stmt(body, sc, lc)?;
                    let f = EStmt::For {
                        init: Box::new(EStmt::Block(pre)),
                        cond,
                        step: Box::new(step),
                        body: Box::new(body),
                    };
                    Ok(if slots.is_empty() { f } else { EStmt::Scoped(slots, vec![f]) })
                })();
                lc.blocks.pop();
                r?
            }
            Stmt::Break => EStmt::Break,
            Stmt::Continue => EStmt::Continue,
            Stmt::Return(e) => {
                let Some((_, ret)) = lc.in_func.clone() else {
                    return fail("return outside a function");
                };
                match (e, ret) {
                    (None, _) => EStmt::Return(None),
                    (Some(_), None) => return fail("return with a value in a void function"),
                    (Some(e), Some(slot)) => {
                        let vt = lc.vars[slot].clone();
                        let rhs = match e {
                            Expr::Pattern(None, items) => self.struct_pattern(&vt.ty, items, sc, lc)?,
                            _ => self.expr(e, sc, lc)?,
                        };
                        EStmt::Block(vec![
                            EStmt::Assign {
                                lhs: ELhs::Ref(ERef {
                                    base: Base::Local(slot),
                                    uidx: vec![],
                                    slices: vec![],
                                    elem_w: vt.ty.width,
                                    elem_two_state: vt.ty.two_state,
                                    rest: vec![],
                                    w: vt.ty.width,
                                    s: vt.ty.signed,
                                    two_state: vt.ty.two_state,
                                }),
                                rhs,
                                nonblocking: false,
                                line: 0,
                            },
                            EStmt::Return(None),
                        ])
                    }
                }
            }
            Stmt::Call(e) => match e {
                Expr::SysCall(name, args) => {
                    let mut v = vec![];
                    match name.as_str() {
                        "$display" | "$write" | "$info" | "$warning" | "$error" | "$fatal" | "$finish" | "$stop" | "$displayb"
                        | "$displayh" | "$displayo" | "$writeb" | "$writeh" | "$writeo" | "$strobe" | "$monitor" | "$dumpfile"
                        | "$dumpvars" => {}
                        _ => return fail(format!("system task {name}")),
                    }
                    for a in args {
                        match a {
                            Expr::Str(_) => {}
                            // arguments are evaluated for their effect on sensitivity only;
                            // what cannot be evaluated (whole arrays, strings) is skipped
                            _ => {
                                if let Ok(x) = self.expr(a, sc, lc) {
                                    v.push(x);
                                }
                            }
                        }
                    }
                    EStmt::SysTask(name.clone(), v)
                }
                Expr::Call(..) => EStmt::CallStmt(self.expr(e, sc, lc)?),
                _ => return fail("expression statement"),
            },
        })
    }

    pub(crate) fn function(&mut self, f: &Function, sc: ScopeId) -> R<FuncId> {
        let mut lc = Locals::default();
        lc.blocks.push(HashMap::new());
        let mut args = vec![];
        for a in &f.args {
            let mut vt = self.resolve_type(&a.decl.ty, sc)?;
            let ud = self.udims(&a.decl.udims, sc)?;
            if !ud.is_empty() || !vt.udims.is_empty() {
                let _ = &mut vt;
                return fail("unpacked array function argument");
            }
            if a.decl.init.is_some() {
                return fail("function argument default");
            }
            let slot = lc.declare(&a.decl.name, vt.clone());
            args.push((slot, vt, a.dir));
        }
        let ret = match &f.ret {
            None => None,
            Some(t) => {
                let vt = self.resolve_type(t, sc)?;
                if !vt.udims.is_empty() {
                    return fail("function returning an unpacked array");
                }
                let slot = lc.vars.len();
                lc.vars.push(vt.clone());
                Some((slot, vt.ty))
            }
        };
        lc.in_func = Some((f.name.clone(), ret.as_ref().map(|r| r.0)));
        let mut body = vec![];
        let mut init = vec![];
        for d in &f.decls {
            self.local_decl(d, sc, &mut lc, &mut body, &mut init)?;
        }
        for s in &f.body {
            body.push(self.stmt(s, sc, &mut lc)?);
        }
        let id = self.m.funcs.len();
        self.m.funcs.push(Rc::new(EFunc {
            name: f.name.clone(),
            args,
            ret,
            locals: lc.vars,
            body,
            reads: lc.reads.into_iter().collect(),
        }));
        Ok(id)
    }

    fn sig_ref(&self, sig: SigId) -> ERef {
        let vt = &self.signals[sig].vt;
        ERef {
            base: Base::Sig(sig),
            uidx: vec![],
            slices: vec![],
            elem_w: vt.ty.width,
            elem_two_state: vt.ty.two_state,
            rest: vt.udims.clone(),
            w: vt.ty.width,
            s: vt.ty.signed,
            two_state: vt.ty.two_state,
        }
    }

    pub(crate) fn process(&mut self, d: Deferred) -> R<()> {
        match d {
            Deferred::Item(sc, Item::Assign { lhs, rhs, line }) => {
                let mut lc = Locals::default();
                let body = self.assignment(&lhs, None, &rhs, false, line, sc, &mut lc)?;
                self.procs.push(Proc {
                    kind: ProcKind::Comb,
                    body,
                    locals: lc.vars,
                    sens: lc.reads.into_iter().collect(),
                    name: format!("{}: assign (line {line})", self.scopes[sc].path),
                });
            }
            Deferred::Item(sc, Item::AlwaysComb(st, line)) => {
                let mut lc = Locals::default();
                let body = self.stmt(&st, sc, &mut lc)?;
                self.procs.push(Proc {
                    kind: ProcKind::Comb,
                    body,
                    locals: lc.vars,
                    sens: lc.reads.into_iter().collect(),
                    name: format!("{}: always_comb (line {line})", self.scopes[sc].path),
                });
            }
            Deferred::Item(sc, Item::AlwaysFf { events, body, line }) => {
                let mut lc = Locals::default();
                let mut ev = vec![];
                for (edge, e) in &events {
                    ev.push((*edge, self.expr(e, sc, &mut lc)?));
                }
                let sens: Vec<SigId> = std::mem::take(&mut lc.reads).into_iter().collect();
                let body = self.stmt(&body, sc, &mut lc)?;
                self.procs.push(Proc {
                    kind: ProcKind::Ff { events: ev },
                    body,
                    locals: lc.vars,
                    sens,
                    name: format!("{}: always_ff (line {line})", self.scopes[sc].path),
                });
            }
            Deferred::Item(..) => {}
            Deferred::ConnIn { parent, sig, expr, name } => {
                let mut lc = Locals::default();
                let target = self.sig_ref(sig);
                let body = if target.rest.is_empty() {
                    let rhs = self.expr(&expr, parent, &mut lc)?;
                    EStmt::Assign {
                        lhs: ELhs::Ref(target),
                        rhs,
                        nonblocking: false,
                        line: 0,
                    }
                } else {
                    let Res::Var(rb) = self.resolve(&expr, parent, &mut lc)? else {
                        return fail("array port connected to something that is not an array");
                    };
                    let src = rb.finish();
                    if src.rest.len() != target.rest.len() {
                        return fail("array port connection with different dimensions");
                    }
                    EStmt::CopyArray {
                        lhs: target,
                        rhs: src,
                        nonblocking: false,
                    }
                };
                self.procs.push(Proc {
                    kind: ProcKind::Comb,
                    body,
                    locals: lc.vars,
                    sens: lc.reads.into_iter().collect(),
                    name: format!("port {name}"),
                });
            }
            Deferred::ConnOut { parent, sig, expr, name } => {
                let mut lc = Locals::default();
                let src = self.sig_ref(sig);
                let body = if src.rest.is_empty() {
                    let lhs = self.lhs(&expr, parent, &mut lc)?;
                    let (w, s) = (src.w, src.s);
                    EStmt::Assign {
                        lhs,
                        rhs: EExpr {
                            k: EK::Read(src),
                            w,
                            s,
                        },
                        nonblocking: false,
                        line: 0,
                    }
                } else {
                    let lhs = self.lhs_ref(&expr, parent, &mut lc)?;
                    if lhs.rest.len() != src.rest.len() {
                        return fail("array port connection with different dimensions");
                    }
                    EStmt::CopyArray {
                        lhs,
                        rhs: src,
                        nonblocking: false,
                    }
                };
                let mut sens: Vec<SigId> = lc.reads.into_iter().collect();
                sens.push(sig);
                self.procs.push(Proc {
                    kind: ProcKind::Comb,
                    body,
                    locals: lc.vars,
                    sens,
                    name: format!("port {name}"),
                });
            }
        }
        Ok(())
    }
}
