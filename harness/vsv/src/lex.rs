//! Lexer for the SystemVerilog subset (IEEE 1800-2017 clause 5).
//!
//! Produces every lexical element, comments and compiler directives
//! included, so that callers can compare token streams (C26) or feed the
//! parser (which drops comments and evaluates the few conditional-compilation
//! directives the emitter writes).

use crate::Unsupported;

#[derive(Clone, Copy, Debug, PartialEq, Eq, Hash)]
pub enum Tk {
    /// simple or escaped identifier, keywords included
    Ident,
    /// `$name`
    SysIdent,
    /// integer literal in any form: `12`, `8'h5a`, `'0`, `4'sb1x0z`
    Number,
    /// real / time literal (`1.5`, `1e3`, `10ns`) — recognised, never evaluated
    Real,
    Str,
    /// operator / punctuation
    Op,
    LineComment,
    BlockComment,
    /// compiler directive with its arguments up to the end of the line
    /// (`` `ifdef X ``, `` `endif ``, `` `timescale … ``) or a macro use
    Directive,
}

#[derive(Clone, Debug, PartialEq, Eq)]
pub struct Token {
    pub kind: Tk,
    pub text: String,
    pub line: u32,
    pub off: usize,
}

impl Token {
    pub fn is_comment(&self) -> bool {
        matches!(self.kind, Tk::LineComment | Tk::BlockComment)
    }
}

const OPS: &[&str] = &[
    "<<<=", ">>>=", "<<<", ">>>", "===", "!==", "==?", "!=?", "<<=", ">>=", "<->", "|->", "|=>", "->", "**", "==",
    "!=", "<=", ">=", "&&", "||", "<<", ">>", "+=", "-=", "*=", "/=", "%=", "&=", "|=", "^=", "++", "--", "~&", "~|",
    "~^", "^~", "::", "+:", "-:", "'{", "##", "#", "@", "(", ")", "[", "]", "{", "}", ",", ";", ":", ".", "?", "=",
    "+", "-", "*", "/", "%", "&", "|", "^", "~", "!", "<", ">", "'", "$",
];

fn is_id_start(c: u8) -> bool {
    c.is_ascii_alphabetic() || c == b'_'
}
fn is_id_char(c: u8) -> bool {
    c.is_ascii_alphanumeric() || c == b'_' || c == b'$'
}

/// Tokenise `src`.  Fails (cleanly) on a byte that starts no SystemVerilog
/// token or on an unterminated comment / string.
pub fn lex(src: &str) -> Result<Vec<Token>, Unsupported> {
    let b = src.as_bytes();
    let mut out = Vec::new();
    let mut i = 0usize;
    let mut line = 1u32;
    let bad = |line: u32, what: &str| Unsupported::new(format!("lex: {what} at line {line}"));
    while i < b.len() {
        let c = b[i];
        if c == b'\n' {
            line += 1;
            i += 1;
            continue;
        }
        if c.is_ascii_whitespace() {
            i += 1;
            continue;
        }
        let start = i;
        let start_line = line;
        let kind;
        if c == b'/' && b.get(i + 1) == Some(&b'/') {
            while i < b.len() && b[i] != b'\n' {
                i += 1;
            }
            // a carriage return before the newline is layout, not comment text
            let mut e = i;
            while e > start && b[e - 1] == b'\r' {
                e -= 1;
            }
            out.push(Token {
                kind: Tk::LineComment,
                text: src[start..e].to_string(),
                line: start_line,
                off: start,
            });
            continue;
        } else if c == b'/' && b.get(i + 1) == Some(&b'*') {
            i += 2;
            loop {
                if i + 1 >= b.len() {
                    return Err(bad(start_line, "unterminated block comment"));
                }
                if b[i] == b'*' && b[i + 1] == b'/' {
                    i += 2;
                    break;
                }
                if b[i] == b'\n' {
                    line += 1;
                }
                i += 1;
            }
            kind = Tk::BlockComment;
        } else if c == b'"' {
            i += 1;
            loop {
                if i >= b.len() {
                    return Err(bad(start_line, "unterminated string"));
                }
                if b[i] == b'\\' {
                    if b.get(i + 1) == Some(&b'\n') {
                        line += 1;
                    }
                    i += 2;
                    continue;
                }
                if b[i] == b'\n' {
                    return Err(bad(start_line, "newline in string"));
                }
                if b[i] == b'"' {
                    i += 1;
                    break;
                }
                i += 1;
            }
            kind = Tk::Str;
        } else if c == b'`' {
            // directive: name, and for the line-oriented ones the rest of the line
            i += 1;
            let ns = i;
            while i < b.len() && is_id_char(b[i]) {
                i += 1;
            }
            let name = &src[ns..i];
            if name.is_empty() {
                return Err(bad(start_line, "stray backquote"));
            }
            match name {
                "ifdef" | "ifndef" | "elsif" | "define" | "undef" | "include" | "timescale" | "default_nettype"
                | "resetall" | "else" | "endif" | "line" | "pragma" | "celldefine" | "endcelldefine" => {
                    while i < b.len() && b[i] != b'\n' {
                        // a trailing line comment is not part of the directive
                        if b[i] == b'/' && b.get(i + 1) == Some(&b'/') {
                            break;
                        }
                        i += 1;
                    }
                    let mut e = i;
                    while e > start && (b[e - 1] as char).is_ascii_whitespace() {
                        e -= 1;
                    }
                    out.push(Token {
                        kind: Tk::Directive,
                        text: src[start..e].split_whitespace().collect::<Vec<_>>().join(" "),
                        line: start_line,
                        off: start,
                    });
                    continue;
                }
                _ => {}
            }
            kind = Tk::Directive;
        } else if c == b'\\' {
            // escaped identifier: up to white space
            i += 1;
            while i < b.len() && !b[i].is_ascii_whitespace() {
                i += 1;
            }
            kind = Tk::Ident;
        } else if is_id_start(c) {
            while i < b.len() && is_id_char(b[i]) {
                i += 1;
            }
            kind = Tk::Ident;
        } else if c == b'$' && b.get(i + 1).is_some_and(|&x| is_id_start(x)) {
            i += 1;
            while i < b.len() && is_id_char(b[i]) {
                i += 1;
            }
            kind = Tk::SysIdent;
        } else if c.is_ascii_digit() || (c == b'\'' && based_start(b, i)) {
            let (k, e) = number(b, i).map_err(|w| bad(start_line, w))?;
            kind = k;
            i = e;
        } else {
            let rest = &src[i..];
            let Some(op) = OPS.iter().find(|o| rest.starts_with(**o)) else {
                return Err(bad(start_line, &format!("unexpected byte {:?}", c as char)));
            };
            i += op.len();
            kind = Tk::Op;
        }
        out.push(Token {
            kind,
            text: src[start..i].to_string(),
            line: start_line,
            off: start,
        });
    }
    Ok(out)
}

/// `'` at `i` starts a based or unbased-unsized literal.
fn based_start(b: &[u8], i: usize) -> bool {
    let mut j = i + 1;
    if matches!(b.get(j), Some(b's' | b'S')) {
        j += 1;
        return matches!(b.get(j), Some(b'b' | b'B' | b'o' | b'O' | b'd' | b'D' | b'h' | b'H'));
    }
    match b.get(j) {
        Some(b'b' | b'B' | b'o' | b'O' | b'd' | b'D' | b'h' | b'H') => true,
        // unbased unsized: '0 '1 'x 'z — not followed by an identifier character
        Some(b'0' | b'1' | b'x' | b'X' | b'z' | b'Z') => !b.get(j + 1).is_some_and(|&c| is_id_char(c)),
        _ => false,
    }
}

fn number(b: &[u8], mut i: usize) -> Result<(Tk, usize), &'static str> {
    let digits = |b: &[u8], mut i: usize| {
        while i < b.len() && (b[i].is_ascii_digit() || b[i] == b'_') {
            i += 1;
        }
        i
    };
    if b[i] != b'\'' {
        i = digits(b, i);
        // real: fraction and/or exponent
        let mut real = false;
        if b.get(i) == Some(&b'.') && b.get(i + 1).is_some_and(|c| c.is_ascii_digit()) {
            i = digits(b, i + 1);
            real = true;
        }
        if matches!(b.get(i), Some(b'e' | b'E')) {
            let mut j = i + 1;
            if matches!(b.get(j), Some(b'+' | b'-')) {
                j += 1;
            }
            if b.get(j).is_some_and(|c| c.is_ascii_digit()) {
                i = digits(b, j);
                real = true;
            }
        }
        if real {
            return Ok((Tk::Real, i));
        }
        // time literal
        for unit in ["fs", "ps", "ns", "us", "ms", "s"] {
            if b[i..].starts_with(unit.as_bytes()) && !b.get(i + unit.len()).is_some_and(|&c| is_id_char(c)) {
                return Ok((Tk::Real, i + unit.len()));
            }
        }
        if b.get(i).is_some_and(|&c| is_id_start(c)) {
            return Err("identifier character right after a number");
        }
        // size followed by a base (white space allowed in between)
        let mut j = i;
        while j < b.len() && (b[j] == b' ' || b[j] == b'\t') {
            j += 1;
        }
        if b.get(j) == Some(&b'\'') && based_start(b, j) && !matches!(b.get(j + 1), Some(b'0' | b'1' | b'x' | b'X' | b'z' | b'Z')) {
            i = j;
        } else {
            return Ok((Tk::Number, i));
        }
    }
    // at the apostrophe
    i += 1;
    if matches!(b.get(i), Some(b's' | b'S')) {
        i += 1;
    }
    match b.get(i) {
        Some(b'b' | b'B' | b'o' | b'O' | b'd' | b'D' | b'h' | b'H') => {
            i += 1;
            while i < b.len() && (b[i] == b' ' || b[i] == b'\t') {
                i += 1;
            }
            let s = i;
            while i < b.len() && (b[i].is_ascii_hexdigit() || matches!(b[i], b'_' | b'x' | b'X' | b'z' | b'Z' | b'?')) {
                i += 1;
            }
            if i == s {
                return Err("based literal without digits");
            }
            if b.get(i).is_some_and(|&c| is_id_char(c)) {
                return Err("identifier character right after a number");
            }
            Ok((Tk::Number, i))
        }
        Some(b'0' | b'1' | b'x' | b'X' | b'z' | b'Z') => Ok((Tk::Number, i + 1)),
        _ => Err("malformed literal"),
    }
}

/// Token texts without comments (the "SV token stream" of C26).  Directives
/// are kept: removing one would change what is compiled.
pub fn code_tokens(toks: &[Token]) -> Vec<&str> {
    toks.iter().filter(|t| !t.is_comment()).map(|t| t.text.as_str()).collect()
}

pub fn comment_tokens(toks: &[Token]) -> Vec<&Token> {
    toks.iter().filter(|t| t.is_comment()).collect()
}
