//! Elaboration of expressions: name resolution, selects, and the
//! self-determined width / signedness of every node (Table 11-21, 11.8.1).

use crate::ast::*;
use crate::elab::{Elab, Ent, FuncState, Locals, R, ScopeId, fail};
use crate::ir::{self, *};
use std::rc::Rc;
use vbv::{BinClass, Bv};

/// A place being resolved: base variable, indices applied so far and the type
/// of what is currently denoted.
pub(crate) struct RefB {
    pub base: Base,
    pub elem_ty: Rc<Ty>,
    pub cur: Rc<Ty>,
    pub signed: bool,
    /// unpacked dimensions not yet indexed
    pub rest: Vec<(i64, i64)>,
    pub uidx: Vec<UIdx>,
    pub slices: Vec<Slice>,
    /// a part-select was applied: nothing may follow (11.5.1)
    pub closed: bool,
}

pub(crate) enum Res {
    Var(RefB),
    Scope(ScopeId),
    ScopeArr(std::collections::BTreeMap<i64, ScopeId>),
    Type(VarTy),
}

/// The packed dimension a select applies to; a packed struct / union is
/// selected like a vector `[n-1:0]` (7.2.1).
fn as_vec_l(t: &Ty, lenient: bool) -> Option<(i64, i64, Rc<Ty>)> {
    match &t.shape {
        Shape::Vec { left, right, elem } => Some((*left, *right, elem.clone())),
        Shape::Struct { .. } => Some((t.width as i64 - 1, 0, Rc::new(Ty::scalar(t.two_state)))),
        // not legal IEEE 1800 (a scalar has no range); accepted as `[0:0]` only on request
        Shape::Scalar => {
            if lenient {
                Some((0, 0, Rc::new(Ty::scalar(t.two_state))))
            } else {
                None
            }
        }
    }
}

fn int_const(v: i64) -> EExpr {
    EExpr {
        k: EK::Const(Bv::from_i64(v, 32, true)),
        w: 32,
        s: true,
    }
}

impl RefB {
    fn new(base: Base, vt: &VarTy) -> RefB {
        RefB {
            base,
            elem_ty: vt.ty.clone(),
            cur: vt.ty.clone(),
            signed: vt.ty.signed,
            rest: vt.udims.clone(),
            uidx: vec![],
            slices: vec![],
            closed: false,
        }
    }

    pub fn finish(self) -> ERef {
        ERef {
            base: self.base,
            uidx: self.uidx,
            slices: self.slices,
            elem_w: self.elem_ty.width,
            elem_two_state: self.elem_ty.two_state,
            rest: self.rest,
            w: self.cur.width,
            s: self.signed,
            two_state: self.cur.two_state,
        }
    }
}

impl Elab {
    fn ent_to_res(&mut self, ent: Ent, name: &str, lc: &mut Locals) -> R<Res> {
        Ok(match ent {
            Ent::Sig(id) => {
                if !lc.lhs_base {
                    lc.reads.insert(id);
                }
                let vt = self.signals[id].vt.clone();
                Res::Var(RefB::new(Base::Sig(id), &vt))
            }
            Ent::Param(vals, vt) => Res::Var(RefB::new(Base::Const(vals), &vt)),
            Ent::Scope(s) => Res::Scope(s),
            Ent::ScopeArr(m) => Res::ScopeArr(m),
            Ent::Type(vt) => Res::Type(vt),
            Ent::Func(_) => return fail(format!("function {name} used without arguments")),
            Ent::Modport => return fail(format!("modport {name} used as a value")),
            Ent::Bad(why) => return fail(why),
        })
    }

    pub(crate) fn resolve(&mut self, e: &Expr, sc: ScopeId, lc: &mut Locals) -> R<Res> {
        match e {
            Expr::Name(p) => {
                if p.scope.is_empty() {
                    if let Some(slot) = lc.lookup(&p.name) {
                        let vt = lc.vars[slot].clone();
                        return Ok(Res::Var(RefB::new(Base::Local(slot), &vt)));
                    }
                    if let Some((vals, vt)) = lc.consts.get(&p.name) {
                        return Ok(Res::Var(RefB::new(Base::Const(vals.clone()), vt)));
                    }
                    if let Some((fname, Some(slot))) = &lc.in_func {
                        if *fname == p.name {
                            let vt = lc.vars[*slot].clone();
                            return Ok(Res::Var(RefB::new(Base::Local(*slot), &vt)));
                        }
                    }
                }
                let Some(ent) = self.lookup_path(sc, p)? else {
                    return fail(format!("unknown name {}", p.name));
                };
                self.ent_to_res(ent, &p.name, lc)
            }
            Expr::Member(b, name) => match self.resolve(b, sc, lc)? {
                Res::Scope(s) => {
                    let Some(ent) = self.scopes[s].names.get(name).cloned() else {
                        return fail(format!("unknown member {name}"));
                    };
                    self.ent_to_res(ent, name, lc)
                }
                Res::Var(mut rb) => {
                    if !rb.rest.is_empty() || rb.closed {
                        return fail("member of an array / part-select");
                    }
                    let Shape::Struct { fields, union } = &rb.cur.shape else {
                        return fail(format!("member {name} of something that is not a struct"));
                    };
                    let Some(i) = fields.iter().position(|f| f.0 == *name) else {
                        return fail(format!("unknown struct member {name}"));
                    };
                    let lo: usize = if *union { 0 } else { fields[i + 1..].iter().map(|f| f.1.width).sum() };
                    let fty = fields[i].1.clone();
                    rb.slices.push(Slice {
                        kind: SliceKind::Const { lo: lo as i64 },
                        width: fty.width,
                    });
                    rb.signed = fty.signed;
                    rb.cur = fty;
                    Ok(Res::Var(rb))
                }
                _ => fail(format!("member {name} of a type or block array")),
            },
            Expr::Index(b, i) => match self.resolve(b, sc, lc)? {
                Res::ScopeArr(m) => {
                    let i = self.const_i64(i, sc)?;
                    match m.get(&i) {
                        Some(s) => Ok(Res::Scope(*s)),
                        None => fail("generate block index does not exist"),
                    }
                }
                Res::Var(mut rb) => {
                    let saved = std::mem::replace(&mut lc.lhs_base, false);
                    let ie = self.expr(i, sc, lc);
                    lc.lhs_base = saved;
                    let ie = ie?;
                    if rb.closed {
                        return fail("select of a part-select");
                    }
                    if !rb.rest.is_empty() {
                        let (left, right) = rb.rest.remove(0);
                        let stride = rb.rest.iter().map(|(l, r)| (l - r).unsigned_abs() as usize + 1).product();
                        rb.uidx.push(UIdx {
                            e: ie,
                            left,
                            right,
                            stride,
                        });
                        return Ok(Res::Var(rb));
                    }
                    let Some((left, right, elem)) = as_vec_l(&rb.cur, self.lenient_scalar_select) else {
                        return fail("bit-select of a scalar");
                    };
                    rb.slices.push(Slice {
                        kind: SliceKind::Index {
                            e: Box::new(ie),
                            left,
                            right,
                            elem_w: elem.width,
                        },
                        width: elem.width,
                    });
                    rb.signed = !matches!(elem.shape, Shape::Scalar) && elem.signed;
                    rb.cur = elem;
                    Ok(Res::Var(rb))
                }
                _ => fail("index applied to a scope or type"),
            },
            Expr::Range(b, l, r) => {
                let Res::Var(mut rb) = self.resolve(b, sc, lc)? else {
                    return fail("part-select of a scope or type");
                };
                if !rb.rest.is_empty() {
                    return fail("slice of an unpacked array");
                }
                if rb.closed {
                    return fail("select of a part-select");
                }
                let Some((left, right, elem)) = as_vec_l(&rb.cur, self.lenient_scalar_select) else {
                    return fail("part-select of a scalar");
                };
                let (l, r) = (self.const_i64_lc(l, sc, lc)?, self.const_i64_lc(r, sc, lc)?);
                let ew = elem.width as i64;
                let (lo, n) = if left >= right {
                    if l < r {
                        return fail("part-select in the reverse direction");
                    }
                    ((r - right) * ew, l - r + 1)
                } else {
                    if l > r {
                        return fail("part-select in the reverse direction");
                    }
                    ((right - r) * ew, r - l + 1)
                };
                if n > (1 << 20) {
                    return fail("part-select too wide");
                }
                let width = (n * ew) as usize;
                let two = rb.cur.two_state;
                rb.slices.push(Slice {
                    kind: SliceKind::Const { lo },
                    width,
                });
                rb.cur = Rc::new(Ty::vector(width, false, two));
                rb.signed = false;
                rb.closed = true;
                Ok(Res::Var(rb))
            }
            Expr::PlusRange(b, base, cnt) | Expr::MinusRange(b, base, cnt) => {
                let plus = matches!(e, Expr::PlusRange(..));
                let Res::Var(mut rb) = self.resolve(b, sc, lc)? else {
                    return fail("part-select of a scope or type");
                };
                if !rb.rest.is_empty() {
                    return fail("slice of an unpacked array");
                }
                if rb.closed {
                    return fail("select of a part-select");
                }
                let Some((left, right, elem)) = as_vec_l(&rb.cur, self.lenient_scalar_select) else {
                    return fail("part-select of a scalar");
                };
                let ew = elem.width;
                let count = self.const_i64_lc(cnt, sc, lc)?;
                if count <= 0 || count > (1 << 20) {
                    return fail("indexed part-select width");
                }
                let count = count as usize;
                let saved = std::mem::replace(&mut lc.lhs_base, false);
                let be = self.expr(base, sc, lc);
                lc.lhs_base = saved;
                let be = Box::new(be?);
                let width = count * ew;
                let two = rb.cur.two_state;
                rb.slices.push(Slice {
                    kind: if plus {
                        SliceKind::Plus {
                            e: be,
                            left,
                            right,
                            elem_w: ew,
                            count,
                        }
                    } else {
                        SliceKind::Minus {
                            e: be,
                            left,
                            right,
                            elem_w: ew,
                            count,
                        }
                    },
                    width,
                });
                rb.cur = Rc::new(Ty::vector(width, false, two));
                rb.signed = false;
                rb.closed = true;
                Ok(Res::Var(rb))
            }
            Expr::Concat(_) | Expr::Call(..) | Expr::Repl(..) => {
                // a computed value that is selected from (`{a, b}[i]`, `f(x)[3:0]` are
                // written by the emitter only through a temporary, but be complete)
                let v = self.expr(e, sc, lc)?;
                let vt = VarTy {
                    ty: Rc::new(Ty::vector(v.w, v.s, false)),
                    udims: vec![],
                };
                Ok(Res::Var(RefB::new(Base::Value(Box::new(v)), &vt)))
            }
            _ => fail("expression is not a name"),
        }
    }

    /// Elaborate an lvalue.
    pub(crate) fn lhs(&mut self, e: &Expr, sc: ScopeId, lc: &mut Locals) -> R<ELhs> {
        match e {
            Expr::Concat(parts) => {
                let mut v = vec![];
                for p in parts {
                    v.push(self.lhs(p, sc, lc)?);
                }
                Ok(ELhs::Concat(v))
            }
            _ => Ok(ELhs::Ref(self.lhs_ref(e, sc, lc)?)),
        }
    }

    pub(crate) fn lhs_ref(&mut self, e: &Expr, sc: ScopeId, lc: &mut Locals) -> R<ERef> {
        let saved = std::mem::replace(&mut lc.lhs_base, true);
        let r = self.resolve(e, sc, lc);
        lc.lhs_base = saved;
        match r? {
            Res::Var(rb) => {
                if matches!(rb.base, Base::Const(_) | Base::Value(_)) {
                    return fail("assignment to a constant");
                }
                Ok(rb.finish())
            }
            _ => fail("assignment target is not a variable"),
        }
    }

    fn un(&self, op: UnOp, x: EExpr) -> EExpr {
        let ctx = matches!(op, UnOp::Plus | UnOp::Minus | UnOp::BitNot);
        let (w, s) = if ctx { (x.w, x.s) } else { (1, false) };
        EExpr {
            k: EK::Un(op, Box::new(x)),
            w,
            s,
        }
    }

    pub(crate) fn bin(op: BinOp, x: EExpr, y: EExpr) -> EExpr {
        let (w, s) = match op.class() {
            BinClass::Arith => (x.w.max(y.w), x.s && y.s),
            BinClass::ShiftPow => (x.w, x.s),
            BinClass::Compare | BinClass::Logical => (1, false),
        };
        EExpr {
            k: EK::Bin(op, Box::new(x), Box::new(y)),
            w,
            s,
        }
    }

    pub(crate) fn cast_to(ty: &Ty, e: EExpr) -> EExpr {
        EExpr {
            k: EK::Cast {
                w: ty.width,
                s: Some(ty.signed),
                two_state: ty.two_state,
                e: Box::new(e),
            },
            w: ty.width,
            s: ty.signed,
        }
    }

    /// Ensure function slot `idx` is elaborated.
    pub(crate) fn func_id(&mut self, idx: usize) -> R<FuncId> {
        match self.func_slots[idx].state {
            FuncState::Done(id) => Ok(id),
            FuncState::InProgress => fail("recursive function"),
            FuncState::NotYet => {
                self.func_slots[idx].state = FuncState::InProgress;
                let ast = self.func_slots[idx].ast.clone();
                let sc = self.func_slots[idx].scope;
                match self.function(&ast, sc) {
                    Ok(id) => {
                        self.func_slots[idx].state = FuncState::Done(id);
                        Ok(id)
                    }
                    Err(e) => {
                        self.func_slots[idx].state = FuncState::NotYet;
                        Err(e)
                    }
                }
            }
        }
    }

    /// `T'{…}` for a packed struct: concatenation of the members, each in the
    /// assignment context of its member (10.9.2).
    pub(crate) fn struct_pattern(&mut self, ty: &Rc<Ty>, items: &[PatItem], sc: ScopeId, lc: &mut Locals) -> R<EExpr> {
        match &ty.shape {
            Shape::Struct { fields, union: false } => {
                let mut per: Vec<Option<&Expr>> = vec![None; fields.len()];
                let mut default = None;
                let mut pos = 0;
                for it in items {
                    match &it.key {
                        PatKey::Positional => {
                            if pos >= fields.len() {
                                return fail("struct pattern with too many members");
                            }
                            per[pos] = Some(&it.value);
                            pos += 1;
                        }
                        PatKey::Default => default = Some(&it.value),
                        PatKey::Key(Expr::Name(p)) if p.scope.is_empty() => {
                            let Some(i) = fields.iter().position(|f| f.0 == p.name) else {
                                return fail(format!("pattern key {} is not a member", p.name));
                            };
                            per[i] = Some(&it.value);
                        }
                        PatKey::Key(_) => return fail("struct pattern key"),
                    }
                }
                let mut parts = vec![];
                for (i, (name, fty)) in fields.iter().enumerate() {
                    let Some(e) = per[i].or(default) else {
                        return fail(format!("struct pattern leaves member {name} unassigned"));
                    };
                    let v = match e {
                        Expr::Pattern(None, inner) => self.struct_pattern(fty, inner, sc, lc)?,
                        _ => self.expr(e, sc, lc)?,
                    };
                    parts.push(Self::cast_to(fty, v));
                }
                Ok(EExpr {
                    k: EK::Concat(parts),
                    w: ty.width,
                    s: false,
                })
            }
            Shape::Vec { left, right, elem } => {
                // packed array pattern: elements left to right
                let n = (left - right).unsigned_abs() as usize + 1;
                let mut per: Vec<Option<&Expr>> = vec![None; n];
                let mut default = None;
                let mut pos = 0;
                for it in items {
                    match &it.key {
                        PatKey::Positional => {
                            if pos >= n {
                                return fail("array pattern with too many elements");
                            }
                            per[pos] = Some(&it.value);
                            pos += 1;
                        }
                        PatKey::Default => default = Some(&it.value),
                        PatKey::Key(k) => {
                            let i = self.const_i64(k, sc)?;
                            if i < *left.min(right) || i > *left.max(right) {
                                return fail("array pattern index out of range");
                            }
                            per[(i - left).unsigned_abs() as usize] = Some(&it.value);
                        }
                    }
                }
                let mut parts = vec![];
                for p in per {
                    let Some(e) = p.or(default) else {
                        return fail("array pattern does not cover every element");
                    };
                    let v = match e {
                        Expr::Pattern(None, inner) => self.struct_pattern(elem, inner, sc, lc)?,
                        _ => self.expr(e, sc, lc)?,
                    };
                    parts.push(Self::cast_to(elem, v));
                }
                Ok(EExpr {
                    k: EK::Concat(parts),
                    w: ty.width,
                    s: false,
                })
            }
            _ => fail("assignment pattern for a scalar or union"),
        }
    }

    fn type_of_arg(&mut self, e: &Expr, sc: ScopeId, lc: &mut Locals) -> R<(VarTy, bool)> {
        // (type, is a type rather than a value)
        if let Expr::Type(t) = e {
            return Ok((self.resolve_type(t, sc)?, true));
        }
        if matches!(e, Expr::Name(_) | Expr::Member(..) | Expr::Index(..) | Expr::Range(..) | Expr::PlusRange(..) | Expr::MinusRange(..)) {
            let saved = std::mem::replace(&mut lc.lhs_base, true); // not a read
            let r = self.resolve(e, sc, lc);
            lc.lhs_base = saved;
            match r? {
                Res::Type(vt) => return Ok((vt, true)),
                Res::Var(rb) => {
                    let mut cur = (*rb.cur).clone();
                    cur.signed = rb.signed;
                    return Ok((
                        VarTy {
                            ty: Rc::new(cur),
                            udims: rb.rest,
                        },
                        false,
                    ));
                }
                _ => return fail("scope used as a value"),
            }
        }
        let mut tmp = Locals {
            vars: lc.vars.clone(),
            blocks: lc.blocks.clone(),
            in_func: lc.in_func.clone(),
            consts: lc.consts.clone(),
            ..Default::default()
        };
        let v = self.expr(e, sc, &mut tmp)?;
        Ok((
            VarTy {
                ty: Rc::new(Ty::vector(v.w, v.s, false)),
                udims: vec![],
            },
            false,
        ))
    }

    fn sys_call(&mut self, name: &str, args: &[Expr], sc: ScopeId, lc: &mut Locals) -> R<EExpr> {
        let one = |args: &[Expr]| -> R<()> {
            if args.len() == 1 { Ok(()) } else { fail(format!("{name} expects one argument")) }
        };
        match name {
            "$signed" | "$unsigned" => {
                one(args)?;
                let x = self.expr(&args[0], sc, lc)?;
                let w = x.w;
                Ok(EExpr {
                    k: EK::SignCast(name == "$signed", Box::new(x)),
                    w,
                    s: name == "$signed",
                })
            }
            "$bits" => {
                one(args)?;
                let (vt, _) = self.type_of_arg(&args[0], sc, lc)?;
                Ok(int_const((vt.ty.width * vt.elems()) as i64))
            }
            "$size" | "$left" | "$right" | "$high" | "$low" | "$increment" | "$dimensions" | "$unpacked_dimensions" => {
                if args.is_empty() || args.len() > 2 {
                    return fail(format!("{name} arguments"));
                }
                let (vt, _) = self.type_of_arg(&args[0], sc, lc)?;
                // dimensions: unpacked first, then packed from the outermost
                let mut dims = vt.udims.clone();
                let mut t = vt.ty.clone();
                loop {
                    match &t.shape {
                        Shape::Vec { left, right, elem } => {
                            dims.push((*left, *right));
                            let e = elem.clone();
                            t = e;
                        }
                        Shape::Struct { .. } => {
                            dims.push((t.width as i64 - 1, 0));
                            break;
                        }
                        Shape::Scalar => break,
                    }
                }
                if name == "$dimensions" {
                    return Ok(int_const(dims.len() as i64));
                }
                if name == "$unpacked_dimensions" {
                    return Ok(int_const(vt.udims.len() as i64));
                }
                let d = if args.len() == 2 { self.const_i64(&args[1], sc)? } else { 1 };
                if d < 1 || d as usize > dims.len() {
                    return fail(format!("{name}: dimension {d} does not exist"));
                }
                let (l, r) = dims[d as usize - 1];
                Ok(int_const(match name {
                    "$size" => (l - r).abs() + 1,
                    "$left" => l,
                    "$right" => r,
                    "$high" => l.max(r),
                    "$low" => l.min(r),
                    _ => {
                        if l >= r {
                            1
                        } else {
                            -1
                        }
                    }
                }))
            }
            "$clog2" | "$countones" | "$onehot" | "$onehot0" | "$isunknown" => {
                one(args)?;
                let x = self.expr(&args[0], sc, lc)?;
                let (f, w, s) = match name {
                    "$clog2" => (SysFn::Clog2, 32, true),
                    "$countones" => (SysFn::Countones, 32, true),
                    "$onehot" => (SysFn::Onehot, 1, false),
                    "$onehot0" => (SysFn::Onehot0, 1, false),
                    _ => (SysFn::Isunknown, 1, false),
                };
                Ok(EExpr {
                    k: EK::Sys(f, Box::new(x)),
                    w,
                    s,
                })
            }
            _ => fail(format!("system function {name}")),
        }
    }

    pub(crate) fn inside_items(&mut self, items: &[crate::ast::InsideItem], sc: ScopeId, lc: &mut Locals) -> R<Vec<ir::InsideItem>> {
        let mut v = vec![];
        for it in items {
            v.push(match it {
                crate::ast::InsideItem::Val(x) => ir::InsideItem::Val(self.expr(x, sc, lc)?),
                crate::ast::InsideItem::Range(l, h) => ir::InsideItem::Range(self.expr(l, sc, lc)?, self.expr(h, sc, lc)?),
            });
        }
        Ok(v)
    }

    pub(crate) fn expr(&mut self, e: &Expr, sc: ScopeId, lc: &mut Locals) -> R<EExpr> {
        Ok(match e {
            Expr::Num(v) => EExpr {
                k: EK::Const(v.clone()),
                w: v.width(),
                s: v.signed(),
            },
            Expr::Fill(b) => EExpr {
                k: EK::Fill(*b),
                w: 1,
                s: false,
            },
            Expr::Str(_) => return fail("string in an expression"),
            Expr::Real(_) => return fail("real number"),
            Expr::Type(_) => return fail("data type used as a value"),
            Expr::Name(_) | Expr::Member(..) | Expr::Index(..) | Expr::Range(..) | Expr::PlusRange(..) | Expr::MinusRange(..) => {
                match self.resolve(e, sc, lc)? {
                    Res::Var(rb) => {
                        let r = rb.finish();
                        if !r.rest.is_empty() {
                            return fail("whole unpacked array used as a value");
                        }
                        // fold plain constants
                        if let (Base::Const(v), true, true) = (&r.base, r.uidx.is_empty(), r.slices.is_empty()) {
                            let v = v[0].with_signed(r.s);
                            return Ok(EExpr {
                                w: v.width(),
                                s: v.signed(),
                                k: EK::Const(v),
                            });
                        }
                        let (w, s) = (r.w, r.s);
                        EExpr { k: EK::Read(r), w, s }
                    }
                    Res::Type(_) => return fail("type name used as a value"),
                    _ => return fail("scope name used as a value"),
                }
            }
            Expr::Unary(op, x) => {
                let x = self.expr(x, sc, lc)?;
                self.un(*op, x)
            }
            Expr::Binary(op, x, y) => {
                let x = self.expr(x, sc, lc)?;
                let y = self.expr(y, sc, lc)?;
                Self::bin(*op, x, y)
            }
            Expr::Cond(c, a, b) => {
                let c = self.expr(c, sc, lc)?;
                let a = self.expr(a, sc, lc)?;
                let b = self.expr(b, sc, lc)?;
                let (w, s) = (a.w.max(b.w), a.s && b.s);
                EExpr {
                    k: EK::Cond(Box::new(c), Box::new(a), Box::new(b)),
                    w,
                    s,
                }
            }
            Expr::Concat(xs) => {
                let mut v = vec![];
                for x in xs {
                    v.push(self.expr(x, sc, lc)?);
                }
                let w = v.iter().map(|x| x.w).sum();
                EExpr {
                    k: EK::Concat(v),
                    w,
                    s: false,
                }
            }
            Expr::Repl(n, xs) => {
                let n = self.const_i64_lc(n, sc, lc)?;
                if n <= 0 || n > (1 << 20) {
                    return fail("replication count");
                }
                let mut v = vec![];
                for x in xs {
                    v.push(self.expr(x, sc, lc)?);
                }
                let iw: usize = v.iter().map(|x| x.w).sum();
                let inner = if v.len() == 1 {
                    v.pop().unwrap()
                } else {
                    EExpr {
                        k: EK::Concat(v),
                        w: iw,
                        s: false,
                    }
                };
                let w = iw * n as usize;
                if w > (1 << 22) {
                    return fail("replication too wide");
                }
                EExpr {
                    k: EK::Repl(n as usize, Box::new(inner)),
                    w,
                    s: false,
                }
            }
            Expr::Call(p, args) => {
                let Some(ent) = self.lookup_path(sc, p)? else {
                    return fail(format!("unknown function {}", p.name));
                };
                let Ent::Func(idx) = ent else {
                    return fail(format!("{} is not a function", p.name));
                };
                let id = self.func_id(idx)?;
                let f = self.m.funcs[id].clone();
                if f.args.len() != args.len() {
                    return fail("call with a different number of arguments (defaults are not modelled)");
                }
                if f.args.iter().any(|a| a.2 != Dir::Input) {
                    return fail("function with output arguments");
                }
                let mut v = vec![];
                for a in args {
                    v.push(self.expr(a, sc, lc)?);
                }
                lc.reads.extend(f.reads.iter().copied());
                let (w, s) = match &f.ret {
                    Some((_, t)) => (t.width, t.signed),
                    None => (1, false),
                };
                EExpr {
                    k: EK::Call(id, v),
                    w,
                    s,
                }
            }
            Expr::SysCall(name, args) => self.sys_call(name, args, sc, lc)?,
            Expr::Cast(target, x) => match &**target {
                CastTarget::Sign(sg) => {
                    let x = self.expr(x, sc, lc)?;
                    let w = x.w;
                    EExpr {
                        k: EK::SignCast(*sg, Box::new(x)),
                        w,
                        s: *sg,
                    }
                }
                CastTarget::Const => self.expr(x, sc, lc)?,
                CastTarget::Type(t) => {
                    let vt = self.resolve_type(t, sc)?;
                    if !vt.udims.is_empty() {
                        return fail("cast to an unpacked type");
                    }
                    let x = self.expr(x, sc, lc)?;
                    Self::cast_to(&vt.ty, x)
                }
                CastTarget::Expr(t) => {
                    // a type name or a size
                    let as_type = match t {
                        Expr::Name(p) => match self.lookup_path(sc, p)? {
                            Some(Ent::Type(vt)) if p.scope.is_empty() && lc.lookup(&p.name).is_some() => {
                                let _ = vt;
                                None
                            }
                            Some(Ent::Type(vt)) => Some(vt),
                            _ => None,
                        },
                        _ => None,
                    };
                    let inner = match (&**x, &as_type) {
                        (Expr::Pattern(None, items), Some(vt)) => self.struct_pattern(&vt.ty.clone(), items, sc, lc)?,
                        _ => self.expr(x, sc, lc)?,
                    };
                    match as_type {
                        Some(vt) => {
                            if !vt.udims.is_empty() {
                                return fail("cast to an unpacked type");
                            }
                            Self::cast_to(&vt.ty, inner)
                        }
                        None => {
                            let n = self.const_i64_lc(t, sc, lc)?;
                            if n <= 0 || n > (1 << 22) {
                                return fail("cast size");
                            }
                            let s = inner.s;
                            EExpr {
                                k: EK::Cast {
                                    w: n as usize,
                                    s: None,
                                    two_state: false,
                                    e: Box::new(inner),
                                },
                                w: n as usize,
                                s,
                            }
                        }
                    }
                }
            },
            Expr::Inside(x, items) => {
                let x = self.expr(x, sc, lc)?;
                let items = self.inside_items(items, sc, lc)?;
                EExpr {
                    k: EK::Inside(Box::new(x), items),
                    w: 1,
                    s: false,
                }
            }
            Expr::Pattern(Some(t), items) => {
                let vt = self.resolve_type(t, sc)?;
                if !vt.udims.is_empty() {
                    return fail("typed pattern of an unpacked type");
                }
                let e = self.struct_pattern(&vt.ty, items, sc, lc)?;
                Self::cast_to(&vt.ty, e)
            }
            Expr::Pattern(None, _) => return fail("assignment pattern outside an assignment"),
        })
    }
}
