//! Elaboration: scopes, parameters, types, hierarchy, generate constructs.
//! Expressions and statements are in `elab_expr.rs` / `elab_stmt.rs`.

use crate::Unsupported;
use crate::ast::*;
use crate::exec::Machine;
use crate::ir::*;
use std::collections::{BTreeMap, BTreeSet, HashMap};
use std::rc::Rc;
use vbv::Bv;

pub(crate) type R<T> = Result<T, Unsupported>;
pub(crate) type ScopeId = usize;

pub(crate) fn fail<T>(s: impl Into<String>) -> R<T> {
    Err(Unsupported::new(s.into()))
}

#[derive(Clone, Debug)]
pub(crate) enum Ent {
    Sig(SigId),
    /// values (one per unpacked element) and type
    Param(Rc<Vec<Bv>>, VarTy),
    Type(VarTy),
    Func(usize),
    Scope(ScopeId),
    ScopeArr(BTreeMap<i64, ScopeId>),
    Modport,
    /// declared, but of a kind this front end does not model (real, string, …)
    Bad(String),
}

#[derive(Default)]
pub(crate) struct Scope {
    pub parent: Option<ScopeId>,
    pub names: HashMap<String, Ent>,
    /// wildcard imports
    pub imports: Vec<ScopeId>,
    pub path: String,
}

pub(crate) enum FuncState {
    NotYet,
    InProgress,
    Done(FuncId),
}

pub(crate) struct FuncSlot {
    pub ast: Rc<Function>,
    pub scope: ScopeId,
    pub state: FuncState,
}

/// Names of procedural code: automatic variables in nested blocks.
#[derive(Default)]
pub(crate) struct Locals {
    pub vars: Vec<VarTy>,
    pub blocks: Vec<HashMap<String, Slot>>,
    /// signals read (sensitivity of always_comb / assign, 9.2.2.2.1)
    pub reads: BTreeSet<SigId>,
    pub in_func: Option<(String, Option<Slot>)>,
    /// resolving the target of an assignment: the base variable is not a read
    pub lhs_base: bool,
    /// `localparam` of procedural blocks / functions
    pub consts: HashMap<String, (Rc<Vec<Bv>>, VarTy)>,
}

impl Locals {
    pub fn lookup(&self, name: &str) -> Option<Slot> {
        self.blocks.iter().rev().find_map(|b| b.get(name).copied())
    }
    pub fn declare(&mut self, name: &str, vt: VarTy) -> Slot {
        let s = self.vars.len();
        self.vars.push(vt);
        if self.blocks.is_empty() {
            self.blocks.push(HashMap::new());
        }
        self.blocks.last_mut().unwrap().insert(name.to_string(), s);
        s
    }
}

pub(crate) enum Override {
    Value(Bv),
    Type(VarTy),
}

pub(crate) enum Deferred {
    Item(ScopeId, Item),
    /// input port: child signal ← expression of the parent scope
    ConnIn { parent: ScopeId, sig: SigId, expr: Expr, name: String },
    /// output port: lvalue of the parent scope ← child signal
    ConnOut { parent: ScopeId, sig: SigId, expr: Expr, name: String },
}

pub struct Elab {
    pub(crate) units: HashMap<String, Rc<Unit>>,
    pub m: Machine,
    pub signals: Vec<Signal>,
    pub procs: Vec<Proc>,
    pub ports: Vec<PortInfo>,
    pub notes: Vec<String>,
    pub(crate) scopes: Vec<Scope>,
    pub(crate) packages: HashMap<String, ScopeId>,
    pub(crate) pkg_in_progress: BTreeSet<String>,
    pub(crate) unit_scope: ScopeId,
    pub(crate) func_slots: Vec<FuncSlot>,
    pub(crate) deferred: Vec<Deferred>,
    /// local parameters visible to constant expressions of local declarations
    pub(crate) cur_consts: HashMap<String, (Rc<Vec<Bv>>, VarTy)>,
    /// accept bit- / part-selects of scalars as selects of `[0:0]` (tool extension, not 1800)
    pub lenient_scalar_select: bool,
    depth: usize,
}

impl Elab {
    pub fn new(src: &[SourceText]) -> R<Elab> {
        Elab::with_options(src, false)
    }

    pub fn with_options(src: &[SourceText], lenient_scalar_select: bool) -> R<Elab> {
        let mut units = HashMap::new();
        let mut unit_items = vec![];
        for s in src {
            for u in &s.units {
                if units.insert(u.name.clone(), u.clone()).is_some() {
                    return fail(format!("design unit {} defined twice", u.name));
                }
            }
            unit_items.extend(s.unit_items.iter().cloned());
        }
        let mut e = Elab {
            units,
            m: Machine::default(),
            signals: vec![],
            procs: vec![],
            ports: vec![],
            notes: vec![],
            scopes: vec![Scope {
                path: "$unit".into(),
                ..Default::default()
            }],
            packages: HashMap::new(),
            pkg_in_progress: BTreeSet::new(),
            unit_scope: 0,
            func_slots: vec![],
            deferred: vec![],
            cur_consts: HashMap::new(),
            lenient_scalar_select: false,
            depth: 0,
        };
        e.m.const_only = true;
        e.lenient_scalar_select = lenient_scalar_select;
        e.items(&unit_items, 0)?;
        Ok(e)
    }

    pub(crate) fn new_scope(&mut self, parent: Option<ScopeId>, path: String) -> ScopeId {
        self.scopes.push(Scope {
            parent,
            path,
            ..Default::default()
        });
        self.scopes.len() - 1
    }

    pub(crate) fn declare(&mut self, sc: ScopeId, name: &str, ent: Ent) -> R<()> {
        if self.scopes[sc].names.insert(name.to_string(), ent).is_some() {
            return fail(format!("name {name} declared twice in {}", self.scopes[sc].path));
        }
        Ok(())
    }

    pub(crate) fn lookup_in(&self, sc: ScopeId, name: &str) -> Option<Ent> {
        if let Some(e) = self.scopes[sc].names.get(name) {
            return Some(e.clone());
        }
        for &imp in &self.scopes[sc].imports {
            if let Some(e) = self.scopes[imp].names.get(name) {
                return Some(e.clone());
            }
        }
        None
    }

    pub(crate) fn lookup(&self, mut sc: ScopeId, name: &str) -> Option<Ent> {
        loop {
            if let Some(e) = self.lookup_in(sc, name) {
                return Some(e);
            }
            match self.scopes[sc].parent {
                Some(p) => sc = p,
                None => break,
            }
        }
        if sc != self.unit_scope {
            return self.lookup_in(self.unit_scope, name);
        }
        None
    }

    pub(crate) fn package(&mut self, name: &str) -> R<ScopeId> {
        if let Some(&s) = self.packages.get(name) {
            return Ok(s);
        }
        let Some(u) = self.units.get(name).cloned() else {
            return fail(format!("unknown package {name}"));
        };
        if u.kind != UnitKind::Package {
            return fail(format!("{name} is not a package"));
        }
        if !self.pkg_in_progress.insert(name.to_string()) {
            return fail(format!("package {name} depends on itself"));
        }
        let sc = self.new_scope(Some(self.unit_scope), name.to_string());
        // visible to its own items (functions calling each other through pkg::)
        self.packages.insert(name.to_string(), sc);
        let r = self.items(&u.items, sc);
        self.pkg_in_progress.remove(name);
        r?;
        Ok(sc)
    }

    pub(crate) fn lookup_path(&mut self, sc: ScopeId, p: &Path) -> R<Option<Ent>> {
        if p.scope.is_empty() {
            return Ok(self.lookup(sc, &p.name));
        }
        if p.scope.len() > 1 {
            return fail(format!("nested scope resolution {}::…", p.scope.join("::")));
        }
        let s = if p.scope[0] == "$unit" { self.unit_scope } else { self.package(&p.scope[0])? };
        Ok(self.scopes[s].names.get(&p.name).cloned())
    }

    // ----- constants -----------------------------------------------------------

    pub(crate) fn const_eval(&mut self, e: &Expr, sc: ScopeId) -> R<Bv> {
        let mut lc = Locals {
            consts: self.cur_consts.clone(),
            ..Default::default()
        };
        let ee = self.expr(e, sc, &mut lc)?;
        let saved = self.m.const_only;
        self.m.const_only = true;
        let r = self.m.eval_self(&ee);
        self.m.const_only = saved;
        r
    }

    /// Constant expression inside procedural code: local names are visible
    /// (for `$size(local)`, `$bits(local)`, local parameters), their values are not.
    pub(crate) fn const_i64_lc(&mut self, e: &Expr, sc: ScopeId, lc: &Locals) -> R<i64> {
        let mut tmp = Locals {
            vars: lc.vars.clone(),
            blocks: lc.blocks.clone(),
            in_func: lc.in_func.clone(),
            consts: lc.consts.clone(),
            ..Default::default()
        };
        let ee = self.expr(e, sc, &mut tmp)?;
        let saved = self.m.const_only;
        self.m.const_only = true;
        let r = self.m.eval_self(&ee);
        self.m.const_only = saved;
        match r?.to_bigint().and_then(|i| i64::try_from(i).ok()) {
            Some(i) => Ok(i),
            None => fail("constant expression is unknown or too large"),
        }
    }

    pub(crate) fn const_i64(&mut self, e: &Expr, sc: ScopeId) -> R<i64> {
        let v = self.const_eval(e, sc)?;
        match v.to_bigint().and_then(|i| i64::try_from(i).ok()) {
            Some(i) => Ok(i),
            None => fail("constant expression is unknown or too large"),
        }
    }

    // ----- types ---------------------------------------------------------------

    fn dims(&mut self, dims: &[(Expr, Expr)], sc: ScopeId) -> R<Vec<(i64, i64)>> {
        let mut v = vec![];
        for (l, r) in dims {
            let (l, r) = (self.const_i64(l, sc)?, self.const_i64(r, sc)?);
            if (l - r).unsigned_abs() > (1 << 20) {
                return fail("dimension too large");
            }
            v.push((l, r));
        }
        Ok(v)
    }

    pub(crate) fn udims(&mut self, ud: &[UDim], sc: ScopeId) -> R<Vec<(i64, i64)>> {
        let mut v = vec![];
        for d in ud {
            match d {
                UDim::Size(n) => {
                    let n = self.const_i64(n, sc)?;
                    if n <= 0 || n > (1 << 20) {
                        return fail("unpacked dimension size");
                    }
                    v.push((0, n - 1));
                }
                UDim::Range(l, r) => {
                    let (l, r) = (self.const_i64(l, sc)?, self.const_i64(r, sc)?);
                    if (l - r).unsigned_abs() > (1 << 20) {
                        return fail("dimension too large");
                    }
                    v.push((l, r));
                }
            }
        }
        Ok(v)
    }

    fn wrap_dims(elem: Rc<Ty>, dims: &[(i64, i64)], signed: bool) -> Rc<Ty> {
        if dims.is_empty() {
            if signed == elem.signed {
                return elem;
            }
            let mut t = (*elem).clone();
            t.signed = signed;
            return Rc::new(t);
        }
        let mut cur = elem;
        for (k, (l, r)) in dims.iter().enumerate().rev() {
            cur = Rc::new(Ty::dim(*l, *r, cur, k == 0 && signed));
        }
        cur
    }

    /// Resolve a data type.  Enum variants are declared into `sc`.
    pub(crate) fn resolve_type(&mut self, dt: &DataType, sc: ScopeId) -> R<VarTy> {
        let packed = |ty: Rc<Ty>| VarTy { ty, udims: vec![] };
        Ok(match dt {
            DataType::Vector { kind, signed, dims } => {
                let d = self.dims(dims, sc)?;
                let scalar = Rc::new(Ty::scalar(*kind == VecKind::Bit));
                packed(Self::wrap_dims(scalar, &d, *signed))
            }
            DataType::Implicit { signed, dims } => {
                let d = self.dims(dims, sc)?;
                packed(Self::wrap_dims(Rc::new(Ty::scalar(false)), &d, *signed))
            }
            DataType::Atom { kind, signed } => {
                let (w, two, def_signed) = match kind {
                    AtomKind::Byte => (8, true, true),
                    AtomKind::Shortint => (16, true, true),
                    AtomKind::Int => (32, true, true),
                    AtomKind::Longint => (64, true, true),
                    AtomKind::Integer => (32, false, true),
                    AtomKind::Time => (64, false, false),
                };
                packed(Rc::new(Ty::vector(w, signed.unwrap_or(def_signed), two)))
            }
            DataType::Named { path, dims } => {
                let Some(ent) = self.lookup_path(sc, path)? else {
                    return fail(format!("unknown type {}", path.name));
                };
                let vt = match ent {
                    Ent::Type(vt) => vt,
                    Ent::Bad(why) => return fail(why),
                    _ => return fail(format!("{} is not a type", path.name)),
                };
                if dims.is_empty() {
                    vt
                } else {
                    if !vt.udims.is_empty() {
                        return fail("packed dimension on an unpacked typedef");
                    }
                    let d = self.dims(dims, sc)?;
                    packed(Self::wrap_dims(vt.ty, &d, false))
                }
            }
            DataType::Struct {
                union,
                packed: is_packed,
                signed,
                members,
                dims,
            } => {
                if !is_packed {
                    return fail("unpacked struct / union");
                }
                let mut fields = vec![];
                for (t, n) in members {
                    let vt = self.resolve_type(t, sc)?;
                    if !vt.udims.is_empty() {
                        return fail("unpacked member in a packed struct");
                    }
                    fields.push((n.clone(), vt.ty));
                }
                if fields.is_empty() {
                    return fail("empty struct");
                }
                let width = if *union {
                    let w = fields[0].1.width;
                    if fields.iter().any(|f| f.1.width != w) {
                        return fail("packed union members of different widths");
                    }
                    w
                } else {
                    fields.iter().map(|f| f.1.width).sum()
                };
                let two_state = fields.iter().all(|f| f.1.two_state);
                let t = Rc::new(Ty {
                    width,
                    signed: *signed,
                    two_state,
                    shape: Shape::Struct { fields, union: *union },
                });
                let d = self.dims(dims, sc)?;
                packed(Self::wrap_dims(t, &d, false))
            }
            DataType::Enum { base, variants, dims } => {
                let bt = match base {
                    Some(b) => {
                        let vt = self.resolve_type(b, sc)?;
                        if !vt.udims.is_empty() {
                            return fail("enum base type");
                        }
                        vt.ty
                    }
                    None => Rc::new(Ty::int()),
                };
                let mut next = Bv::zeros(bt.width, bt.signed);
                for (i, (name, val)) in variants.iter().enumerate() {
                    let v = match val {
                        Some(e) => {
                            let v = self.const_eval(e, sc)?;
                            v.resize(bt.width).with_signed(bt.signed)
                        }
                        None => {
                            if i == 0 {
                                Bv::zeros(bt.width, bt.signed)
                            } else {
                                next.clone()
                            }
                        }
                    };
                    next = v.add(&Bv::from_u64(1, bt.width, bt.signed));
                    self.declare(
                        sc,
                        name,
                        Ent::Param(
                            Rc::new(vec![v]),
                            VarTy {
                                ty: bt.clone(),
                                udims: vec![],
                            },
                        ),
                    )?;
                }
                let d = self.dims(dims, sc)?;
                packed(Self::wrap_dims(bt, &d, false))
            }
            DataType::TypeOf(e) => match &**e {
                Expr::Type(t) => self.resolve_type(t, sc)?,
                e => {
                    let mut lc = Locals::default();
                    let ee = self.expr(e, sc, &mut lc)?;
                    packed(Rc::new(Ty::vector(ee.w, ee.s, false)))
                }
            },
            DataType::Other(k) => return fail(format!("data type {k}")),
        })
    }

    // ----- declarations ----------------------------------------------------------

    pub(crate) fn new_signal(&mut self, sc: ScopeId, name: &str, vt: VarTy) -> R<SigId> {
        let id = self.signals.len();
        let path = format!("{}.{}", self.scopes[sc].path, name);
        self.m.sigs.push(vt.init());
        self.m.sig_two_state.push(vt.ty.two_state);
        self.signals.push(Signal { name: path, vt });
        self.declare(sc, name, Ent::Sig(id))?;
        Ok(id)
    }

    fn var_decl(&mut self, d: &VarDecl, sc: ScopeId) -> R<SigId> {
        let mut vt = self.resolve_type(&d.ty, sc)?;
        let ud = self.udims(&d.udims, sc)?;
        if !ud.is_empty() {
            let mut all = ud;
            all.extend(vt.udims.iter().cloned());
            vt.udims = all;
        }
        if vt.elems() * vt.ty.width > (1 << 24) {
            return fail("variable too large");
        }
        let id = self.new_signal(sc, &d.name, vt)?;
        if d.init.is_some() {
            return fail(format!("variable initialiser ({})", d.name));
        }
        Ok(id)
    }

    fn param_decl(&mut self, p: &ParamDecl, sc: ScopeId, ov: Option<Override>) -> R<()> {
        if p.is_type {
            let vt = match ov {
                Some(Override::Type(t)) => t,
                Some(Override::Value(_)) => return fail("value given for a type parameter"),
                None => match &p.type_value {
                    Some(t) => self.resolve_type(t, sc)?,
                    None => return fail(format!("type parameter {} without a value", p.name)),
                },
            };
            return self.declare(sc, &p.name, Ent::Type(vt));
        }
        // a type this front end does not model makes the parameter unusable, not the design
        let declared: Option<VarTy> = match &p.ty {
            Some(DataType::Implicit { signed: false, dims }) if dims.is_empty() => None,
            Some(DataType::Other(k)) => {
                return self.declare(sc, &p.name, Ent::Bad(format!("parameter {} of type {k}", p.name)));
            }
            Some(t) => Some(self.resolve_type(t, sc)?),
            None => None,
        };
        let ud = self.udims(&p.udims, sc)?;
        if !ud.is_empty() || declared.as_ref().is_some_and(|t| !t.udims.is_empty()) {
            // array parameter: positional pattern only
            let Some(mut vt) = declared else {
                return fail("array parameter without a type");
            };
            let mut all = ud;
            all.extend(vt.udims.iter().cloned());
            vt.udims = all;
            if ov.is_some() {
                return fail("override of an array parameter");
            }
            let Some(Expr::Pattern(None, items)) = &p.value else {
                return self.declare(sc, &p.name, Ent::Bad(format!("array parameter {} without a pattern", p.name)));
            };
            let flat = self.flatten_pattern(items, &vt.udims, sc)?;
            let mut vals = vec![];
            for e in flat {
                let v = self.const_eval(&e, sc);
                match v {
                    Ok(v) => vals.push(v),
                    Err(e) => return self.declare(sc, &p.name, Ent::Bad(e.reason)),
                }
            }
            let vals = vals.into_iter().map(|v| v.resize(vt.ty.width).with_signed(vt.ty.signed)).collect();
            return self.declare(sc, &p.name, Ent::Param(Rc::new(vals), vt));
        }
        let raw: Bv = match ov {
            Some(Override::Value(v)) => v,
            Some(Override::Type(_)) => return fail("type given for a value parameter"),
            None => match &p.value {
                Some(e) => match self.const_eval(e, sc) {
                    Ok(v) => v,
                    Err(err) => {
                        // e.g. a string or real valued parameter
                        return self.declare(sc, &p.name, Ent::Bad(format!("parameter {}: {}", p.name, err.reason)));
                    }
                },
                None => return fail(format!("parameter {} without a value", p.name)),
            },
        };
        let (val, vt) = match declared {
            Some(vt) => {
                // assignment to the declared type (6.20.2)
                let v = raw.resize(vt.ty.width).with_signed(vt.ty.signed);
                let v = if vt.ty.two_state { crate::exec::two_state(&v) } else { v };
                (v, vt)
            }
            None => {
                let signed = match &p.ty {
                    Some(DataType::Implicit { signed: true, .. }) => true,
                    _ => raw.signed(),
                };
                let v = raw.with_signed(signed);
                let vt = VarTy {
                    ty: Rc::new(Ty::vector(v.width(), signed, false)),
                    udims: vec![],
                };
                (v, vt)
            }
        };
        self.declare(sc, &p.name, Ent::Param(Rc::new(vec![val]), vt))
    }

    /// Positional (possibly nested) array pattern → elements in row-major order.
    pub(crate) fn flatten_pattern(&mut self, items: &[PatItem], dims: &[(i64, i64)], sc: ScopeId) -> R<Vec<Expr>> {
        let n = (dims[0].0 - dims[0].1).unsigned_abs() as usize + 1;
        let mut per: Vec<Option<Expr>> = vec![None; n];
        let mut default = None;
        let mut pos = 0;
        for it in items {
            match &it.key {
                PatKey::Positional => {
                    if pos >= n {
                        return fail("array pattern with too many elements");
                    }
                    per[pos] = Some(it.value.clone());
                    pos += 1;
                }
                PatKey::Default => default = Some(it.value.clone()),
                PatKey::Key(k) => {
                    let i = self.const_i64(k, sc)?;
                    let (l, r) = dims[0];
                    let (mn, mx) = (l.min(r), l.max(r));
                    if i < mn || i > mx {
                        return fail("array pattern index out of range");
                    }
                    per[(i - l).unsigned_abs() as usize] = Some(it.value.clone());
                }
            }
        }
        let mut out = vec![];
        for p in per {
            let Some(e) = p.or(default.clone()) else {
                return fail("array pattern does not cover every element");
            };
            if dims.len() > 1 {
                match &e {
                    Expr::Pattern(None, inner) => out.extend(self.flatten_pattern(inner, &dims[1..], sc)?),
                    _ => {
                        // `default: x` reaches the leaves
                        let sub: usize = dims[1..].iter().map(|(l, r)| (l - r).unsigned_abs() as usize + 1).product();
                        for _ in 0..sub {
                            out.push(e.clone());
                        }
                    }
                }
            } else {
                out.push(e);
            }
        }
        Ok(out)
    }

    // ----- items -----------------------------------------------------------------

    pub(crate) fn items(&mut self, items: &[Item], sc: ScopeId) -> R<()> {
        // (a) constants, types, functions, imports — in source order
        for it in items {
            match it {
                Item::Param(p) => self.param_decl(p, sc, None)?,
                Item::Typedef { name, ty, udims } => {
                    let mut vt = self.resolve_type(ty, sc)?;
                    let ud = self.udims(udims, sc)?;
                    if !ud.is_empty() {
                        let mut all = ud;
                        all.extend(vt.udims.iter().cloned());
                        vt.udims = all;
                    }
                    self.declare(sc, name, Ent::Type(vt))?;
                }
                Item::Import { pkg, name } => {
                    let p = self.package(pkg)?;
                    match name {
                        None => self.scopes[sc].imports.push(p),
                        Some(n) => {
                            let Some(e) = self.scopes[p].names.get(n).cloned() else {
                                return fail(format!("{pkg}::{n} does not exist"));
                            };
                            self.declare(sc, n, e)?;
                        }
                    }
                }
                Item::Function(f) => {
                    let idx = self.func_slots.len();
                    self.func_slots.push(FuncSlot {
                        ast: f.clone(),
                        scope: sc,
                        state: FuncState::NotYet,
                    });
                    self.declare(sc, &f.name, Ent::Func(idx))?;
                }
                Item::Genvar(_) | Item::Export => {}
                Item::Modport { name, .. } => self.declare(sc, name, Ent::Modport)?,
                _ => {}
            }
        }
        // (b) interface instances (modules below may be connected to them before their declaration)
        for it in items {
            if let Item::Instance(inst) = it {
                if self.units.get(&inst.module).is_some_and(|u| u.kind == UnitKind::Interface) {
                    self.instance(inst, sc)?;
                }
            }
        }
        // (c) variables, generate constructs, module instances; processes are deferred
        for it in items {
            match it {
                Item::Var(d) | Item::Net(d) => {
                    self.var_decl(d, sc)?;
                }
                Item::Instance(inst) => {
                    if !self.units.get(&inst.module).is_some_and(|u| u.kind == UnitKind::Interface) {
                        self.instance(inst, sc)?;
                    }
                }
                Item::GenBlock { label, items } => {
                    let child = self.gen_scope(sc, label.as_deref(), None)?;
                    self.items(items, child)?;
                }
                Item::GenIf {
                    cond,
                    then_label,
                    then,
                    els,
                } => {
                    let c = self.const_eval(cond, sc)?;
                    match c.truth() {
                        vbv::Truth::True => {
                            let child = self.gen_scope(sc, then_label.as_deref(), None)?;
                            self.items(then, child)?;
                        }
                        vbv::Truth::False => {
                            if let Some((l, its)) = els {
                                // `else if` chains: the nested if is a direct item
                                let direct = its.len() == 1 && matches!(its[0], Item::GenIf { .. }) && l.is_none();
                                if direct {
                                    self.items(its, sc)?;
                                } else {
                                    let child = self.gen_scope(sc, l.as_deref(), None)?;
                                    self.items(its, child)?;
                                }
                            }
                        }
                        vbv::Truth::Unknown => return fail("generate condition is unknown"),
                    }
                }
                Item::GenFor {
                    var,
                    init,
                    cond,
                    step,
                    label,
                    items,
                } => self.gen_for(sc, var, init, cond, step, label.as_deref(), items)?,
                Item::Assign { .. } | Item::AlwaysComb(..) | Item::AlwaysFf { .. } => {
                    self.deferred.push(Deferred::Item(sc, it.clone()));
                }
                Item::Initial(_) => self.notes.push("initial procedure ignored".into()),
                Item::Final(_) => self.notes.push("final procedure ignored".into()),
                Item::AlwaysOther(k) => return fail(format!("{k} procedure")),
                Item::Unsupported(why) => {
                    if why.starts_with("elaboration system task") {
                        self.notes.push(why.clone());
                    } else {
                        return fail(why.clone());
                    }
                }
                _ => {}
            }
        }
        Ok(())
    }

    fn gen_scope(&mut self, parent: ScopeId, label: Option<&str>, index: Option<i64>) -> R<ScopeId> {
        let base = label.unwrap_or("genblk");
        let path = match index {
            Some(i) => format!("{}.{}[{}]", self.scopes[parent].path, base, i),
            None => format!("{}.{}", self.scopes[parent].path, base),
        };
        let sc = self.new_scope(Some(parent), path);
        if let Some(l) = label {
            match index {
                None => self.declare(parent, l, Ent::Scope(sc))?,
                Some(i) => match self.scopes[parent].names.get_mut(l) {
                    Some(Ent::ScopeArr(m)) => {
                        m.insert(i, sc);
                    }
                    Some(_) => return fail(format!("name {l} declared twice")),
                    None => {
                        let mut m = BTreeMap::new();
                        m.insert(i, sc);
                        self.scopes[parent].names.insert(l.to_string(), Ent::ScopeArr(m));
                    }
                },
            }
        }
        Ok(sc)
    }

    #[allow(clippy::too_many_arguments)]
    fn gen_for(&mut self, sc: ScopeId, var: &str, init: &Expr, cond: &Expr, step: &Stmt, label: Option<&str>, items: &[Item]) -> R<()> {
        // the genvar is an integer; inside each block it is a localparam (27.4)
        let int = VarTy {
            ty: Rc::new(Ty::vector(32, true, false)),
            udims: vec![],
        };
        let mut cur = self.const_eval(init, sc)?.resize(32).with_signed(true);
        let mut n = 0;
        loop {
            // evaluate the condition and the step in a scope where the genvar has its current value
            let probe = self.new_scope(Some(sc), format!("{}.<genvar>", self.scopes[sc].path));
            self.declare(probe, var, Ent::Param(Rc::new(vec![cur.clone()]), int.clone()))?;
            if self.const_eval(cond, probe)?.truth() != vbv::Truth::True {
                break;
            }
            let Some(i) = cur.to_bigint().and_then(|i| i64::try_from(i).ok()) else {
                return fail("genvar value unknown");
            };
            let child = self.gen_scope(sc, label, Some(i))?;
            self.declare(child, var, Ent::Param(Rc::new(vec![cur.clone()]), int.clone()))?;
            self.items(items, child)?;
            let next = match step {
                Stmt::IncDec { lhs: Expr::Name(p), inc } if p.name == var && p.scope.is_empty() => {
                    let one = Bv::from_u64(1, 32, true);
                    if *inc { cur.add(&one) } else { cur.sub(&one) }
                }
                Stmt::Blocking {
                    lhs: Expr::Name(p),
                    op,
                    rhs,
                    ..
                } if p.name == var && p.scope.is_empty() => {
                    let e = match op {
                        None => rhs.clone(),
                        Some(o) => Expr::Binary(*o, Box::new(Expr::Name(p.clone())), Box::new(rhs.clone())),
                    };
                    self.const_eval(&e, probe)?.resize(32).with_signed(true)
                }
                _ => return fail("generate loop step"),
            };
            cur = next;
            n += 1;
            if n > 4096 {
                return fail("generate loop iteration limit");
            }
        }
        Ok(())
    }

    // ----- hierarchy -------------------------------------------------------------

    fn instance(&mut self, inst: &Instance, sc: ScopeId) -> R<()> {
        if !inst.udims.is_empty() {
            return fail("instance array");
        }
        let Some(unit) = self.units.get(&inst.module).cloned() else {
            return fail(format!("unknown module {}", inst.module));
        };
        if unit.kind == UnitKind::Package {
            return fail("package instantiated");
        }
        // parameter overrides are evaluated in the instantiating scope
        let mut ov: HashMap<String, Override> = HashMap::new();
        for c in &inst.params {
            let Some(e) = &c.expr else { continue };
            let is_type_param = unit.params.iter().any(|p| p.name == c.name && p.is_type)
                || unit.items.iter().any(|i| matches!(i, Item::Param(p) if p.name == c.name && p.is_type));
            let o = if is_type_param {
                let dt = match e {
                    Expr::Type(t) => (**t).clone(),
                    Expr::Name(p) => DataType::Named {
                        path: p.clone(),
                        dims: vec![],
                    },
                    _ => return fail("type parameter override"),
                };
                Override::Type(self.resolve_type(&dt, sc)?)
            } else {
                Override::Value(self.const_eval(e, sc)?)
            };
            if ov.insert(c.name.clone(), o).is_some() {
                return fail("parameter overridden twice");
            }
        }
        let path = format!("{}.{}", self.scopes[sc].path, inst.name);
        let child = self.new_scope(Some(self.unit_scope), path);
        self.declare(sc, &inst.name, Ent::Scope(child))?;
        self.depth += 1;
        if self.depth > 64 {
            return fail("instantiation depth");
        }
        let r = self.unit_body(&unit, child, ov, Some((inst, sc)));
        self.depth -= 1;
        r
    }

    /// Elaborate the declarations of a module / interface into scope `sc`.
    pub(crate) fn unit_body(&mut self, unit: &Unit, sc: ScopeId, mut ov: HashMap<String, Override>, inst: Option<(&Instance, ScopeId)>) -> R<()> {
        for (pkg, name) in &unit.header_imports {
            let p = self.package(pkg)?;
            match name {
                None => self.scopes[sc].imports.push(p),
                Some(n) => {
                    let Some(e) = self.scopes[p].names.get(n).cloned() else {
                        return fail(format!("{pkg}::{n} does not exist"));
                    };
                    self.declare(sc, n, e)?;
                }
            }
        }
        for p in &unit.params {
            let o = if p.local { None } else { ov.remove(&p.name) };
            self.param_decl(p, sc, o)?;
        }
        // body parameters may be overridden only when the header has no parameter port list
        let body_overridable = unit.params.is_empty();
        let mut body_items: Vec<Item> = vec![];
        for it in &unit.items {
            match it {
                Item::Param(p) if !p.local && body_overridable && ov.contains_key(&p.name) => {
                    let o = ov.remove(&p.name);
                    self.param_decl(p, sc, o)?;
                }
                _ => body_items.push(it.clone()),
            }
        }
        if let Some(k) = ov.keys().next() {
            return fail(format!("override of unknown parameter {k}"));
        }
        // ports
        let mut conns: HashMap<&str, &Connection> = HashMap::new();
        if let Some((i, _)) = inst {
            for c in &i.ports {
                if conns.insert(c.name.as_str(), c).is_some() {
                    return fail("port connected twice");
                }
            }
        }
        for port in &unit.ports {
            match port {
                Port::Var { dir, decl, .. } => {
                    let id = self.var_decl_port(decl, sc)?;
                    match inst {
                        None => {
                            let vt = &self.signals[id].vt;
                            if !vt.udims.is_empty() {
                                return fail("unpacked array port on the top module");
                            }
                            self.ports.push(PortInfo {
                                name: decl.name.clone(),
                                dir: *dir,
                                sig: id,
                                width: vt.ty.width,
                                signed: vt.ty.signed,
                            });
                        }
                        Some((i, parent)) => {
                            let c = conns.remove(decl.name.as_str());
                            let expr = match c {
                                None => None,
                                Some(c) if c.implicit => Some(Expr::Name(Path {
                                    scope: vec![],
                                    name: c.name.clone(),
                                })),
                                Some(c) => c.expr.clone(),
                            };
                            let name = format!("{}.{}", i.name, decl.name);
                            match (dir, expr) {
                                (Dir::Input, Some(e)) => self.deferred.push(Deferred::ConnIn {
                                    parent,
                                    sig: id,
                                    expr: e,
                                    name,
                                }),
                                (Dir::Input, None) => match &decl.init {
                                    Some(_) => return fail("port default value"),
                                    None => self.notes.push(format!("input {name} unconnected")),
                                },
                                (Dir::Output, Some(e)) => self.deferred.push(Deferred::ConnOut {
                                    parent,
                                    sig: id,
                                    expr: e,
                                    name,
                                }),
                                (Dir::Output, None) => {}
                                _ => return fail("inout / ref port"),
                            }
                        }
                    }
                }
                Port::Interface {
                    iface,
                    modport,
                    name,
                    udims,
                } => {
                    if !udims.is_empty() {
                        return fail("interface array port");
                    }
                    let Some((_, parent)) = inst else {
                        return fail("interface port on the top module");
                    };
                    let Some(c) = conns.remove(name.as_str()) else {
                        return fail("interface port unconnected");
                    };
                    let e = if c.implicit {
                        Expr::Name(Path {
                            scope: vec![],
                            name: c.name.clone(),
                        })
                    } else {
                        match &c.expr {
                            Some(e) => e.clone(),
                            None => return fail("interface port unconnected"),
                        }
                    };
                    // `bus` or `bus.modport`
                    let target = match &e {
                        Expr::Member(b, mp) => match (&**b, self.resolve_scope_expr(b, parent)?) {
                            (_, Some(s)) if matches!(self.scopes[s].names.get(mp), Some(Ent::Modport)) => Some(s),
                            _ => self.resolve_scope_expr(&e, parent)?,
                        },
                        _ => self.resolve_scope_expr(&e, parent)?,
                    };
                    let Some(target) = target else {
                        return fail(format!("interface port {name}: connection is not an interface instance"));
                    };
                    let _ = (iface, modport);
                    self.declare(sc, name, Ent::Scope(target))?;
                }
            }
        }
        if let Some(k) = conns.keys().next() {
            return fail(format!("connection to unknown port {k}"));
        }
        self.items(&body_items, sc)
    }

    fn var_decl_port(&mut self, d: &VarDecl, sc: ScopeId) -> R<SigId> {
        let mut vt = self.resolve_type(&d.ty, sc)?;
        let ud = self.udims(&d.udims, sc)?;
        if !ud.is_empty() {
            let mut all = ud;
            all.extend(vt.udims.iter().cloned());
            vt.udims = all;
        }
        self.new_signal(sc, &d.name, vt)
    }

    /// `name`, `name.name`, `name[i]` denoting a scope (interface instance, generate block).
    pub(crate) fn resolve_scope_expr(&mut self, e: &Expr, sc: ScopeId) -> R<Option<ScopeId>> {
        Ok(match e {
            Expr::Name(p) => match self.lookup_path(sc, p)? {
                Some(Ent::Scope(s)) => Some(s),
                _ => None,
            },
            Expr::Member(b, n) => match self.resolve_scope_expr(b, sc)? {
                Some(s) => match self.scopes[s].names.get(n) {
                    Some(Ent::Scope(s2)) => Some(*s2),
                    _ => None,
                },
                None => None,
            },
            Expr::Index(b, i) => {
                let arr = match &**b {
                    Expr::Name(p) => self.lookup_path(sc, p)?,
                    Expr::Member(bb, n) => match self.resolve_scope_expr(bb, sc)? {
                        Some(s) => self.scopes[s].names.get(n).cloned(),
                        None => None,
                    },
                    _ => None,
                };
                match arr {
                    Some(Ent::ScopeArr(m)) => {
                        let i = self.const_i64(i, sc)?;
                        m.get(&i).copied()
                    }
                    _ => None,
                }
            }
            _ => None,
        })
    }

    /// Elaborate `top` with its default parameters and turn the deferred
    /// items into processes.
    pub fn elaborate_top(&mut self, top: &str) -> R<()> {
        let Some(unit) = self.units.get(top).cloned() else {
            return fail(format!("top module {top} not found"));
        };
        if unit.kind != UnitKind::Module {
            return fail("top is not a module");
        }
        let sc = self.new_scope(Some(self.unit_scope), top.to_string());
        self.unit_body(&unit, sc, HashMap::new(), None)?;
        let deferred = std::mem::take(&mut self.deferred);
        for d in deferred {
            let at = match &d {
                Deferred::Item(_, Item::Assign { line, .. }) | Deferred::Item(_, Item::AlwaysComb(_, line)) | Deferred::Item(_, Item::AlwaysFf { line, .. }) => {
                    format!("process at line {line}")
                }
                Deferred::ConnIn { name, .. } | Deferred::ConnOut { name, .. } => format!("port connection {name}"),
                _ => String::new(),
            };
            self.process(d).map_err(|e| Unsupported::new(format!("{} [{at}]", e.reason)))?;
        }
        Ok(())
    }
}
