//! Elaborated design: resolved types, expressions annotated with their
//! self-determined width and signedness (IEEE 1800-2017 Table 11-21, 11.8.1),
//! statements and processes.

use crate::ast::{CaseKind, Edge, UnOp};
use std::rc::Rc;
use vbv::{BinOp, Bit, Bv};

/// Packed (integral) type.
#[derive(Clone, Debug, PartialEq)]
pub struct Ty {
    pub width: usize,
    pub signed: bool,
    /// `bit`, `int`, … : x/z become 0 when stored
    pub two_state: bool,
    pub shape: Shape,
}

#[derive(Clone, Debug, PartialEq)]
pub enum Shape {
    /// one bit, not selectable
    Scalar,
    /// packed dimension `[left:right]` of `elem`
    Vec { left: i64, right: i64, elem: Rc<Ty> },
    /// first field = most significant; a union overlays all fields at bit 0
    Struct { fields: Vec<(String, Rc<Ty>)>, union: bool },
}

impl Ty {
    pub fn scalar(two_state: bool) -> Ty {
        Ty {
            width: 1,
            signed: false,
            two_state,
            shape: Shape::Scalar,
        }
    }
    /// `[width-1:0]` vector of scalars
    pub fn vector(width: usize, signed: bool, two_state: bool) -> Ty {
        Ty::dim(width as i64 - 1, 0, Rc::new(Ty::scalar(two_state)), signed)
    }
    pub fn dim(left: i64, right: i64, elem: Rc<Ty>, signed: bool) -> Ty {
        let n = (left - right).unsigned_abs() as usize + 1;
        Ty {
            width: n * elem.width,
            signed,
            two_state: elem.two_state,
            shape: Shape::Vec { left, right, elem },
        }
    }
    pub fn int() -> Ty {
        Ty::vector(32, true, true)
    }
}

/// Type of a variable: packed element type plus unpacked dimensions
/// (`[left:right]`, `[n]` = `[0:n-1]`).
#[derive(Clone, Debug, PartialEq)]
pub struct VarTy {
    pub ty: Rc<Ty>,
    pub udims: Vec<(i64, i64)>,
}

impl VarTy {
    pub fn elems(&self) -> usize {
        self.udims.iter().map(|(l, r)| (l - r).unsigned_abs() as usize + 1).product()
    }
    pub fn init(&self) -> Vec<Bv> {
        let b = if self.ty.two_state { Bit::Zero } else { Bit::X };
        vec![Bv::filled(b, self.ty.width, self.ty.signed); self.elems()]
    }
}

pub type SigId = usize;
pub type FuncId = usize;
pub type Slot = usize;

#[derive(Clone, Debug)]
pub enum Base {
    Sig(SigId),
    Local(Slot),
    /// parameter / constant (possibly an unpacked array of values)
    Const(Rc<Vec<Bv>>),
    /// a computed value (function result, concatenation) that is selected from
    Value(Box<EExpr>),
}

/// Index into one unpacked dimension.
#[derive(Clone, Debug)]
pub struct UIdx {
    pub e: EExpr,
    pub left: i64,
    pub right: i64,
    /// number of elements below one step of this dimension
    pub stride: usize,
}

#[derive(Clone, Debug)]
pub enum SliceKind {
    /// constant lsb position relative to the current sub-vector (may lie outside)
    Const { lo: i64 },
    /// `[e]` on a packed dimension `[left:right]`
    Index { e: Box<EExpr>, left: i64, right: i64, elem_w: usize },
    /// `[e +: count]`
    Plus { e: Box<EExpr>, left: i64, right: i64, elem_w: usize, count: usize },
    /// `[e -: count]`
    Minus { e: Box<EExpr>, left: i64, right: i64, elem_w: usize, count: usize },
}

#[derive(Clone, Debug)]
pub struct Slice {
    pub kind: SliceKind,
    pub width: usize,
}

/// `base[uidx]…[slice]…` — a readable / writable place.
#[derive(Clone, Debug)]
pub struct ERef {
    pub base: Base,
    pub uidx: Vec<UIdx>,
    pub slices: Vec<Slice>,
    /// type of one element of the base
    pub elem_w: usize,
    pub elem_two_state: bool,
    /// unpacked dimensions not indexed (whole-array reference)
    pub rest: Vec<(i64, i64)>,
    /// resulting type
    pub w: usize,
    pub s: bool,
    pub two_state: bool,
}

#[derive(Clone, Debug)]
pub enum InsideItem {
    Val(EExpr),
    Range(EExpr, EExpr),
}

#[derive(Clone, Debug)]
pub enum EK {
    Const(Bv),
    Fill(Bit),
    Read(ERef),
    Un(UnOp, Box<EExpr>),
    Bin(BinOp, Box<EExpr>, Box<EExpr>),
    Cond(Box<EExpr>, Box<EExpr>, Box<EExpr>),
    Concat(Vec<EExpr>),
    Repl(usize, Box<EExpr>),
    /// assignment-like conversion to `w` bits (6.24.1): operand evaluated in a
    /// context of max(w, operand width) bits with its own signedness, then
    /// truncated; result signedness `s` (None = the operand's)
    Cast {
        w: usize,
        s: Option<bool>,
        two_state: bool,
        e: Box<EExpr>,
    },
    /// `$signed` / `$unsigned` / `signed'()`
    SignCast(bool, Box<EExpr>),
    Call(FuncId, Vec<EExpr>),
    Inside(Box<EExpr>, Vec<InsideItem>),
    /// run-time system functions on a self-determined operand
    Sys(SysFn, Box<EExpr>),
}

#[derive(Clone, Copy, Debug, PartialEq, Eq)]
pub enum SysFn {
    Clog2,
    Countones,
    Onehot,
    Onehot0,
    Isunknown,
}

#[derive(Clone, Debug)]
pub struct EExpr {
    pub k: EK,
    /// self-determined width
    pub w: usize,
    pub s: bool,
}

#[derive(Clone, Debug)]
pub enum ELhs {
    Ref(ERef),
    /// first = most significant
    Concat(Vec<ELhs>),
}

impl ELhs {
    pub fn width(&self) -> usize {
        match self {
            ELhs::Ref(r) => r.w,
            ELhs::Concat(v) => v.iter().map(|x| x.width()).sum(),
        }
    }
}

#[derive(Clone, Debug)]
pub enum EStmt {
    Null,
    Block(Vec<EStmt>),
    /// `init`: (slot, type) of block-local variables to re-initialise on entry
    Scoped(Vec<(Slot, VarTy)>, Vec<EStmt>),
    Assign {
        lhs: ELhs,
        rhs: EExpr,
        nonblocking: bool,
        line: u32,
    },
    /// whole unpacked array: element-wise values
    AssignArray {
        lhs: ERef,
        rhs: Vec<EExpr>,
        nonblocking: bool,
    },
    /// whole unpacked array copied from another array
    CopyArray {
        lhs: ERef,
        rhs: ERef,
        nonblocking: bool,
    },
    If(EExpr, Box<EStmt>, Option<Box<EStmt>>),
    Case {
        kind: CaseKind,
        inside: bool,
        sel: EExpr,
        arms: Vec<(Vec<InsideItem>, EStmt)>,
        default: Option<Box<EStmt>>,
        /// context of a plain case (12.5): longest of all, signed iff all signed
        w: usize,
        s: bool,
    },
    For {
        init: Box<EStmt>,
        cond: EExpr,
        step: Box<EStmt>,
        body: Box<EStmt>,
    },
    Break,
    Continue,
    Return(Option<EExpr>),
    /// system task: name (`$display`, `$finish`, …) and arguments
    SysTask(String, Vec<EExpr>),
    /// a call whose value is dropped
    CallStmt(EExpr),
}

#[derive(Clone, Debug)]
pub struct EFunc {
    pub name: String,
    /// slots 0..args are the formals, `ret` is the result slot
    pub args: Vec<(Slot, VarTy, crate::ast::Dir)>,
    pub ret: Option<(Slot, Rc<Ty>)>,
    pub locals: Vec<VarTy>,
    pub body: Vec<EStmt>,
    pub reads: Vec<SigId>,
}

#[derive(Clone, Debug)]
pub enum ProcKind {
    /// `always_comb`, continuous assignment, port connection
    Comb,
    Ff {
        events: Vec<(Edge, EExpr)>,
    },
}

#[derive(Clone, Debug)]
pub struct Proc {
    pub kind: ProcKind,
    pub body: EStmt,
    pub locals: Vec<VarTy>,
    /// signals whose change re-evaluates a comb process / the event expressions
    pub sens: Vec<SigId>,
    pub name: String,
}

#[derive(Clone, Debug)]
pub struct Signal {
    pub name: String,
    pub vt: VarTy,
}

#[derive(Clone, Debug)]
pub struct PortInfo {
    pub name: String,
    pub dir: crate::ast::Dir,
    pub sig: SigId,
    pub width: usize,
    pub signed: bool,
}
