//! Evaluation of elaborated expressions and statements.
//!
//! Expressions follow the two-step algorithm of IEEE 1800-2017 11.8.2: every
//! node carries its self-determined width / signedness (computed by the
//! elaborator from Table 11-21 and 11.8.1); `eval(e, w, s)` evaluates `e` in a
//! context of `w >= e.w` bits and signedness `s`, propagating the context to
//! context-determined operands and applying the sized operators of `vbv`.

use crate::ast::{CaseKind, Dir, UnOp};
use crate::ir::*;
use crate::Unsupported;
use std::collections::BTreeMap;
use std::rc::Rc;
use vbv::{BinClass, BinOp, Bit, Bv, Truth};

type R<T> = Result<T, Unsupported>;

pub enum Flow {
    Normal,
    Break,
    Continue,
    Return,
}

/// One pending non-blocking update: the place was resolved (indices
/// evaluated) when the statement executed (10.4.2), the value is written in
/// the NBA region.
#[derive(Clone, Debug)]
pub struct NbaWrite {
    pub sig: SigId,
    pub elem: usize,
    /// target bit position of each value bit (None = outside the variable)
    pub map: Vec<Option<usize>>,
    pub value: Bv,
}

#[derive(Default)]
pub struct Machine {
    pub sigs: Vec<Vec<Bv>>,
    pub sig_two_state: Vec<bool>,
    pub funcs: Vec<Rc<EFunc>>,
    frames: Vec<Vec<Vec<Bv>>>,
    /// evaluation at elaboration time: reading a signal is an error
    pub const_only: bool,
    pub nba: Vec<NbaWrite>,
    /// signals written by the running process with their previous contents
    pub touched: BTreeMap<SigId, Vec<Bv>>,
    pub display_count: u64,
    pub finished: bool,
    pub errors_raised: u64,
    steps: u64,
}

fn fail<T>(s: impl Into<String>) -> R<T> {
    Err(Unsupported::new(s.into()))
}

const MAX_LOOP: u64 = 200_000;
const MAX_DEPTH: usize = 200;

impl Machine {
    pub fn push_frame(&mut self, locals: &[VarTy]) {
        self.frames.push(locals.iter().map(|t| t.init()).collect());
    }
    pub fn pop_frame(&mut self) {
        self.frames.pop();
    }

    // ----- places ------------------------------------------------------------

    /// Linear element index of an unpacked reference; None = out of range / unknown.
    fn elem_index(&mut self, r: &ERef) -> R<Option<usize>> {
        let mut idx = 0usize;
        for u in &r.uidx {
            let v = self.eval_self(&u.e)?;
            let Some(i) = v.to_bigint().and_then(|i| i64::try_from(i).ok()) else {
                return Ok(None);
            };
            let (lo, hi) = if u.left <= u.right { (u.left, u.right) } else { (u.right, u.left) };
            if i < lo || i > hi {
                return Ok(None);
            }
            let pos = (i - u.left).unsigned_abs() as usize;
            idx += pos * u.stride;
        }
        Ok(Some(idx))
    }

    /// For each bit of the selected sub-vector its position in the element
    /// (None = outside).  `None` result = an index is unknown: read x, write nothing.
    fn bit_map(&mut self, r: &ERef) -> R<Option<Vec<Option<usize>>>> {
        let mut cur: Vec<Option<usize>> = (0..r.elem_w).map(Some).collect();
        for sl in &r.slices {
            let dynamic = |m: &mut Machine, e: &EExpr| -> R<Option<i64>> {
                let v = m.eval_self(e)?;
                Ok(v.to_bigint().and_then(|i| i64::try_from(i).ok()))
            };
            let lo: Option<i64> = match &sl.kind {
                SliceKind::Const { lo } => Some(*lo),
                SliceKind::Index { e, left, right, elem_w } => match dynamic(self, e)? {
                    None => None,
                    Some(i) => {
                        let (mn, mx) = if left <= right { (*left, *right) } else { (*right, *left) };
                        if i < mn || i > mx {
                            // wholly outside: x on read, nothing on write
                            Some(i64::MAX)
                        } else if left >= right {
                            Some((i - right) * *elem_w as i64)
                        } else {
                            Some((right - i) * *elem_w as i64)
                        }
                    }
                },
                SliceKind::Plus { e, left, right, elem_w, count } => dynamic(self, e)?.map(|i| {
                    if left >= right {
                        i.saturating_sub(*right).saturating_mul(*elem_w as i64)
                    } else {
                        right.saturating_sub(i.saturating_add(*count as i64 - 1)).saturating_mul(*elem_w as i64)
                    }
                }),
                SliceKind::Minus { e, left, right, elem_w, count } => dynamic(self, e)?.map(|i| {
                    if left >= right {
                        i.saturating_sub(*count as i64 - 1).saturating_sub(*right).saturating_mul(*elem_w as i64)
                    } else {
                        right.saturating_sub(i).saturating_mul(*elem_w as i64)
                    }
                }),
            };
            let Some(lo) = lo else { return Ok(None) };
            let n = cur.len() as i64;
            let mut next = Vec::with_capacity(sl.width);
            for k in 0..sl.width as i64 {
                let p = lo.saturating_add(k);
                next.push(if p >= 0 && p < n { cur[p as usize] } else { None });
            }
            cur = next;
        }
        Ok(Some(cur))
    }

    fn base_elem(&mut self, r: &ERef, elem: usize) -> R<Bv> {
        Ok(match &r.base {
            Base::Sig(id) => {
                if self.const_only {
                    return fail("constant expression reads a variable");
                }
                self.sigs[*id][elem].clone()
            }
            Base::Local(slot) => {
                let f = self.frames.last().ok_or_else(|| Unsupported::new("local variable outside a frame"))?;
                f[*slot][elem].clone()
            }
            Base::Const(v) => v[elem].clone(),
            Base::Value(e) => self.eval_self(e)?,
        })
    }

    pub fn read(&mut self, r: &ERef) -> R<Bv> {
        if !r.rest.is_empty() {
            return fail("whole unpacked array used as a value");
        }
        let unknown = |r: &ERef| Bv::filled(if r.two_state { Bit::Zero } else { Bit::X }, r.w, r.s);
        let Some(elem) = self.elem_index(r)? else {
            return Ok(unknown(r));
        };
        let base = self.base_elem(r, elem)?;
        if r.slices.is_empty() {
            return Ok(base.with_signed(r.s));
        }
        let Some(map) = self.bit_map(r)? else {
            return Ok(unknown(r));
        };
        let bits: Vec<Bit> = map
            .iter()
            .map(|p| match p {
                Some(i) => base.bit(*i),
                None => {
                    if r.elem_two_state {
                        Bit::Zero
                    } else {
                        Bit::X
                    }
                }
            })
            .collect();
        Ok(Bv::new(bits, r.s))
    }

    /// Write `value` (exactly `r.w` bits) to the place, now or as an NBA.
    fn write(&mut self, r: &ERef, value: Bv, nonblocking: bool) -> R<()> {
        if !r.rest.is_empty() {
            return fail("assignment to a whole unpacked array");
        }
        debug_assert_eq!(value.width(), r.w);
        let Some(elem) = self.elem_index(r)? else {
            return Ok(());
        };
        let Some(map) = self.bit_map(r)? else {
            return Ok(());
        };
        let value = if r.elem_two_state { two_state(&value) } else { value };
        match &r.base {
            Base::Sig(id) => {
                if self.const_only {
                    return fail("constant function writes a variable");
                }
                if nonblocking {
                    self.nba.push(NbaWrite {
                        sig: *id,
                        elem,
                        map,
                        value,
                    });
                } else {
                    self.commit(*id, elem, &map, &value);
                }
            }
            Base::Local(slot) => {
                if nonblocking {
                    return fail("non-blocking assignment to an automatic variable");
                }
                let f = self.frames.last_mut().ok_or_else(|| Unsupported::new("local variable outside a frame"))?;
                let old = &f[*slot][elem];
                f[*slot][elem] = merge_bits(old, &map, &value);
            }
            Base::Const(_) | Base::Value(_) => return fail("assignment to a constant"),
        }
        Ok(())
    }

    pub fn commit(&mut self, sig: SigId, elem: usize, map: &[Option<usize>], value: &Bv) {
        let old = &self.sigs[sig][elem];
        let new = merge_bits(old, map, value);
        if new != *old {
            self.touched.entry(sig).or_insert_with(|| self.sigs[sig].clone());
            self.sigs[sig][elem] = new;
        }
    }

    /// Assignment (10.7): the right-hand side is evaluated in a context of
    /// max(L(lhs), L(rhs)) bits with its own signedness, then truncated.
    fn assign(&mut self, lhs: &ELhs, rhs: &EExpr, nonblocking: bool) -> R<()> {
        let lw = lhs.width();
        let w = lw.max(rhs.w);
        let v = self.eval(rhs, w, rhs.s)?.truncate(lw);
        self.store(lhs, v, nonblocking)
    }

    fn store(&mut self, lhs: &ELhs, v: Bv, nonblocking: bool) -> R<()> {
        match lhs {
            ELhs::Ref(r) => self.write(r, v.with_signed(r.s), nonblocking),
            ELhs::Concat(parts) => {
                // first part is the most significant
                let mut hi = v.width();
                for p in parts {
                    let w = p.width();
                    let part = v.part_select(hi - 1, hi - w);
                    self.store(p, part, nonblocking)?;
                    hi -= w;
                }
                Ok(())
            }
        }
    }

    // ----- expressions -------------------------------------------------------

    pub fn eval_self(&mut self, e: &EExpr) -> R<Bv> {
        self.eval(e, e.w, e.s)
    }

    /// Value of `e` as the right-hand side of an assignment to `w` bits.
    pub fn eval_assign(&mut self, e: &EExpr, w: usize) -> R<Bv> {
        let cw = w.max(e.w);
        Ok(self.eval(e, cw, e.s)?.truncate(w))
    }

    pub fn eval(&mut self, e: &EExpr, w: usize, s: bool) -> R<Bv> {
        if w < e.w {
            return fail(format!("internal: context {w} narrower than expression {}", e.w));
        }
        if w == 0 {
            return fail("zero-width expression");
        }
        Ok(match &e.k {
            EK::Const(v) => v.to_context(w, s),
            EK::Fill(b) => Bv::filled(*b, w, s),
            EK::Read(r) => self.read(r)?.to_context(w, s),
            EK::Un(op, x) => {
                let vop = un_op(*op);
                if vop.is_context() {
                    let v = self.eval(x, w, s)?;
                    vbv::unary_sized(vop, &v, &vbv::Dialect::default())
                } else {
                    let v = self.eval_self(x)?;
                    vbv::unary_sized(vop, &v, &vbv::Dialect::default()).to_context(w, s)
                }
            }
            EK::Bin(op, x, y) => match op.class() {
                BinClass::Arith => {
                    let a = self.eval(x, w, s)?;
                    let b = self.eval(y, w, s)?;
                    match op {
                        BinOp::Add => a.add(&b),
                        BinOp::Sub => a.sub(&b),
                        BinOp::Mul => a.mul(&b),
                        BinOp::Div => a.div(&b),
                        BinOp::Rem => a.rem(&b),
                        BinOp::And => a.and(&b),
                        BinOp::Or => a.or(&b),
                        BinOp::Xor => a.xor(&b),
                        BinOp::Xnor => a.xnor(&b),
                        _ => unreachable!(),
                    }
                }
                BinClass::ShiftPow => {
                    let a = self.eval(x, w, s)?;
                    let b = self.eval_self(y)?;
                    match op {
                        BinOp::Shl | BinOp::AShl => a.shl(&b),
                        BinOp::Shr => a.shr(&b),
                        BinOp::AShr => a.ashr(&b),
                        BinOp::Pow => a.pow(&b),
                        _ => unreachable!(),
                    }
                }
                BinClass::Compare => {
                    let cw = x.w.max(y.w);
                    let cs = x.s && y.s;
                    let a = self.eval(x, cw, cs)?;
                    let b = self.eval(y, cw, cs)?;
                    let bit = match op {
                        BinOp::Lt => a.lt(&b),
                        BinOp::Le => a.le(&b),
                        BinOp::Gt => a.gt(&b),
                        BinOp::Ge => a.ge(&b),
                        BinOp::Eq => a.eq_logical(&b),
                        BinOp::Ne => a.ne_logical(&b),
                        BinOp::CaseEq => a.eq_case(&b),
                        BinOp::CaseNe => a.eq_case(&b).not(),
                        BinOp::WildEq => a.eq_wild(&b),
                        BinOp::WildNe => a.eq_wild(&b).not(),
                        _ => unreachable!(),
                    };
                    Bv::bit1(bit).to_context(w, s)
                }
                BinClass::Logical => {
                    // 11.4.7: operands self-determined; no side effects exist in
                    // this subset, so both may be evaluated
                    let a = self.eval_self(x)?.truth();
                    let b = self.eval_self(y)?.truth();
                    Bv::bit1(vbv::logical(*op, a, b)).to_context(w, s)
                }
            },
            EK::Cond(c, a, b) => {
                let cv = self.eval_self(c)?;
                match cv.truth() {
                    Truth::True => self.eval(a, w, s)?,
                    Truth::False => self.eval(b, w, s)?,
                    Truth::Unknown => {
                        let av = self.eval(a, w, s)?;
                        let bv = self.eval(b, w, s)?;
                        vbv::cond_sized(&cv, &av, &bv)
                    }
                }
            }
            EK::Concat(xs) => {
                let mut parts = Vec::with_capacity(xs.len());
                for x in xs {
                    parts.push(self.eval_self(x)?);
                }
                Bv::concat_all(&parts).to_context(w, s)
            }
            EK::Repl(n, x) => self.eval_self(x)?.replicate(*n).to_context(w, s),
            EK::Cast {
                w: cw,
                s: cs,
                two_state: ts,
                e: x,
            } => {
                let v = self.eval_assign(x, *cw)?;
                let v = if *ts { two_state(&v) } else { v };
                v.with_signed(cs.unwrap_or(x.s)).to_context(w, s)
            }
            EK::SignCast(sg, x) => self.eval_self(x)?.with_signed(*sg).to_context(w, s),
            EK::Call(f, args) => self.call(*f, args)?.to_context(w, s),
            EK::Inside(x, items) => Bv::bit1(self.inside(x, items)?).to_context(w, s),
            EK::Sys(f, x) => {
                let v = self.eval_self(x)?;
                sys_fn(*f, &v).to_context(w, s)
            }
        })
    }

    /// 11.4.13: `==?` for values (x/z of the *item* are wildcards), `>= && <=`
    /// for ranges; the results are or-ed.
    fn inside(&mut self, x: &EExpr, items: &[InsideItem]) -> R<Bit> {
        let mut acc = Bit::Zero;
        for it in items {
            let m = match it {
                InsideItem::Val(v) => {
                    let cw = x.w.max(v.w);
                    let cs = x.s && v.s;
                    let a = self.eval(x, cw, cs)?;
                    let b = self.eval(v, cw, cs)?;
                    a.eq_wild(&b)
                }
                InsideItem::Range(l, h) => {
                    let lo = {
                        let cw = x.w.max(l.w);
                        let cs = x.s && l.s;
                        let a = self.eval(x, cw, cs)?;
                        let b = self.eval(l, cw, cs)?;
                        a.ge(&b)
                    };
                    let hi = {
                        let cw = x.w.max(h.w);
                        let cs = x.s && h.s;
                        let a = self.eval(x, cw, cs)?;
                        let b = self.eval(h, cw, cs)?;
                        a.le(&b)
                    };
                    lo.and(hi)
                }
            };
            acc = acc.or(m);
        }
        Ok(acc)
    }

    pub fn call(&mut self, f: FuncId, args: &[EExpr]) -> R<Bv> {
        let func = self.funcs[f].clone();
        if self.frames.len() > MAX_DEPTH {
            return fail("function call depth");
        }
        let mut vals = Vec::with_capacity(args.len());
        for ((_, vt, dir), a) in func.args.iter().zip(args) {
            if *dir != Dir::Input {
                return fail("function argument that is not an input");
            }
            let v = self.eval_assign(a, vt.ty.width)?.with_signed(vt.ty.signed);
            vals.push(if vt.ty.two_state { two_state(&v) } else { v });
        }
        self.push_frame(&func.locals);
        for ((slot, _, _), v) in func.args.iter().zip(vals) {
            self.frames.last_mut().unwrap()[*slot][0] = v;
        }
        let mut res = Ok(());
        for st in &func.body {
            match self.exec(st) {
                Ok(Flow::Return) => break,
                Ok(_) => {}
                Err(e) => {
                    res = Err(e);
                    break;
                }
            }
        }
        let out = match &func.ret {
            Some((slot, _)) => self.frames.last().unwrap()[*slot][0].clone(),
            None => Bv::zeros(1, false),
        };
        self.pop_frame();
        res?;
        Ok(out)
    }

    // ----- statements -----------------------------------------------------------

    pub fn exec(&mut self, st: &EStmt) -> R<Flow> {
        self.steps += 1;
        match st {
            EStmt::Null => {}
            EStmt::Block(v) => {
                for s in v {
                    match self.exec(s)? {
                        Flow::Normal => {}
                        f => return Ok(f),
                    }
                }
            }
            EStmt::Scoped(init, v) => {
                for (slot, vt) in init {
                    let f = self.frames.last_mut().ok_or_else(|| Unsupported::new("no frame"))?;
                    f[*slot] = vt.init();
                }
                for s in v {
                    match self.exec(s)? {
                        Flow::Normal => {}
                        f => return Ok(f),
                    }
                }
            }
            EStmt::Assign {
                lhs,
                rhs,
                nonblocking,
                ..
            } => self.assign(lhs, rhs, *nonblocking)?,
            EStmt::AssignArray { lhs, rhs, nonblocking } => {
                // evaluate every element first, then store
                let mut vals = vec![];
                for e in rhs {
                    vals.push(self.eval_assign(e, lhs.w)?.with_signed(lhs.s));
                }
                let n = vals.len();
                for (k, v) in vals.into_iter().enumerate() {
                    let mut r = lhs.clone();
                    let (idx, l, rr) = rest_index(&lhs.rest, k, n)?;
                    r.rest.clear();
                    for (j, i) in idx.iter().enumerate() {
                        r.uidx.push(UIdx {
                            e: const_int(*i),
                            left: l[j],
                            right: rr[j],
                            stride: stride_of(&lhs.rest, j),
                        });
                    }
                    self.write(&r, v, *nonblocking)?;
                }
            }
            EStmt::CopyArray { lhs, rhs, nonblocking } => {
                let n: usize = lhs.rest.iter().map(|(l, r)| (l - r).unsigned_abs() as usize + 1).product();
                let mut vals = vec![];
                for k in 0..n {
                    let mut r = rhs.clone();
                    let (idx, l, rr) = rest_index(&rhs.rest, k, n)?;
                    r.rest.clear();
                    for (j, i) in idx.iter().enumerate() {
                        r.uidx.push(UIdx {
                            e: const_int(*i),
                            left: l[j],
                            right: rr[j],
                            stride: stride_of(&rhs.rest, j),
                        });
                    }
                    vals.push(self.read(&r)?);
                }
                for (k, v) in vals.into_iter().enumerate() {
                    let mut r = lhs.clone();
                    let (idx, l, rr) = rest_index(&lhs.rest, k, n)?;
                    r.rest.clear();
                    for (j, i) in idx.iter().enumerate() {
                        r.uidx.push(UIdx {
                            e: const_int(*i),
                            left: l[j],
                            right: rr[j],
                            stride: stride_of(&lhs.rest, j),
                        });
                    }
                    let v = v.resize(lhs.w).with_signed(lhs.s);
                    self.write(&r, v, *nonblocking)?;
                }
            }
            EStmt::If(c, t, e) => {
                // 12.4: the else branch is taken when the condition is 0, x or z
                if self.eval_self(c)?.truth() == Truth::True {
                    return self.exec(t);
                } else if let Some(e) = e {
                    return self.exec(e);
                }
            }
            EStmt::Case {
                kind,
                inside,
                sel,
                arms,
                default,
                w,
                s,
            } => {
                for (items, body) in arms {
                    let mut hit = false;
                    for it in items {
                        let m = if *inside {
                            self.inside(sel, std::slice::from_ref(it))? == Bit::One
                        } else {
                            let InsideItem::Val(v) = it else {
                                return fail("range in a plain case");
                            };
                            let a = self.eval(sel, *w, *s)?;
                            let b = self.eval(v, *w, *s)?;
                            case_match(*kind, &a, &b)
                        };
                        if m {
                            hit = true;
                            break;
                        }
                    }
                    if hit {
                        return self.exec(body);
                    }
                }
                if let Some(d) = default {
                    return self.exec(d);
                }
            }
            EStmt::For { init, cond, step, body } => {
                self.exec(init)?;
                let mut n = 0u64;
                loop {
                    if self.eval_self(cond)?.truth() != Truth::True {
                        break;
                    }
                    match self.exec(body)? {
                        Flow::Break => break,
                        Flow::Return => return Ok(Flow::Return),
                        _ => {}
                    }
                    self.exec(step)?;
                    n += 1;
                    if n > MAX_LOOP {
                        return fail("loop iteration limit");
                    }
                }
            }
            EStmt::Break => return Ok(Flow::Break),
            EStmt::Continue => return Ok(Flow::Continue),
            EStmt::Return(e) => {
                if let Some(e) = e {
                    // the result slot is the last local by construction; the
                    // elaborator rewrote `return e` into an assignment + Return(None)
                    let _ = e;
                    return fail("internal: return with a value was not lowered");
                }
                return Ok(Flow::Return);
            }
            EStmt::SysTask(name, args) => {
                for a in args {
                    let _ = self.eval_self(a)?;
                }
                match name.as_str() {
                    "$finish" | "$stop" | "$fatal" => self.finished = true,
                    "$error" => self.errors_raised += 1,
                    _ => self.display_count += 1,
                }
            }
            EStmt::CallStmt(e) => {
                let _ = self.eval_self(e)?;
            }
        }
        Ok(Flow::Normal)
    }
}

fn const_int(i: i64) -> EExpr {
    EExpr {
        k: EK::Const(Bv::from_i64(i, 64, true)),
        w: 64,
        s: true,
    }
}

fn stride_of(dims: &[(i64, i64)], j: usize) -> usize {
    dims[j + 1..].iter().map(|(l, r)| (l - r).unsigned_abs() as usize + 1).product()
}

/// k-th element (row-major, left index first) of the remaining dimensions.
#[allow(clippy::type_complexity)]
fn rest_index(dims: &[(i64, i64)], k: usize, n: usize) -> R<(Vec<i64>, Vec<i64>, Vec<i64>)> {
    let total: usize = dims.iter().map(|(l, r)| (l - r).unsigned_abs() as usize + 1).product();
    if total != n {
        return fail("array assignment with a different number of elements");
    }
    let mut rem = k;
    let mut idx = vec![];
    for (j, (l, r)) in dims.iter().enumerate() {
        let st = stride_of(dims, j);
        let pos = (rem / st) as i64;
        rem %= st;
        idx.push(if l <= r { l + pos } else { l - pos });
    }
    Ok((idx, dims.iter().map(|d| d.0).collect(), dims.iter().map(|d| d.1).collect()))
}

pub fn two_state(v: &Bv) -> Bv {
    if !v.has_xz() {
        return v.clone();
    }
    Bv::new(v.bits().iter().map(|b| if b.is_xz() { Bit::Zero } else { *b }).collect(), v.signed())
}

fn merge_bits(old: &Bv, map: &[Option<usize>], value: &Bv) -> Bv {
    let mut bits = old.bits().to_vec();
    for (k, p) in map.iter().enumerate() {
        if let Some(p) = p {
            if *p < bits.len() {
                bits[*p] = value.bit(k);
            }
        }
    }
    Bv::new(bits, old.signed())
}

fn un_op(op: UnOp) -> vbv::UnOp {
    match op {
        UnOp::Plus => vbv::UnOp::Plus,
        UnOp::Minus => vbv::UnOp::Minus,
        UnOp::LogNot => vbv::UnOp::LogNot,
        UnOp::BitNot => vbv::UnOp::BitNot,
        UnOp::RedAnd => vbv::UnOp::RedAnd,
        UnOp::RedNand => vbv::UnOp::RedNand,
        UnOp::RedOr => vbv::UnOp::RedOr,
        UnOp::RedNor => vbv::UnOp::RedNor,
        UnOp::RedXor => vbv::UnOp::RedXor,
        UnOp::RedXnor => vbv::UnOp::RedXnor,
    }
}

/// 12.5 / 12.5.1: `case` compares with `===`; `casez` treats z (and `?`) in
/// either operand as don't-care, `casex` x and z.
fn case_match(kind: CaseKind, a: &Bv, b: &Bv) -> bool {
    for i in 0..a.width() {
        let (x, y) = (a.bit(i), b.bit(i));
        let dont_care = match kind {
            CaseKind::Case => false,
            CaseKind::Casez => x == Bit::Z || y == Bit::Z,
            CaseKind::Casex => x.is_xz() || y.is_xz(),
        };
        if !dont_care && x != y {
            return false;
        }
    }
    true
}

fn sys_fn(f: SysFn, v: &Bv) -> Bv {
    match f {
        SysFn::Clog2 => {
            // 20.8.1: the argument is treated as unsigned; $clog2(0) = 0
            match v.to_biguint() {
                None => Bv::all_x(32, true),
                Some(n) => {
                    let r = if n.bits() == 0 { 0 } else { (n - 1u32).bits() };
                    Bv::from_u64(r, 32, true)
                }
            }
        }
        SysFn::Countones => {
            let n = v.bits().iter().filter(|b| **b == Bit::One).count();
            Bv::from_u64(n as u64, 32, true)
        }
        SysFn::Onehot => {
            let n = v.bits().iter().filter(|b| **b == Bit::One).count();
            Bv::bit1(Bit::from_bool(n == 1))
        }
        SysFn::Onehot0 => {
            let n = v.bits().iter().filter(|b| **b == Bit::One).count();
            Bv::bit1(Bit::from_bool(n <= 1))
        }
        SysFn::Isunknown => Bv::bit1(Bit::from_bool(v.has_xz())),
    }
}
