//! Syntax tree of the SystemVerilog subset.

use std::rc::Rc;
use vbv::Bv;

#[derive(Clone, Debug, PartialEq)]
pub struct Path {
    /// `pkg::` / `$unit::` prefixes
    pub scope: Vec<String>,
    pub name: String,
}

#[derive(Clone, Copy, Debug, PartialEq, Eq)]
pub enum UnOp {
    Plus,
    Minus,
    LogNot,
    BitNot,
    RedAnd,
    RedNand,
    RedOr,
    RedNor,
    RedXor,
    RedXnor,
}

pub use vbv::BinOp;

#[derive(Clone, Debug, PartialEq)]
pub enum Expr {
    /// sized or unsized integer literal, already decoded
    Num(Bv),
    /// `'0 '1 'x 'z`
    Fill(vbv::Bit),
    Str(String),
    Real(String),
    Name(Path),
    /// `e.name`
    Member(Box<Expr>, String),
    /// `e[i]`
    Index(Box<Expr>, Box<Expr>),
    /// `e[l:r]`
    Range(Box<Expr>, Box<Expr>, Box<Expr>),
    /// `e[b+:w]`
    PlusRange(Box<Expr>, Box<Expr>, Box<Expr>),
    /// `e[b-:w]`
    MinusRange(Box<Expr>, Box<Expr>, Box<Expr>),
    Unary(UnOp, Box<Expr>),
    Binary(BinOp, Box<Expr>, Box<Expr>),
    Cond(Box<Expr>, Box<Expr>, Box<Expr>),
    Concat(Vec<Expr>),
    /// `{n{a, b}}`
    Repl(Box<Expr>, Vec<Expr>),
    Call(Path, Vec<Expr>),
    SysCall(String, Vec<Expr>),
    /// `target'(e)`
    Cast(Box<CastTarget>, Box<Expr>),
    /// `e inside {…}`
    Inside(Box<Expr>, Vec<InsideItem>),
    /// `T'{…}` or `'{…}`
    Pattern(Option<Box<DataType>>, Vec<PatItem>),
    /// a data type in expression position (`$bits(logic [3:0])`)
    Type(Box<DataType>),
}

#[derive(Clone, Debug, PartialEq)]
pub enum CastTarget {
    /// `signed'(e)` / `unsigned'(e)`
    Sign(bool),
    /// `const'(e)`
    Const,
    /// a keyword type: `int'(e)`, `logic [3:0]'(e)` is not SV, so no dims here
    Type(DataType),
    /// an expression: a size (`8'(e)`, `W'(e)`) or a type name (`T'(e)`) —
    /// decided by what the name denotes
    Expr(Expr),
}

#[derive(Clone, Debug, PartialEq)]
pub enum InsideItem {
    Val(Expr),
    Range(Expr, Expr),
}

#[derive(Clone, Debug, PartialEq)]
pub enum PatKey {
    Positional,
    Default,
    /// member name, or an index expression for arrays
    Key(Expr),
}

#[derive(Clone, Debug, PartialEq)]
pub struct PatItem {
    pub key: PatKey,
    /// replication `'{n{…}}` is unrolled by the parser into `rep` copies
    pub value: Expr,
}

#[derive(Clone, Copy, Debug, PartialEq, Eq)]
pub enum VecKind {
    Logic,
    Bit,
    Reg,
}

#[derive(Clone, Copy, Debug, PartialEq, Eq)]
pub enum AtomKind {
    Byte,
    Shortint,
    Int,
    Longint,
    Integer,
    Time,
}

#[derive(Clone, Debug, PartialEq)]
pub enum DataType {
    Vector {
        kind: VecKind,
        signed: bool,
        dims: Vec<(Expr, Expr)>,
    },
    Atom {
        kind: AtomKind,
        signed: Option<bool>,
    },
    /// typedef name (possibly `pkg::T`) with extra packed dimensions
    Named {
        path: Path,
        dims: Vec<(Expr, Expr)>,
    },
    Struct {
        /// `union` instead of `struct`
        union: bool,
        packed: bool,
        signed: bool,
        members: Vec<(DataType, String)>,
        dims: Vec<(Expr, Expr)>,
    },
    Enum {
        base: Option<Box<DataType>>,
        variants: Vec<(String, Option<Expr>)>,
        dims: Vec<(Expr, Expr)>,
    },
    /// `[signed] [dims]` without a keyword (parameters, nets)
    Implicit {
        signed: bool,
        dims: Vec<(Expr, Expr)>,
    },
    /// `type(expr)`
    TypeOf(Box<Expr>),
    /// string, real, shortreal, realtime, chandle, event, void
    Other(String),
}

/// Unpacked dimension: `[n]` or `[l:r]`.
#[derive(Clone, Debug, PartialEq)]
pub enum UDim {
    Size(Expr),
    Range(Expr, Expr),
}

#[derive(Clone, Debug, PartialEq)]
pub struct VarDecl {
    pub ty: DataType,
    pub name: String,
    pub udims: Vec<UDim>,
    pub init: Option<Expr>,
    pub line: u32,
    /// `localparam` inside a procedural block / function
    pub is_param: bool,
}

#[derive(Clone, Debug, PartialEq)]
pub struct ParamDecl {
    pub local: bool,
    /// `parameter type T = …`
    pub is_type: bool,
    pub ty: Option<DataType>,
    pub name: String,
    pub udims: Vec<UDim>,
    pub value: Option<Expr>,
    /// default of a type parameter
    pub type_value: Option<DataType>,
    pub line: u32,
}

#[derive(Clone, Copy, Debug, PartialEq, Eq)]
pub enum Dir {
    Input,
    Output,
    Inout,
    Ref,
}

#[derive(Clone, Debug, PartialEq)]
pub enum Port {
    Var {
        dir: Dir,
        /// `var`, `wire`, `tri` … as written
        net: Option<String>,
        decl: VarDecl,
    },
    /// `If.modport name` / `If name` / `interface.mp name`
    Interface {
        iface: String,
        modport: Option<String>,
        name: String,
        udims: Vec<UDim>,
    },
}

#[derive(Clone, Copy, Debug, PartialEq, Eq)]
pub enum Edge {
    Pos,
    Neg,
    Any,
}

#[derive(Clone, Copy, Debug, PartialEq, Eq)]
pub enum CaseKind {
    Case,
    Casez,
    Casex,
}

#[derive(Clone, Debug, PartialEq)]
pub enum Stmt {
    Null,
    Block {
        label: Option<String>,
        decls: Vec<VarDecl>,
        stmts: Vec<Stmt>,
    },
    /// `lhs = rhs` (op = None) or `lhs op= rhs`
    Blocking {
        lhs: Expr,
        op: Option<BinOp>,
        rhs: Expr,
        line: u32,
    },
    NonBlocking {
        lhs: Expr,
        rhs: Expr,
        line: u32,
    },
    /// `x++` / `x--` as a statement (delta = ±1)
    IncDec {
        lhs: Expr,
        inc: bool,
    },
    If {
        cond: Expr,
        then: Box<Stmt>,
        els: Option<Box<Stmt>>,
    },
    Case {
        kind: CaseKind,
        inside: bool,
        sel: Expr,
        arms: Vec<(Vec<InsideItem>, Stmt)>,
        default: Option<Box<Stmt>>,
    },
    For {
        /// declaration (`int i = 0`) or assignment
        init_decl: Option<VarDecl>,
        init: Option<Box<Stmt>>,
        cond: Expr,
        step: Box<Stmt>,
        body: Box<Stmt>,
    },
    Break,
    Continue,
    Return(Option<Expr>),
    /// task / function call as a statement (`$display(…)`, `f(x);`)
    Call(Expr),
    /// constructs that are recorded but have no effect on the synthesizable
    /// behaviour (immediate assertions)
    Ignored(String),
}

#[derive(Clone, Debug, PartialEq)]
pub struct FuncArg {
    pub dir: Dir,
    pub decl: VarDecl,
}

#[derive(Clone, Debug, PartialEq)]
pub struct Function {
    pub name: String,
    /// `None` = void
    pub ret: Option<DataType>,
    pub args: Vec<FuncArg>,
    pub decls: Vec<VarDecl>,
    pub body: Vec<Stmt>,
    pub line: u32,
}

#[derive(Clone, Debug, PartialEq)]
pub struct Connection {
    pub name: String,
    /// `.name` (implicit), `.name()` (open) or `.name(expr)`
    pub expr: Option<Expr>,
    pub implicit: bool,
}

#[derive(Clone, Debug, PartialEq)]
pub struct Instance {
    pub module: String,
    pub name: String,
    pub udims: Vec<UDim>,
    pub params: Vec<Connection>,
    pub ports: Vec<Connection>,
    pub line: u32,
}

#[derive(Clone, Debug, PartialEq)]
pub struct ModportItem {
    pub dir: Dir,
    pub name: String,
}

#[derive(Clone, Debug, PartialEq)]
pub enum Item {
    Var(VarDecl),
    /// `wire`/`tri` net declaration
    Net(VarDecl),
    Param(ParamDecl),
    Typedef {
        name: String,
        ty: DataType,
        udims: Vec<UDim>,
    },
    Import {
        pkg: String,
        /// `None` = `*`
        name: Option<String>,
    },
    Export,
    Function(Rc<Function>),
    Assign {
        lhs: Expr,
        rhs: Expr,
        line: u32,
    },
    AlwaysComb(Stmt, u32),
    AlwaysFf {
        events: Vec<(Edge, Expr)>,
        body: Stmt,
        line: u32,
    },
    /// `always @(…)` / `always_latch`
    AlwaysOther(String),
    Initial(Stmt),
    Final(Stmt),
    Instance(Instance),
    Modport {
        name: String,
        items: Vec<ModportItem>,
    },
    GenFor {
        var: String,
        init: Expr,
        cond: Expr,
        /// the step as an assignment to `var`
        step: Box<Stmt>,
        label: Option<String>,
        items: Vec<Item>,
    },
    GenIf {
        cond: Expr,
        then_label: Option<String>,
        then: Vec<Item>,
        els: Option<(Option<String>, Vec<Item>)>,
    },
    /// `begin : label … end` at item level
    GenBlock {
        label: Option<String>,
        items: Vec<Item>,
    },
    Genvar(String),
    /// recorded, without behaviour (`let`, assertions, …) — carrying the reason
    /// so that elaboration can refuse when the item matters
    Unsupported(String),
}

#[derive(Clone, Copy, Debug, PartialEq, Eq)]
pub enum UnitKind {
    Module,
    Interface,
    Package,
}

#[derive(Clone, Debug, PartialEq)]
pub struct Unit {
    pub kind: UnitKind,
    pub name: String,
    pub header_imports: Vec<(String, Option<String>)>,
    pub params: Vec<ParamDecl>,
    pub ports: Vec<Port>,
    pub items: Vec<Item>,
    pub line: u32,
}

#[derive(Clone, Debug, Default, PartialEq)]
pub struct SourceText {
    pub units: Vec<Rc<Unit>>,
    /// items of the compilation-unit scope
    pub unit_items: Vec<Item>,
}
