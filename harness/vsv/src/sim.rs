//! Event-driven simulation kernel (IEEE 1800-2017 clause 4, reduced to what a
//! design without delays needs): an active region in which triggered
//! processes run to completion one at a time, and an NBA region in which the
//! pending non-blocking updates are applied; the two alternate until nothing
//! is left (`settle`).

use crate::ast::{Dir, Edge};
use crate::elab::Elab;
use crate::ir::*;
use crate::{Unsupported, parse};
use std::collections::VecDeque;
use vbv::{Bit, Bv};

type R<T> = Result<T, Unsupported>;

pub struct Sim {
    e: Elab,
    /// signal → processes sensitive to it
    sens: Vec<Vec<usize>>,
    queue: VecDeque<usize>,
    queued: Vec<bool>,
    /// last sampled LSB of every event expression of every always_ff
    ff_last: Vec<Vec<Bit>>,
    started: bool,
    pub proc_runs: u64,
}

impl Sim {
    /// Parse `texts` (one compilation unit each), elaborate `top` with its
    /// default parameters.
    pub fn from_sv(texts: &[&str], top: &str) -> R<Sim> {
        let mut srcs = vec![];
        for t in texts {
            srcs.push(parse::parse(t)?);
        }
        Sim::from_parsed(&srcs, top)
    }

    pub fn from_parsed(srcs: &[crate::ast::SourceText], top: &str) -> R<Sim> {
        Sim::from_parsed_opts(srcs, top, false)
    }

    /// `lenient_scalar_select`: accept `x[0]` / `x[0:0]` on a scalar `x` (not
    /// legal IEEE 1800, accepted by no standard tool without a diagnostic).
    pub fn from_parsed_opts(srcs: &[crate::ast::SourceText], top: &str, lenient_scalar_select: bool) -> R<Sim> {
        let mut e = Elab::with_options(srcs, lenient_scalar_select)?;
        e.elaborate_top(top)?;
        e.m.const_only = false;
        let mut sens = vec![vec![]; e.signals.len()];
        for (i, p) in e.procs.iter().enumerate() {
            for &s in &p.sens {
                if !sens[s].contains(&i) {
                    sens[s].push(i);
                }
            }
        }
        let n = e.procs.len();
        let mut sim = Sim {
            e,
            sens,
            queue: VecDeque::new(),
            queued: vec![false; n],
            ff_last: vec![],
            started: false,
            proc_runs: 0,
        };
        // the event expressions start from the initial (x / 0) values
        let mut last = vec![];
        for i in 0..n {
            let mut v = vec![];
            if let ProcKind::Ff { events } = &sim.e.procs[i].kind {
                let events = events.clone();
                for (_, ex) in &events {
                    v.push(sim.e.m.eval_self(ex)?.bit(0));
                }
            }
            last.push(v);
        }
        sim.ff_last = last;
        Ok(sim)
    }

    pub fn ports(&self) -> &[PortInfo] {
        &self.e.ports
    }
    pub fn notes(&self) -> &[String] {
        &self.e.notes
    }
    pub fn n_signals(&self) -> usize {
        self.e.signals.len()
    }
    pub fn n_procs(&self) -> usize {
        self.e.procs.len()
    }
    pub fn n_ff_procs(&self) -> usize {
        self.e.procs.iter().filter(|p| matches!(p.kind, ProcKind::Ff { .. })).count()
    }
    pub fn finished(&self) -> bool {
        self.e.m.finished
    }

    fn port(&self, name: &str) -> Option<&PortInfo> {
        self.e.ports.iter().find(|p| p.name == name)
    }

    /// Drive a top-level input (the value is resized to the port like an
    /// assignment).  Takes effect at the next `settle`.
    pub fn set(&mut self, name: &str, v: &Bv) -> R<()> {
        let Some(p) = self.port(name) else {
            return Err(Unsupported::new(format!("no port {name}")));
        };
        if p.dir != Dir::Input {
            return Err(Unsupported::new(format!("port {name} is not an input")));
        }
        let (sig, w, s) = (p.sig, p.width, p.signed);
        let mut nv = v.resize(w).with_signed(s);
        if self.e.m.sig_two_state[sig] {
            nv = crate::exec::two_state(&nv);
        }
        if self.e.m.sigs[sig][0] != nv {
            self.e.m.sigs[sig][0] = nv;
            self.notify(sig)?;
        }
        Ok(())
    }

    pub fn get(&self, name: &str) -> Option<Bv> {
        self.port(name).map(|p| self.e.m.sigs[p.sig][0].clone())
    }

    /// Any signal by hierarchical name (`Top.u_sub.x`), element 0.
    pub fn signal(&self, path: &str) -> Option<Bv> {
        self.e.signals.iter().position(|s| s.name == path).map(|i| self.e.m.sigs[i][0].clone())
    }

    /// All signals with their current values (debugging / reproducers).
    pub fn dump(&self) -> Vec<(String, String)> {
        self.e
            .signals
            .iter()
            .enumerate()
            .map(|(i, s)| (s.name.clone(), self.e.m.sigs[i].iter().map(|v| v.to_string()).collect::<Vec<_>>().join(" ")))
            .collect()
    }

    fn enqueue(&mut self, p: usize) {
        if !self.queued[p] {
            self.queued[p] = true;
            self.queue.push_back(p);
        }
    }

    /// A signal changed: wake the processes sensitive to it.
    fn notify(&mut self, sig: SigId) -> R<()> {
        for k in 0..self.sens[sig].len() {
            let p = self.sens[sig][k];
            match &self.e.procs[p].kind {
                ProcKind::Comb => self.enqueue(p),
                ProcKind::Ff { events } => {
                    let events = events.clone();
                    let mut fire = false;
                    for (j, (edge, ex)) in events.iter().enumerate() {
                        let new = self.e.m.eval_self(ex)?.bit(0);
                        let old = std::mem::replace(&mut self.ff_last[p][j], new);
                        if old == new {
                            continue;
                        }
                        // 9.4.2: posedge = 0→1/x/z or x/z→1; negedge = 1→0/x/z or x/z→0
                        let pos = (old == Bit::Zero) || (new == Bit::One);
                        let neg = (old == Bit::One) || (new == Bit::Zero);
                        let hit = match edge {
                            Edge::Pos => pos && !(old.is_xz() && new.is_xz()),
                            Edge::Neg => neg && !(old.is_xz() && new.is_xz()),
                            Edge::Any => !(old.is_xz() && new.is_xz()),
                        };
                        fire |= hit;
                    }
                    if fire {
                        self.enqueue(p);
                    }
                }
            }
        }
        Ok(())
    }

    fn run_proc(&mut self, p: usize) -> R<()> {
        self.proc_runs += 1;
        self.e.m.touched.clear();
        let locals = self.e.procs[p].locals.clone();
        let body = self.e.procs[p].body.clone();
        self.e.m.push_frame(&locals);
        let r = self.e.m.exec(&body);
        self.e.m.pop_frame();
        r?;
        self.flush_touched()
    }

    fn flush_touched(&mut self) -> R<()> {
        let touched = std::mem::take(&mut self.e.m.touched);
        for (sig, old) in touched {
            if self.e.m.sigs[sig] != old {
                self.notify(sig)?;
            }
        }
        Ok(())
    }

    /// Run until no process is triggered and no non-blocking update is pending.
    pub fn settle(&mut self) -> R<()> {
        if !self.started {
            self.started = true;
            // 9.2.2.2.2: always_comb (and continuous assignments) evaluate once at time zero
            for p in 0..self.e.procs.len() {
                if matches!(self.e.procs[p].kind, ProcKind::Comb) {
                    self.enqueue(p);
                }
            }
        }
        let budget = 20_000 + 200 * self.e.procs.len() as u64;
        let mut runs = 0u64;
        loop {
            while let Some(p) = self.queue.pop_front() {
                self.queued[p] = false;
                self.run_proc(p)?;
                runs += 1;
                if runs > budget {
                    return Err(Unsupported::new("simulation does not converge (combinational loop?)"));
                }
            }
            if self.e.m.nba.is_empty() {
                break;
            }
            let nba = std::mem::take(&mut self.e.m.nba);
            self.e.m.touched.clear();
            for w in &nba {
                self.e.m.commit(w.sig, w.elem, &w.map, &w.value);
            }
            self.flush_touched()?;
        }
        Ok(())
    }
}

/// How the clock and reset pins of the top module are driven.
#[derive(Clone, Debug)]
pub struct Pins {
    /// (port, active edge is the rising one)
    pub clock: Option<(String, bool)>,
    /// (port, asserted level is 1)
    pub reset: Option<(String, bool)>,
}

fn bit(b: bool) -> Bv {
    Bv::bit1(Bit::from_bool(b))
}

impl Sim {
    /// Bring the pins to their idle levels (clock at the level before the
    /// active edge, reset released) with all data inputs at 0 and settle.
    pub fn tb_init(&mut self, pins: &Pins, inputs: &[(String, Bv)]) -> R<()> {
        if let Some((c, pos)) = &pins.clock {
            self.set(c, &bit(!*pos))?;
        }
        if let Some((r, high)) = &pins.reset {
            self.set(r, &bit(!*high))?;
        }
        for (n, v) in inputs {
            self.set(n, v)?;
        }
        self.settle()
    }

    /// One clock cycle of a synchronous test bench:
    /// 1. (clock idle) `junk` is applied to the data inputs, the clock makes its
    ///    *inactive* edge, then the real `inputs` are applied — a design that is
    ///    sensitive to the wrong edge captures the junk;
    /// 2. if `reset`, the reset pin is asserted (an asynchronous reset acts here);
    /// 3. the active clock edge;
    /// 4. the reset pin is released;
    /// 5. the caller samples the outputs (before the next active edge).
    /// The clock is left at its post-active-edge level; step 1 of the next
    /// cycle brings it back.
    pub fn tb_cycle(&mut self, pins: &Pins, junk: &[(String, Bv)], inputs: &[(String, Bv)], reset: bool) -> R<()> {
        if let Some((c, pos)) = &pins.clock {
            // make sure the clock sits at the post-active level, so that the next edge is the inactive one
            let cur = self.get(c).map(|v| v.bit(0));
            if cur == Some(Bit::from_bool(*pos)) {
                for (n, v) in junk {
                    self.set(n, v)?;
                }
                self.settle()?;
                self.set(c, &bit(!*pos))?;
                self.settle()?;
            }
        }
        for (n, v) in inputs {
            self.set(n, v)?;
        }
        self.settle()?;
        if reset {
            if let Some((r, high)) = &pins.reset {
                self.set(r, &bit(*high))?;
                self.settle()?;
            }
        }
        if let Some((c, pos)) = &pins.clock {
            self.set(c, &bit(*pos))?;
            self.settle()?;
        }
        if reset {
            if let Some((r, high)) = &pins.reset {
                self.set(r, &bit(!*high))?;
                self.settle()?;
            }
        }
        Ok(())
    }
}
