//! Hand-computed expectations from IEEE 1800-2017 for the simulator.
use vsv::{Bv, Pins, Sim};

fn u(v: u64, w: usize) -> Bv {
    Bv::from_u64(v, w, false)
}

fn comb(sv: &str, ins: &[(&str, Bv)], out: &str) -> String {
    let mut s = Sim::from_sv(&[sv], "t").unwrap();
    for (n, v) in ins {
        s.set(n, v).unwrap();
    }
    s.settle().unwrap();
    s.get(out).unwrap().to_string()
}

#[test]
fn context_width() {
    // 11.6.2: (a + b) >> 1 in a 16-bit context keeps the carry
    let sv = "module t(input var logic [15:0] a, input var logic [15:0] b, output var logic [15:0] o, output var logic [15:0] p);
        always_comb o = (a + b) >> 1;
        always_comb p = (a + b + 0) >> 1;
    endmodule";
    assert_eq!(comb(sv, &[("a", u(0xffff, 16)), ("b", u(1, 16))], "o"), "16'b0000000000000000");
    // with the 32-bit integer 0 the addition is 32 bits wide
    assert_eq!(comb(sv, &[("a", u(0xffff, 16)), ("b", u(1, 16))], "p"), "16'b1000000000000000");
}

#[test]
fn signedness() {
    let sv = "module t(input var logic signed [7:0] a, input var logic [7:0] b, output var logic [15:0] o, output var logic [15:0] p, output var logic q, output var logic signed [8:0] r);
        always_comb o = a;          // sign extension
        always_comb p = a + b;      // unsigned context: zero extension of a
        always_comb q = a < 8'sd0;  // signed comparison
        always_comb r = (a >>> 1) + a;
    endmodule";
    let a = Bv::from_i64(-2, 8, true);
    assert_eq!(comb(sv, &[("a", a.clone()), ("b", u(1, 8))], "o"), "16'b1111111111111110");
    assert_eq!(comb(sv, &[("a", a.clone()), ("b", u(1, 8))], "p"), "16'b0000000011111111");
    assert_eq!(comb(sv, &[("a", a.clone()), ("b", u(1, 8))], "q"), "1'b1");
    // 9-bit signed context: a = -2 → >>> 1 = -1, + -2 = -3
    assert_eq!(comb(sv, &[("a", a), ("b", u(1, 8))], "r"), "9'sb111111101");
}

#[test]
fn casts_and_selects() {
    let sv = "module t(input var logic [7:0] a, input var logic [2:0] i, output var logic [15:0] o, output var logic [7:0] p, output var logic [3:0] q, output var logic [7:0] r);
        always_comb o = 16'(a + 8'd255);   // cast is a context boundary of 16 bits
        always_comb p = {a[3:0], a[7:4]};
        always_comb q = a[i+:4];
        always_comb r = $signed(a[3:0]) + 8'd0;  // unsigned context
    endmodule";
    assert_eq!(comb(sv, &[("a", u(2, 8)), ("i", u(0, 3))], "o"), "16'b0000000100000001");
    assert_eq!(comb(sv, &[("a", u(0xa5, 8)), ("i", u(0, 3))], "p"), "8'b01011010");
    assert_eq!(comb(sv, &[("a", u(0xa5, 8)), ("i", u(6, 3))], "q"), "4'bxx10");
    assert_eq!(comb(sv, &[("a", u(0x0f, 8)), ("i", u(0, 3))], "r"), "8'b00001111");
}

#[test]
fn ff_async_reset_and_nba() {
    let sv = "module t(input var logic clk, input var logic rst_n, input var logic [7:0] d, output var logic [7:0] q, output var logic [7:0] q2);
        always_ff @ (posedge clk, negedge rst_n) begin
            if (!rst_n) begin
                q <= 8'h11;
                q2 <= 8'h22;
            end else begin
                q <= d;
                q2 <= q;   // samples the old q (NBA)
            end
        end
    endmodule";
    let mut s = Sim::from_sv(&[sv], "t").unwrap();
    let pins = Pins {
        clock: Some(("clk".into(), true)),
        reset: Some(("rst_n".into(), false)),
    };
    s.tb_init(&pins, &[("d".into(), u(0, 8))]).unwrap();
    assert!(s.get("q").unwrap().has_xz());
    s.tb_cycle(&pins, &[], &[("d".into(), u(5, 8))], true).unwrap();
    assert_eq!(s.get("q").unwrap(), u(0x11, 8));
    s.tb_cycle(&pins, &[("d".into(), u(0xee, 8))], &[("d".into(), u(5, 8))], false).unwrap();
    assert_eq!(s.get("q").unwrap(), u(5, 8));
    assert_eq!(s.get("q2").unwrap(), u(0x11, 8));
    s.tb_cycle(&pins, &[("d".into(), u(0xee, 8))], &[("d".into(), u(6, 8))], false).unwrap();
    assert_eq!(s.get("q").unwrap(), u(6, 8));
    assert_eq!(s.get("q2").unwrap(), u(5, 8));
    // asynchronous: asserting the reset without a clock edge resets
    s.set("rst_n", &u(0, 1)).unwrap();
    s.settle().unwrap();
    assert_eq!(s.get("q").unwrap(), u(0x11, 8));
}

#[test]
fn hierarchy_generate_function() {
    let sv = "package p; localparam int unsigned W = 8;
        function automatic logic [W-1:0] inc(input var logic [W-1:0] x); return x + 1; endfunction
    endpackage
    module sub #(parameter int unsigned P = 3)(input var logic [7:0] i, output var logic [7:0] o);
        always_comb o = i + 8'(P);
    endmodule
    module t import p::*; (input var logic [7:0] a, output var logic [7:0] o, output var logic [7:0] s, output var logic [7:0] f);
        logic [7:0] v [2];
        sub #(.P(5)) u (.i(a), .o(o));
        for (genvar i = 0; i < 2; i++) begin : g
            always_comb v[i] = a + i;
        end
        always_comb s = v[0] + v[1];
        always_comb f = p::inc(a);
    endmodule";
    assert_eq!(comb(sv, &[("a", u(10, 8))], "o"), u(15, 8).to_string());
    assert_eq!(comb(sv, &[("a", u(10, 8))], "s"), u(21, 8).to_string());
    assert_eq!(comb(sv, &[("a", u(255, 8))], "f"), u(0, 8).to_string());
}

#[test]
fn case_inside_struct() {
    let sv = "module t(input var logic [7:0] a, input var logic [1:0] sel, output var logic o3, output var logic [7:0] o4, output var logic [7:0] u);
        typedef struct packed { logic [3:0] hi; logic [3:0] lo; } S;
        S s;
        always_comb begin
            s.hi = a[7:4];
            s.lo = a[3:0] + 1;
            case (1'b1)
                sel == 0: u = a;
                sel == 1: u = a << 1;
                default : u = ~a;
            endcase
        end
        always_comb o3 = ((a) inside {1, [3:5], 8'hf0});
        always_comb o4 = s;
    endmodule";
    assert_eq!(comb(sv, &[("a", u(4, 8)), ("sel", u(1, 2))], "o3"), "1'b1");
    assert_eq!(comb(sv, &[("a", u(6, 8)), ("sel", u(1, 2))], "o3"), "1'b0");
    assert_eq!(comb(sv, &[("a", u(0x4f, 8)), ("sel", u(1, 2))], "o4"), u(0x40, 8).to_string());
    assert_eq!(comb(sv, &[("a", u(0x41, 8)), ("sel", u(1, 2))], "u"), u(0x82, 8).to_string());
    assert_eq!(comb(sv, &[("a", u(0x41, 8)), ("sel", u(2, 2))], "u"), u(0xbe, 8).to_string());
}
