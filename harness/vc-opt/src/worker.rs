//! The worker side of C03: one process = one toggle set (the switches are
//! read once per process into `OnceLock` statics, so they cannot be changed
//! inside a process).
//!
//! `vc-opt c03-worker <case.json>` reads a case (Veryl text, top module,
//! stimulus, list of engines), runs the stimulus on every listed engine with
//! whatever `VERYL_*` environment the parent gave this process, and prints
//!
//! * between `@@C03 CLIF-BEGIN <key>` / `@@C03 CLIF-END` lines: the Cranelift
//!   IR of every JIT chunk (`Config::dump_cranelift`, printed by the code
//!   generator itself) of a *separate* build that is only used for the
//!   structural summary (the dump switch also enables the Cranelift verifier,
//!   so the build that is simulated does not use it);
//! * one `@@C03 RESULT <json>` line: per engine the per-step value (and X/Z
//!   mask) of every output port, the `$display` text, the verdict of the
//!   native test bench if the case has one, and the structural summary of the
//!   simulator IR (`ProtoModule`: statements after all IR passes, buffer
//!   sizes, required comb passes, fused offsets, cone segments).

use num_bigint::BigUint;
use serde_json::{Value, json};
use std::collections::BTreeMap;
use vdesign::{Analyzed, PortSpec, StimStep, Stimulus, Trace, config_label};
use veryl_analyzer::ir as air;
use veryl_simulator::Config;
use veryl_simulator::backend::BackendRegistry;
use veryl_simulator::ir::{Context, Conv, Ir, ProtoModule, ProtoStatementBlock, build_ir};
use veryl_simulator::testbench::{TestResult, run_native_testbench};

pub const RESULT_MARK: &str = "@@C03 RESULT ";
pub const CLIF_BEGIN: &str = "@@C03 CLIF-BEGIN ";
pub const CLIF_END: &str = "@@C03 CLIF-END";
pub const DONE_MARK: &str = "@@C03 DONE";

pub fn stim_json(stim: &Stimulus) -> Value {
    json!({
        "clock": stim.clock, "reset": stim.reset,
        "inputs": stim.inputs.iter().map(|p| json!({"name": p.name, "width": p.width})).collect::<Vec<_>>(),
        "outputs": stim.outputs.iter().map(|p| json!({"name": p.name, "width": p.width})).collect::<Vec<_>>(),
        "steps": stim.steps.iter().map(|s| json!({
            "reset": s.reset,
            "values": s.values.iter().map(|v| format!("{v:x}")).collect::<Vec<_>>()
        })).collect::<Vec<_>>()
    })
}

pub fn stim_from(v: &Value) -> Stimulus {
    let ports = |x: &Value| -> Vec<PortSpec> {
        x.as_array()
            .map(|a| {
                a.iter()
                    .map(|p| PortSpec {
                        name: p["name"].as_str().unwrap_or("").to_string(),
                        width: p["width"].as_u64().unwrap_or(1) as usize,
                    })
                    .collect()
            })
            .unwrap_or_default()
    };
    Stimulus {
        clock: v["clock"].as_str().map(|s| s.to_string()),
        reset: v["reset"].as_str().map(|s| s.to_string()),
        inputs: ports(&v["inputs"]),
        outputs: ports(&v["outputs"]),
        steps: v["steps"]
            .as_array()
            .map(|a| {
                a.iter()
                    .map(|s| StimStep {
                        reset: s["reset"].as_bool().unwrap_or(false),
                        values: s["values"]
                            .as_array()
                            .map(|r| r.iter().map(|x| x.as_str().and_then(|t| BigUint::parse_bytes(t.as_bytes(), 16)).unwrap_or_default()).collect())
                            .unwrap_or_default(),
                    })
                    .collect()
            })
            .unwrap_or_default(),
    }
}

/// Engine label (`interp`, `jit`, `cc`, `+noffopt`, `+4st`) → configuration.
pub fn config_of(label: &str) -> Option<Config> {
    let base = label.split('+').next().unwrap_or("");
    let mut c = match base {
        "interp" => Config::default(),
        "jit" => Config {
            use_jit: true,
            ..Default::default()
        },
        // exactly the `cc` entries of `Config::all()`
        "cc" => Config {
            use_jit: true,
            aot_c: true,
            aot_c_event: true,
            aot_c_async: false,
            ..Default::default()
        },
        _ => return None,
    };
    for part in label.split('+').skip(1) {
        match part {
            "noffopt" => c.disable_ff_opt = true,
            "4st" => c.use_4state = true,
            _ => return None,
        }
    }
    if config_label(&c) != label {
        return None;
    }
    Some(c)
}

fn panic_text(e: Box<dyn std::any::Any + Send>) -> String {
    if let Some(s) = e.downcast_ref::<&str>() {
        s.to_string()
    } else if let Some(s) = e.downcast_ref::<String>() {
        s.clone()
    } else {
        "panic".into()
    }
}

fn trace_json(t: &Trace) -> Value {
    json!({
        "ok": true,
        "steps": t.steps.iter().map(|r| r.iter().map(|s| if s.xz == BigUint::default() { format!("{:x}", s.value) } else { format!("{:x}/{:x}", s.value, s.xz) }).collect::<Vec<_>>()).collect::<Vec<_>>(),
        "display": t.display,
        "jit": [t.jit_stats.0, t.jit_stats.1],
    })
}

fn find_module<'a>(ir: &'a air::Ir, top: &str) -> Option<&'a air::Module> {
    let id: veryl_parser::resource_table::StrId = top.into();
    for c in &ir.components {
        if let air::Component::Module(m) = c
            && m.name == id
        {
            return Some(m);
        }
    }
    None
}

/// The same steps as `veryl_simulator::ir::build_ir`, stopping at the
/// `ProtoModule` (what every IR-level pass has produced).
fn proto_of(a: &Analyzed, top: &str, config: &Config) -> Result<ProtoModule, String> {
    let m = find_module(&a.ir, top).ok_or("top module not found")?;
    let mut context = Context {
        config: config.clone(),
        backends: BackendRegistry::for_config(config),
        ..Default::default()
    };
    let r: Result<ProtoModule, _> = Conv::conv(&mut context, m);
    r.map_err(|e| format!("conv: {e}"))
}

/// Structural summary of the IR after all IR-level passes (taken from a
/// build without a code generator, so the statements stay visible).
fn proto_summary(p: &ProtoModule, four_state: bool) -> Value {
    let mut text = String::new();
    let mut top_stmts = 0usize;
    for b in &p.comb_statements.0 {
        match b {
            ProtoStatementBlock::Interpreted(v) => {
                top_stmts += v.len();
                for s in v {
                    text.push_str(&format!("{s:?}\n"));
                }
            }
            ProtoStatementBlock::Compiled(_) => text.push_str("<compiled>\n"),
        }
    }
    let comb_text_len = text.len();
    let mut evs: BTreeMap<String, String> = BTreeMap::new();
    let mut ev_stmts = 0usize;
    for (e, ss) in &p.event_statements {
        let mut t = String::new();
        for b in &ss.0 {
            match b {
                ProtoStatementBlock::Interpreted(v) => {
                    ev_stmts += v.len();
                    for s in v {
                        t.push_str(&format!("{s:?}\n"));
                    }
                }
                ProtoStatementBlock::Compiled(_) => t.push_str("<compiled>\n"),
            }
        }
        evs.insert(format!("{e:?}"), t);
    }
    for (k, v) in &evs {
        text.push_str(&format!("event {k}\n{v}"));
    }
    if std::env::var("C03_DUMP_IR").is_ok() {
        eprintln!("---- IR ({}-state)\n{text}", if four_state { 4 } else { 2 });
    }
    json!({
        "hash": format!("{:016x}", vcore::hash_str(&text)),
        "comb_stmts": top_stmts,
        "assigns": text.matches("ProtoAssignStatement").count(),
        "ifs": text.matches("ProtoIfStatement").count(),
        "comb_text": comb_text_len,
        "ev_stmts": ev_stmts,
        "comb_bytes": p.comb_bytes,
        "ff_bytes": p.ff_bytes,
        "passes": p.required_comb_passes,
        "fused": p.fused_comb_offsets.len(),
        "cones": p.cone_segments.len(),
    })
}

fn ir_summary(a: &Analyzed, top: &str, four_state: bool) -> Value {
    let config = Config {
        use_4state: four_state,
        ..Default::default()
    };
    let r = std::panic::catch_unwind(std::panic::AssertUnwindSafe(|| proto_of(a, top, &config)));
    match r {
        Ok(Ok(p)) => proto_summary(&p, four_state),
        Ok(Err(e)) => json!({"err": e}),
        Err(e) => json!({"err": format!("panic: {}", panic_text(e))}),
    }
}

/// `build_ir` step by step (`Conv::conv` → `instantiate` → `Ir::from_module`),
/// keeping the summary of the `ProtoModule` in between, then the run.
fn run_engine(a: &Analyzed, top: &str, cfg: &Config, stim: &Stimulus, want_summary: bool) -> Result<(Trace, Option<Value>), String> {
    let m = find_module(&a.ir, top).ok_or("top module not found")?;
    let proto = proto_of(a, top, cfg).map_err(|e| e.replacen("conv: ", "build_ir: ", 1))?;
    let sum = if want_summary { Some(proto_summary(&proto, cfg.use_4state)) } else { None };
    let module = proto.instantiate();
    let ir = Ir::from_module(module, cfg, m.token);
    let mut sim = veryl_simulator::Simulator::new(ir, None);
    let t = vdesign::sim::run_on(&mut sim, cfg, stim)?;
    // how often the cone gate skipped / ran a segment in this run (class only)
    let gate = sim.ir.cone_gate_state.borrow().as_ref().map(|g| (g.skipped, g.ran));
    let sum = match (sum, gate) {
        (Some(mut s), Some((sk, rn))) => {
            s["_gate_skipped"] = json!(sk);
            s["_gate_ran"] = json!(rn);
            Some(s)
        }
        (s, _) => s,
    };
    Ok((t, sum))
}

/// Separate build with `dump_cranelift`: the code generator prints the IR of
/// every chunk to stdout; the parent turns it into an opcode histogram.
fn clif_dump(a: &Analyzed, top: &str, four_state: bool, key: &str) {
    use std::io::Write;
    let config = Config {
        use_4state: four_state,
        use_jit: true,
        dump_cranelift: true,
        ..Default::default()
    };
    println!("{CLIF_BEGIN}{key}");
    let r = std::panic::catch_unwind(std::panic::AssertUnwindSafe(|| proto_of(a, top, &config).map(|_| ())));
    match r {
        Ok(Ok(())) => {}
        Ok(Err(e)) => println!("@@C03 CLIF-ERR {e}"),
        Err(e) => println!("@@C03 CLIF-ERR panic: {}", panic_text(e).replace('\n', " ")),
    }
    println!("{CLIF_END}");
    let _ = std::io::stdout().flush();
}

fn run_all(case: &Value) -> Value {
    let text = case["veryl"].as_str().unwrap_or("");
    let top = case["top"].as_str().unwrap_or("Top");
    let stim = stim_from(&case["stimulus"]);
    let engines: Vec<String> = case["engines"].as_array().map(|a| a.iter().filter_map(|x| x.as_str().map(|s| s.to_string())).collect()).unwrap_or_default();
    // "both" | "ir" | "clif" | "none"
    let mode = case["summary"].as_str().unwrap_or("none").to_string();
    let want_summary = mode == "both" || mode == "ir";
    let want_clif = mode == "both" || mode == "clif";
    let tb = case["tb"].as_str().map(|s| s.to_string());

    let a = match Analyzed::new(text) {
        Ok(a) => a,
        Err(r) => return json!({"analyze": {"rejected": r.to_string(), "stage": r.stage, "code": r.errors.first().map(|e| e.0.clone())}}),
    };
    let mut runs = serde_json::Map::new();
    let mut tbs = serde_json::Map::new();
    let mut sum = serde_json::Map::new();
    for label in &engines {
        let Some(cfg) = config_of(label) else {
            runs.insert(label.clone(), json!({"ok": false, "err": "unknown engine label"}));
            continue;
        };
        // the plain interpreter builds double as the source of the IR summary
        let sum_key = match label.as_str() {
            "interp" => Some("ir2"),
            "interp+4st" => Some("ir4"),
            _ => None,
        };
        let r = std::panic::catch_unwind(std::panic::AssertUnwindSafe(|| run_engine(&a, top, &cfg, &stim, want_summary && sum_key.is_some())));
        let v = match r {
            Ok(Ok((t, s))) => {
                if let (Some(k), Some(s)) = (sum_key, s) {
                    sum.insert(k.to_string(), s);
                }
                trace_json(&t)
            }
            Ok(Err(e)) => json!({"ok": false, "err": e}),
            Err(e) => {
                let _ = veryl_simulator::output_buffer::take();
                json!({"ok": false, "err": format!("panic: {}", panic_text(e))})
            }
        };
        runs.insert(label.clone(), v);
        if let Some(tb) = &tb {
            let r = std::panic::catch_unwind(std::panic::AssertUnwindSafe(|| -> Result<(String, String), String> {
                let ir = build_ir(&a.ir, tb.as_str().into(), &cfg).map_err(|e| format!("build_ir: {e}"))?;
                veryl_simulator::output_buffer::enable();
                let r = run_native_testbench(ir, None, tb.clone());
                let log = veryl_simulator::output_buffer::take();
                match r {
                    Ok(TestResult::Pass) => Ok(("pass".into(), log)),
                    Ok(TestResult::Fail(m)) => Ok((format!("fail: {m}"), log)),
                    Err(e) => Err(format!("run_native_testbench: {e}")),
                }
            }));
            let v = match r {
                Ok(Ok((verdict, log))) => json!({"ok": true, "verdict": verdict, "display": log}),
                Ok(Err(e)) => json!({"ok": false, "err": e}),
                Err(e) => {
                    let _ = veryl_simulator::output_buffer::take();
                    json!({"ok": false, "err": format!("panic: {}", panic_text(e))})
                }
            };
            tbs.insert(label.clone(), v);
        }
    }
    {
        let any2 = engines.iter().any(|l| !l.contains("4st"));
        let any4 = engines.iter().any(|l| l.contains("4st"));
        let jit2 = engines.iter().any(|l| !l.contains("4st") && !l.starts_with("interp"));
        let jit4 = engines.iter().any(|l| l.contains("4st") && !l.starts_with("interp"));
        if want_summary && any2 && !sum.contains_key("ir2") {
            sum.insert("ir2".into(), ir_summary(&a, top, false));
        }
        if want_summary && any4 && !sum.contains_key("ir4") {
            sum.insert("ir4".into(), ir_summary(&a, top, true));
        }
        if want_clif && jit2 {
            clif_dump(&a, top, false, "clif2");
        }
        if want_clif && jit4 {
            clif_dump(&a, top, true, "clif4");
        }
    }
    json!({"analyze": "ok", "runs": runs, "tb": tbs, "sum": sum, "warnings": a.warnings.len()})
}

pub fn main(args: &[String]) -> i32 {
    use std::io::Write;
    let Some(path) = args.first() else {
        eprintln!("usage: c03-worker <case.json>");
        return 2;
    };
    let text = match std::fs::read_to_string(path) {
        Ok(t) => t,
        Err(e) => {
            eprintln!("cannot read {path}: {e}");
            return 2;
        }
    };
    let case: Value = match serde_json::from_str(&text) {
        Ok(v) => v,
        Err(e) => {
            eprintln!("cannot parse {path}: {e}");
            return 2;
        }
    };
    let h = std::thread::Builder::new().stack_size(64 << 20).spawn(move || run_all(&case)).expect("spawn");
    match h.join() {
        Ok(v) => {
            println!("{RESULT_MARK}{v}");
            let _ = std::io::stdout().flush();
            0
        }
        Err(e) => {
            println!("@@C03 WORKER-PANIC {}", panic_text(e).replace('\n', " "));
            3
        }
    }
}

/// Server mode: one case file path per line on stdin; for each, the same
/// output as `main`, followed by a `@@C03 DONE` line.  Every case runs on a
/// fresh thread (the analyzer's tables are thread-local).
pub fn serve() -> i32 {
    use std::io::{BufRead, Write};
    let stdin = std::io::stdin();
    for line in stdin.lock().lines() {
        let Ok(line) = line else { break };
        let path = line.trim().to_string();
        if path.is_empty() {
            continue;
        }
        let case: Option<Value> = std::fs::read_to_string(&path).ok().and_then(|t| serde_json::from_str(&t).ok());
        match case {
            None => println!("@@C03 WORKER-PANIC cannot read case file"),
            Some(case) => {
                let h = std::thread::Builder::new().stack_size(64 << 20).spawn(move || run_all(&case)).expect("spawn");
                match h.join() {
                    Ok(v) => println!("{RESULT_MARK}{v}"),
                    Err(e) => println!("@@C03 WORKER-PANIC {}", panic_text(e).replace('\n', " ")),
                }
            }
        }
        println!("{DONE_MARK}");
        let _ = std::io::stdout().flush();
    }
    0
}
