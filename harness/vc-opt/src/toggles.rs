//! The optimisation switches of `veryl_simulator` that C03 flips.
//!
//! Every entry was read off the code of /repo (names, defaults, polarity):
//!
//! | pass (property text)      | variable                         | read at                                  |
//! | ------------------------- | -------------------------------- | ---------------------------------------- |
//! | comb fusion               | `VERYL_COMB_FUSION` (`!= "0"`)    | `ir/opt/comb_fusion.rs::enabled` (OnceLock; 2-state only) |
//! |   field-store coalescing  | `VERYL_COMB_FUSION_COALESCE`      | `comb_fusion.rs::coalesce_enabled` (OnceLock) |
//! |   per-word coalescing     | `VERYL_COMB_FUSION_WORD_COALESCE` | `comb_fusion.rs::word_coalesce_enabled` (OnceLock) |
//! |   cheap duplication       | `VERYL_COMB_FUSION_CHEAP`         | `comb_fusion.rs::cheap_enabled` (OnceLock) |
//! |   CSE                     | `VERYL_COMB_FUSION_CSE`           | `comb_fusion.rs::cse_enabled` (OnceLock) |
//! | cone gating               | `VERYL_CONE_GATE` (`!= "0"`)      | `ir/opt/cone_gate.rs::enabled` (OnceLock) |
//! | dead-variable elimination | `VERYL_DEAD_VAR_DCE` (`!= "0"`)   | `ir/opt/dead_var_dce.rs::enabled` (OnceLock) |
//! |   fix-point iteration     | `VERYL_DEAD_VAR_DCE_MULTI`        | `ir/module.rs::run_comb_pipeline` (every build) |
//! | version splitting         | `VERYL_VSPLIT` (`!= "0"`)         | `ir/opt/version_split.rs::pass_enabled` (OnceLock; 2-state only) |
//! |   LUT mode                | `VERYL_VSPLIT_LUT`                | `version_split.rs::lut_enabled` (OnceLock) |
//! | lane vectorisation        | `VERYL_LANE_VECTOR` (`!= "0"`)    | `ir/opt/lane_vector.rs::enabled` (OnceLock) |
//! |   transpose fold / merge  | `VERYL_LANE_FOLD`, `VERYL_LANE_MERGE` | `lane_vector.rs` (OnceLock)          |
//! | comb layout               | `VERYL_COMB_LAYOUT` (`!= "0"`)    | `ir/comb_layout.rs::enabled` (OnceLock; 2-state only) |
//! | conditional hoisting      | `VERYL_COND_HOIST_DISABLE` (`== "1"` disables) | `ir/module.rs` (every build) |
//! | switch lowering           | `VERYL_SWITCH_LOWER_DISABLE` (`== "1"` disables) | `backend/cranelift/statement.rs` (every chunk) |
//! | load caching              | `VERYL_FORCE_DISABLE_LOAD_CACHE` (`== "1"` disables) | `backend/cranelift/runtime.rs` (every chunk) |
//! |   Belady eviction         | `VERYL_STAGE7_LOOKAHEAD` (`!= "0"`) | `backend/cranelift/runtime.rs` (every chunk) |
//!
//! All passes are ON by default.  Most switches are process-global
//! (`OnceLock`), so a toggle set is a *process*: see `worker.rs`.

use vcore::Draw;

#[derive(Clone, Copy, Debug, PartialEq, Eq)]
pub enum Level {
    /// rewrites the simulator IR (`ProtoStatement`s / storage layout): every engine
    Ir,
    /// rewrites event statements (every engine)
    Event,
    /// inside the Cranelift code generator: JIT and the `cc` fall-back path only
    Clif,
}

#[derive(Clone, Copy, Debug)]
pub struct Toggle {
    /// short name used in labels and signatures
    pub name: &'static str,
    /// the pass of the property text this switch belongs to
    pub pass: &'static str,
    pub env: &'static str,
    /// value that switches the optimisation OFF
    pub off: &'static str,
    /// value that states the default (ON) explicitly
    pub on: &'static str,
    pub level: Level,
}

const fn t(name: &'static str, pass: &'static str, env: &'static str, off: &'static str, on: &'static str, level: Level) -> Toggle {
    Toggle {
        name,
        pass,
        env,
        off,
        on,
        level,
    }
}

pub const TOGGLES: &[Toggle] = &[
    t("fusion", "comb_fusion", "VERYL_COMB_FUSION", "0", "1", Level::Ir),
    t("fusion_coalesce", "comb_fusion", "VERYL_COMB_FUSION_COALESCE", "0", "1", Level::Ir),
    t("fusion_word_coalesce", "comb_fusion", "VERYL_COMB_FUSION_WORD_COALESCE", "0", "1", Level::Ir),
    t("fusion_cheap", "comb_fusion", "VERYL_COMB_FUSION_CHEAP", "0", "1", Level::Ir),
    t("fusion_cse", "comb_fusion", "VERYL_COMB_FUSION_CSE", "0", "1", Level::Ir),
    t("cone_gate", "cone_gating", "VERYL_CONE_GATE", "0", "1", Level::Ir),
    t("dce", "dead_var_dce", "VERYL_DEAD_VAR_DCE", "0", "1", Level::Ir),
    t("dce_multi", "dead_var_dce", "VERYL_DEAD_VAR_DCE_MULTI", "0", "1", Level::Ir),
    t("vsplit", "version_split", "VERYL_VSPLIT", "0", "1", Level::Ir),
    t("vsplit_lut", "version_split_lut", "VERYL_VSPLIT_LUT", "0", "1", Level::Ir),
    t("lane", "lane_vector", "VERYL_LANE_VECTOR", "0", "1", Level::Ir),
    t("lane_fold", "lane_vector", "VERYL_LANE_FOLD", "0", "1", Level::Ir),
    t("lane_merge", "lane_vector", "VERYL_LANE_MERGE", "0", "1", Level::Ir),
    t("layout", "comb_layout", "VERYL_COMB_LAYOUT", "0", "1", Level::Ir),
    t("cond_hoist", "cond_hoist", "VERYL_COND_HOIST_DISABLE", "1", "0", Level::Event),
    t("switch_lower", "switch_lowering", "VERYL_SWITCH_LOWER_DISABLE", "1", "0", Level::Clif),
    t("load_cache", "load_cache", "VERYL_FORCE_DISABLE_LOAD_CACHE", "1", "0", Level::Clif),
    t("lookahead", "load_cache", "VERYL_STAGE7_LOOKAHEAD", "0", "1", Level::Clif),
];

/// A toggle set = which switches are OFF; everything else is left unset
/// (defaults), or — `explicit` — stated with its ON value.
#[derive(Clone, Debug, PartialEq, Eq)]
pub struct ToggleSet {
    pub label: String,
    /// indices into `TOGGLES` that are switched off
    pub off: Vec<usize>,
    /// state the remaining switches explicitly with their ON value
    pub explicit: bool,
}

impl ToggleSet {
    pub fn baseline() -> ToggleSet {
        ToggleSet {
            label: "baseline".into(),
            off: vec![],
            explicit: false,
        }
    }
    pub fn single(i: usize) -> ToggleSet {
        ToggleSet {
            label: format!("off:{}", TOGGLES[i].name),
            off: vec![i],
            explicit: false,
        }
    }
    pub fn all_off() -> ToggleSet {
        ToggleSet {
            label: "all_off".into(),
            off: (0..TOGGLES.len()).collect(),
            explicit: false,
        }
    }
    pub fn all_on() -> ToggleSet {
        ToggleSet {
            label: "all_on".into(),
            off: vec![],
            explicit: true,
        }
    }
    pub fn subset(off: Vec<usize>, explicit: bool) -> ToggleSet {
        let names: Vec<&str> = off.iter().map(|&i| TOGGLES[i].name).collect();
        ToggleSet {
            label: format!("subset{}[{}]", if explicit { "!" } else { "" }, names.join(",")),
            off,
            explicit,
        }
    }
    /// Random subset: every switch off with probability 1/2 (an exhausted
    /// draw gives the empty subset, so it shrinks towards the baseline).
    pub fn draw(d: &mut Draw) -> ToggleSet {
        let explicit = d.chance(1, 4);
        let dense = d.bool();
        let mut off = vec![];
        for i in 0..TOGGLES.len() {
            if if dense { d.bool() } else { d.chance(1, 5) } {
                off.push(i);
            }
        }
        ToggleSet::subset(off, explicit)
    }
    /// (variable, value) pairs to set; every other toggle variable is removed
    /// from the worker's environment.
    pub fn env(&self) -> Vec<(&'static str, &'static str)> {
        let mut v = vec![];
        for (i, t) in TOGGLES.iter().enumerate() {
            if self.off.contains(&i) {
                v.push((t.env, t.off));
            } else if self.explicit {
                v.push((t.env, t.on));
            }
        }
        v
    }
    pub fn env_text(&self) -> String {
        let e = self.env();
        if e.is_empty() {
            "(no VERYL_* variable set)".into()
        } else {
            e.iter().map(|(k, v)| format!("{k}={v}")).collect::<Vec<_>>().join(" ")
        }
    }
}

/// Variables that must not leak from the caller's environment into a worker.
pub fn scrub_list() -> Vec<&'static str> {
    let mut v: Vec<&'static str> = TOGGLES.iter().map(|t| t.env).collect();
    v.extend([
        "VERYL_VSPLIT_MAX_NODES",
        "VERYL_VSPLIT_LUT_MAX",
        "VERYL_COMB_FUSION_LIMIT",
        "VERYL_COMB_FUSION_LIMIT_DUP",
        "VERYL_COMB_FUSION_CHEAP_KEEP",
        "VERYL_LANE_MERGE_MIN_OPS",
        "VERYL_STAGE7_LOOKAHEAD_CAP",
        "VERYL_DUMP_CRANELIFT",
        "VERYL_DUMP_ASM",
        "VERYL_MIN_PASSES_OVERRIDE",
        "VERYL_JIT_CHUNK_SIZE",
        "VERYL_EVENT_CHUNK_SIZE",
        "VERYL_WIDE_MASK_ELIDE",
        "VERYL_WIDE_DYNSEL",
        "VERYL_COLD_IF_TRUE",
        "VERYL_SCC_NARROW",
        "VERYL_SCC_BITAWARE",
        "VERYL_FF_CACHELINE_PAD",
        "VERYL_CONE_GATE_CHECK",
    ]);
    v
}
