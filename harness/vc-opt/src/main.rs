mod c03;
mod shapes;
mod toggles;
mod worker;

fn main() {
    let args: Vec<String> = std::env::args().skip(1).collect();
    let id = args.first().cloned().unwrap_or_default();
    vcore::quiet_panics();
    if id == "c03-worker" {
        std::process::exit(worker::main(&args[1..]));
    }
    if id == "c03-dev" {
        std::process::exit(c03::dev(&args[1..]));
    }
    if id == "c03-serve" {
        std::process::exit(worker::serve());
    }
    let ctx = vcore::Ctx::new(&id, &args[1.min(args.len())..]);
    match id.as_str() {
        "C03" => c03::run(&ctx),
        _ => {
            eprintln!("unknown property id {id:?}");
            std::process::exit(2);
        }
    }
}
