//! Pass-triggering shape templates for C03 (DESIGN.md: E2 dialect
//! "pass-triggering shapes").  Every template adds declarations and items to
//! a `vdesign` module (so the printer, the stimulus generator and the
//! structural minimiser work on the result); widths, constants, operators,
//! operand choices and counts are drawn.
//!
//! Only unsigned operands and the operators `+ - & | ^ ~ << >> == != <: >:`,
//! reductions, `if ? :`, concatenation and constant selects are used, with a
//! variable on the left of every literal — none of the shapes listed in
//! `vdesign::findings` (known engine defects) can arise.
//!
//! What each pass needs (read off /repo/crates/simulator/src/ir/opt/*.rs):
//!
//! * comb fusion: a comb definition with exactly one full-width reader, not
//!   visible from outside.  In the top module only `let` variables qualify
//!   (ports and `var`s are in the protect set); inside a child instance every
//!   variable does.  Cheap duplication: constants / copies / static selects
//!   with several readers.  Coalescing: disjoint field stores of one
//!   variable.  CSE: a repeated sub-expression.
//! * dead-variable elimination: a `let` nobody reads (cascades for the
//!   fix-point mode); a `let` read only by `$display` must survive.
//! * version splitting: `always_comb` with an unconditional base write and
//!   guarded full / partial overrides; LUT mode: ≥ 8 arms `sel == k` on one
//!   narrow selector with (mostly) constant values.
//! * lane vectorisation: a row written bit by bit and only reduced
//!   (transpose fold); ≥ 17 one-bit lanes of one bitwise operator (merge).
//! * switch lowering: ≥ 4 `sel == const` arms (case / switch / else-if).
//! * conditional hoisting: `always_ff` whose guarded body holds a `$display`.
//! * load caching: statements that load the same variables repeatedly; more
//!   than 12 distinct ones for the eviction policy.
//! * cone gating: a child instance with ≥ 300 comb statements in runs of
//!   ≥ 64; the stimulus holds the inputs for several steps.
//! * comb layout: any design with comb storage.

use num_bigint::BigUint;
use std::collections::BTreeSet;
use vcore::Draw;
use vdesign::*;

pub struct Sb {
    pub m: Module,
    uniq: u32,
    pub classes: BTreeSet<String>,
    /// readable combinational sources (inputs, shared temporaries)
    pub pool: Vec<DeclId>,
    /// true inside a child module: `var`s are not protected from the passes
    pub child: bool,
}

const BITOPS: &[BinOp] = &[BinOp::And, BinOp::Or, BinOp::Xor];
const ARITH: &[BinOp] = &[BinOp::Add, BinOp::Sub, BinOp::And, BinOp::Or, BinOp::Xor];

fn lit(w: u32, v: u64) -> Expr {
    Expr::lit_u(w, BigUint::from(v) & ((BigUint::from(1u8) << w) - 1u8))
}

fn small_width(d: &mut Draw) -> u32 {
    match d.weighted(&[4, 3, 2, 1]) {
        0 => d.range(2, 8) as u32,
        1 => d.range(9, 32) as u32,
        2 => d.range(33, 64) as u32,
        _ => *d.pick(&[1u32, 8, 16, 31, 32, 33, 63, 64]),
    }
}

impl Sb {
    pub fn new(m: Module, child: bool) -> Sb {
        let pool = m.inputs();
        Sb {
            m,
            uniq: 0,
            classes: BTreeSet::new(),
            pool,
            child,
        }
    }

    fn name(&mut self, p: &str) -> String {
        self.uniq += 1;
        format!("z{p}{}", self.uniq)
    }

    fn decl(&mut self, p: &str, kind: DeclKind, w: u32) -> DeclId {
        let name = self.name(p);
        self.m.decls.push(Decl {
            name,
            kind,
            ty: Ty::u(w),
            syntax: TySyntax::Logic,
            array: None,
            value: None,
            init: None,
        });
        self.m.decls.len() - 1
    }

    pub fn input(&mut self, w: u32) -> DeclId {
        let id = self.decl("i", DeclKind::Input, w);
        self.pool.push(id);
        id
    }

    pub fn output(&mut self, w: u32) -> DeclId {
        self.decl("o", DeclKind::Output, w)
    }

    fn var(&mut self, w: u32) -> DeclId {
        self.decl("v", DeclKind::Var, w)
    }

    fn let_(&mut self, w: u32, rhs: Expr) -> DeclId {
        let id = self.decl("t", DeclKind::Let, w);
        self.m.items.push(Item::Let { decl: id, rhs });
        id
    }

    /// an internal value: `let` in the top module, `let` or `var` + `assign` in a child
    fn temp(&mut self, d: &mut Draw, w: u32, rhs: Expr) -> DeclId {
        if self.child && d.bool() {
            let id = self.var(w);
            self.m.items.push(Item::Assign { lhs: Ref::whole(id), rhs });
            id
        } else {
            self.let_(w, rhs)
        }
    }

    fn assign(&mut self, lhs: Ref, rhs: Expr) {
        self.m.items.push(Item::Assign { lhs, rhs });
    }

    fn out_assign(&mut self, w: u32, rhs: Expr) -> DeclId {
        let o = self.output(w);
        self.assign(Ref::whole(o), rhs);
        o
    }

    pub fn ensure_clk(&mut self) {
        if self.m.clock().is_none() {
            self.m.decls.push(Decl {
                name: "clk".into(),
                kind: DeclKind::Clock,
                ty: Ty::BIT,
                syntax: TySyntax::Logic,
                array: None,
                value: None,
                init: None,
            });
            self.m.decls.push(Decl {
                name: "rst".into(),
                kind: DeclKind::Reset,
                ty: Ty::BIT,
                syntax: TySyntax::Logic,
                array: None,
                value: None,
                init: None,
            });
        }
    }

    fn w(&self, id: DeclId) -> u32 {
        self.m.decls[id].ty.w
    }

    fn class(&mut self, c: &str) {
        self.classes.insert(c.to_string());
    }

    /// make sure there are at least `n` plain unsigned scalar sources
    pub fn ensure_inputs(&mut self, d: &mut Draw, n: usize) {
        let ok = |m: &Module, id: DeclId| {
            let dd = &m.decls[id];
            !dd.ty.signed && dd.array.is_none() && matches!(dd.syntax, TySyntax::Logic | TySyntax::Bit)
        };
        let pool: Vec<DeclId> = self.pool.iter().copied().filter(|&id| ok(&self.m, id)).collect();
        self.pool = pool;
        while self.pool.len() < n {
            let w = small_width(d);
            self.input(w);
        }
    }

    /// a variable operand of exactly `w` bits (select of a wider one, zero
    /// extension of a narrower one)
    fn operand(&mut self, d: &mut Draw, w: u32) -> Expr {
        let id = *d.pick(&self.pool);
        self.fit(d, id, w)
    }

    fn fit(&mut self, d: &mut Draw, id: DeclId, w: u32) -> Expr {
        let sw = self.w(id);
        if sw == w {
            Expr::var(id)
        } else if sw > w {
            let lo = d.below(sw - w + 1);
            let sel = if w == 1 { Sel::BitC(CIdx::Num(lo)) } else { Sel::Range(CIdx::Num(lo + w - 1), CIdx::Num(lo)) };
            Expr::Ref(Ref {
                decl: id,
                idx: None,
                field: None,
                sel,
            })
        } else if d.bool() {
            // context extension of the unsigned operand
            Expr::var(id)
        } else {
            Expr::Concat(vec![(lit(w - sw, 0), None), (Expr::var(id), None)])
        }
    }

    fn value(&mut self, d: &mut Draw, w: u32) -> Expr {
        Expr::lit_u(w, gen_value(d, w))
    }

    /// unsigned expression of `w` bits over the pool
    pub fn expr(&mut self, d: &mut Draw, w: u32, depth: u32) -> Expr {
        if depth == 0 {
            return self.operand(d, w);
        }
        if w == 1 {
            return match d.weighted(&[2, 3, 2, 2]) {
                0 => self.operand(d, 1),
                1 => {
                    let k = small_width(d).min(40);
                    let op = *d.pick(&[BinOp::Eq, BinOp::Ne, BinOp::Lt, BinOp::Gt, BinOp::Le, BinOp::Ge]);
                    let a = self.expr(d, k, depth - 1);
                    let b = if d.bool() { self.value(d, k) } else { self.expr(d, k, depth - 1) };
                    Expr::bin(op, a, b)
                }
                2 => {
                    let k = small_width(d);
                    let op = *d.pick(&[UnOp::RedOr, UnOp::RedAnd, UnOp::RedXor]);
                    let a = self.operand(d, k);
                    Expr::un(op, a)
                }
                _ => {
                    let op = *d.pick(BITOPS);
                    let a = self.expr(d, 1, depth - 1);
                    let b = self.expr(d, 1, depth - 1);
                    Expr::bin(op, a, b)
                }
            };
        }
        match d.weighted(&[5, 2, 2, 2, 2]) {
            0 => {
                let op = *d.pick(ARITH);
                let a = self.expr(d, w, depth - 1);
                let b = if d.chance(1, 4) && !matches!(a, Expr::Lit(_)) { self.value(d, w) } else { self.expr(d, w, depth - 1) };
                Expr::bin(op, a, b)
            }
            1 => {
                let a = self.expr(d, w, depth - 1);
                Expr::un(UnOp::BitNot, a)
            }
            2 if w <= 64 => {
                let c = self.expr(d, 1, depth - 1);
                let a = self.expr(d, w, depth - 1);
                let b = self.expr(d, w, depth - 1);
                Expr::If(Box::new(c), Box::new(a), Box::new(b))
            }
            3 => {
                let op = *d.pick(&[BinOp::Shl, BinOp::Shr]);
                let a = self.operand(d, w);
                let k = d.below(w.min(31)) as u64;
                Expr::bin(op, a, lit(5, k))
            }
            4 if w >= 2 => {
                let a = d.range(1, w as i64 - 1) as u32;
                let x = self.expr(d, a, depth - 1);
                let y = self.expr(d, w - a, depth - 1);
                Expr::Concat(vec![(x, None), (y, None)])
            }
            _ => self.operand(d, w),
        }
    }

    fn cond(&mut self, d: &mut Draw) -> Expr {
        self.expr(d, 1, 1)
    }

    // ------------------------------------------------------------------
    // templates
    // ------------------------------------------------------------------

    /// chain of single-reader temporaries, optionally with a second reader
    pub fn fusion_chain(&mut self, d: &mut Draw) {
        let w = small_width(d);
        let n = d.range(2, 6) as usize;
        let e0 = self.expr(d, w, 1);
        let mut cur = self.temp(d, w, e0);
        let mut chain = vec![cur];
        for _ in 1..n {
            let op = *d.pick(ARITH);
            let b = if d.chance(1, 4) { self.value(d, w) } else { self.expr(d, w, 1) };
            let e = if d.chance(1, 5) {
                let c = self.cond(d);
                if w <= 64 { Expr::If(Box::new(c), Box::new(Expr::var(cur)), Box::new(b)) } else { Expr::bin(op, Expr::var(cur), b) }
            } else {
                Expr::bin(op, Expr::var(cur), b)
            };
            cur = self.temp(d, w, e);
            chain.push(cur);
        }
        let op = *d.pick(ARITH);
        let b = self.operand(d, w);
        self.out_assign(w, Expr::bin(op, Expr::var(cur), b));
        self.class("shape:fusion_chain");
        if d.chance(1, 3) {
            // a temporary with two readers: must not be dropped / must keep its value
            let k = *d.pick(&chain);
            let b = self.operand(d, w);
            self.out_assign(w, Expr::bin(BinOp::Xor, Expr::var(k), b));
            self.class("shape:fusion_two_readers");
        }
        if d.chance(1, 4) {
            // the chain end also feeds a register
            self.ensure_clk();
            let o = self.output(w);
            self.m.items.push(Item::AlwaysFf {
                reset: vec![Stmt::Assign {
                    lhs: Ref::whole(o),
                    op: AssignOp::Set,
                    rhs: lit(w.min(32), 0),
                }],
                body: vec![Stmt::Assign {
                    lhs: Ref::whole(o),
                    op: AssignOp::Set,
                    rhs: Expr::var(*d.pick(&chain)),
                }],
                explicit: false,
            });
            self.class("shape:fusion_event_reader");
        }
    }

    /// cheap right-hand sides (copy, constant, static select) with several readers; a repeated sub-expression
    pub fn cheap_and_cse(&mut self, d: &mut Draw) {
        let w = small_width(d);
        let rhs = match d.below(3) {
            0 => self.operand(d, w),
            1 => self.value(d, w),
            _ => {
                let id = *d.pick(&self.pool);
                Expr::var(id)
            }
        };
        let w = match &rhs {
            Expr::Ref(r) if matches!(r.sel, Sel::None) => self.w(r.decl),
            _ => w,
        };
        let c = self.temp(d, w, rhs);
        let readers = d.range(2, 4);
        for _ in 0..readers {
            let op = *d.pick(ARITH);
            let b = self.operand(d, w);
            self.out_assign(w, Expr::bin(op, Expr::var(c), b));
        }
        self.class("shape:cheap_multi_reader");
        // common sub-expression in several statements
        let w2 = small_width(d);
        let sub = {
            let a = self.operand(d, w2);
            let b = self.operand(d, w2);
            Expr::bin(*d.pick(ARITH), a, b)
        };
        let n = d.range(2, 3);
        for _ in 0..n {
            let b = self.operand(d, w2);
            let e = Expr::bin(*d.pick(ARITH), sub.clone(), b);
            if d.bool() {
                self.out_assign(w2, e);
            } else {
                let t = self.temp(d, w2, e);
                let b = self.operand(d, w2);
                self.out_assign(w2, Expr::bin(BinOp::Xor, Expr::var(t), b));
            }
        }
        self.class("shape:cse");
    }

    /// disjoint field stores of one variable (narrow and wider than a word)
    pub fn field_stores(&mut self, d: &mut Draw) {
        let w = if d.chance(1, 3) { d.range(65, 130) as u32 } else { d.range(4, 64) as u32 };
        // the stored variable: an output, or (child) an internal var read once
        let internal = self.child && d.bool();
        let v = if internal { self.var(w) } else { self.output(w) };
        let mut lo = 0u32;
        let mut fields = vec![];
        while lo < w {
            let fw = (1 + d.below(16)).min(w - lo);
            fields.push((lo, fw));
            lo += fw;
        }
        // in any order
        let n = fields.len();
        for i in (1..n).rev() {
            let j = d.below(i as u32 + 1) as usize;
            fields.swap(i, j);
        }
        for (lo, fw) in fields {
            let e = self.expr(d, fw, 1);
            let sel = if fw == 1 { Sel::BitC(CIdx::Num(lo)) } else { Sel::Range(CIdx::Num(lo + fw - 1), CIdx::Num(lo)) };
            self.assign(
                Ref {
                    decl: v,
                    idx: None,
                    field: None,
                    sel,
                },
                e,
            );
        }
        if internal {
            let b = self.operand(d, w.min(64));
            if w <= 64 {
                self.out_assign(w, Expr::bin(BinOp::Xor, Expr::var(v), b));
            } else {
                self.out_assign(w, Expr::un(UnOp::BitNot, Expr::var(v)));
            }
        }
        self.class(if w > 64 { "shape:field_stores_wide" } else { "shape:field_stores" });
    }

    /// variables nobody reads, cascades, and a variable only `$display` reads
    pub fn dead_vars(&mut self, d: &mut Draw) {
        let n = d.range(1, 3);
        for _ in 0..n {
            let w = small_width(d);
            let e = self.expr(d, w, 2);
            let t = self.temp(d, w, e);
            if d.bool() {
                // cascade: dead only after its reader is gone
                let b = self.operand(d, w);
                let op = *d.pick(ARITH);
                let t2 = self.temp(d, w, Expr::bin(op, Expr::var(t), b));
                if d.bool() {
                    let b = self.operand(d, w);
                    let op = *d.pick(ARITH);
                    let _ = self.temp(d, w, Expr::bin(op, Expr::var(t2), b));
                }
                self.class("shape:dead_cascade");
            }
        }
        self.class("shape:dead_var");
        if d.chance(1, 2) {
            self.ensure_clk();
            let w = small_width(d);
            let e = self.expr(d, w, 1);
            let t = self.temp(d, w, e);
            let cnt = self.output(4);
            self.m.items.push(Item::AlwaysFf {
                reset: vec![Stmt::Assign {
                    lhs: Ref::whole(cnt),
                    op: AssignOp::Set,
                    rhs: lit(4, 0),
                }],
                body: vec![
                    Stmt::Assign {
                        lhs: Ref::whole(cnt),
                        op: AssignOp::Set,
                        rhs: Expr::bin(BinOp::Add, Expr::var(cnt), lit(4, 1)),
                    },
                    Stmt::Display {
                        fmt: "dbg %h".into(),
                        args: vec![Expr::var(t)],
                    },
                ],
                explicit: false,
            });
            self.class("shape:display_only_reader");
        }
    }

    /// `always_comb` priority chain: base write, guarded full / partial overrides, reads in between
    pub fn version_chain(&mut self, d: &mut Draw) {
        let w = d.range(2, 64) as u32;
        let x = if self.child && d.bool() { self.var(w) } else { self.output(w) };
        let mut body = vec![];
        let e0 = if d.bool() { self.value(d, w) } else { self.expr(d, w, 1) };
        body.push(Stmt::Assign {
            lhs: Ref::whole(x),
            op: AssignOp::Set,
            rhs: e0,
        });
        let mut side: Option<DeclId> = None;
        let n = d.range(1, 6);
        for k in 0..n {
            let c = self.cond(d);
            let partial = d.chance(1, 3) && w >= 4;
            let st = if partial {
                let fw = d.range(1, (w / 2) as i64) as u32;
                let lo = d.below(w - fw + 1);
                let e = self.expr(d, fw, 1);
                let sel = if fw == 1 { Sel::BitC(CIdx::Num(lo)) } else { Sel::Range(CIdx::Num(lo + fw - 1), CIdx::Num(lo)) };
                Stmt::Assign {
                    lhs: Ref {
                        decl: x,
                        idx: None,
                        field: None,
                        sel,
                    },
                    op: AssignOp::Set,
                    rhs: e,
                }
            } else {
                let e = if d.chance(1, 4) {
                    // reads the previous version
                    let b = self.operand(d, w);
                    Expr::bin(*d.pick(ARITH), Expr::var(x), b)
                } else {
                    self.expr(d, w, 1)
                };
                Stmt::Assign {
                    lhs: Ref::whole(x),
                    op: AssignOp::Set,
                    rhs: e,
                }
            };
            if d.chance(1, 5) {
                body.push(st); // unconditional second write
            } else if d.chance(1, 4) {
                let e2 = self.expr(d, w, 1);
                body.push(Stmt::If {
                    cond: c,
                    then: vec![st],
                    els: vec![Stmt::Assign {
                        lhs: Ref::whole(x),
                        op: AssignOp::Set,
                        rhs: e2,
                    }],
                });
            } else {
                body.push(Stmt::If {
                    cond: c,
                    then: vec![st],
                    els: vec![],
                });
            }
            if k == 0 && d.chance(1, 3) {
                // another target reads an intermediate version
                let y = self.output(w);
                side = Some(y);
                let b = self.operand(d, w);
                body.push(Stmt::Assign {
                    lhs: Ref::whole(y),
                    op: AssignOp::Set,
                    rhs: Expr::bin(BinOp::Xor, Expr::var(x), b),
                });
                self.class("shape:vsplit_mid_read");
            }
        }
        let _ = side;
        self.m.items.push(Item::AlwaysComb(body));
        if self.m.decls[x].kind == DeclKind::Var {
            let b = self.operand(d, w);
            self.out_assign(w, Expr::bin(BinOp::Add, Expr::var(x), b));
        }
        self.class("shape:vsplit_chain");
    }

    /// decoder: one narrow selector, ≥ 8 arms, constant (and a few non-constant) values
    pub fn lut_decoder(&mut self, d: &mut Draw) {
        let sw = d.range(3, 7) as u32;
        let sel = self.operand(d, sw);
        let n_out = d.range(1, 3) as usize;
        // LUT mode needs a power-of-two destination width and at most 8 distinct arm values
        let ows: Vec<u32> = (0..n_out).map(|_| if d.chance(4, 5) { *d.pick(&[1u32, 2, 4, 8, 16, 32, 64]) } else { d.range(1, 24) as u32 }).collect();
        let outs: Vec<DeclId> = ows.iter().map(|&w| self.output(w)).collect();
        let n_arms = d.range(8, (1i64 << sw).min(20)) as usize;
        let mut vals: Vec<u64> = (0..(1u64 << sw)).collect();
        for i in (1..vals.len()).rev() {
            let j = d.below(i as u32 + 1) as usize;
            vals.swap(i, j);
        }
        vals.truncate(n_arms);
        // per output a small palette of values (one of them now and then not a constant)
        let mut palettes: Vec<Vec<Expr>> = vec![];
        for &w in &ows {
            let k = if d.chance(1, 6) { d.range(9, 12) } else { d.range(2, 7) } as usize;
            let mut p = vec![];
            for _ in 0..k {
                let e = if d.chance(1, 10) { self.expr(d, w, 1) } else { self.value(d, w) };
                p.push(e);
            }
            palettes.push(p);
        }
        let mut body = vec![];
        for (oi, o) in outs.iter().enumerate() {
            let e = palettes[oi][0].clone();
            body.push(Stmt::Assign {
                lhs: Ref::whole(*o),
                op: AssignOp::Set,
                rhs: e,
            });
        }
        let arm_body = |_this: &mut Sb, d: &mut Draw| -> Vec<Stmt> {
            let mut b = vec![];
            for (oi, o) in outs.iter().enumerate() {
                if d.chance(4, 5) {
                    let e = d.pick(&palettes[oi]).clone();
                    b.push(Stmt::Assign {
                        lhs: Ref::whole(*o),
                        op: AssignOp::Set,
                        rhs: e,
                    });
                }
            }
            b
        };
        match d.below(3) {
            0 => {
                let arms = vals.iter().map(|&v| (vec![RangeItem::Val(lit(sw, v))], arm_body(self, d))).collect();
                body.push(Stmt::Case {
                    sel: sel.clone(),
                    arms,
                    default: if d.bool() { Some(arm_body(self, d)) } else { None },
                });
                self.class("shape:lut_case");
            }
            1 => {
                let arms = vals.iter().map(|&v| (vec![Expr::bin(BinOp::Eq, sel.clone(), lit(sw, v))], arm_body(self, d))).collect();
                body.push(Stmt::Switch {
                    arms,
                    default: if d.bool() { Some(arm_body(self, d)) } else { None },
                });
                self.class("shape:lut_switch");
            }
            _ => {
                let mut chain: Vec<Stmt> = vec![];
                for &v in vals.iter().rev() {
                    let b = arm_body(self, d);
                    chain = vec![Stmt::If {
                        cond: Expr::bin(BinOp::Eq, sel.clone(), lit(sw, v)),
                        then: b,
                        els: chain,
                    }];
                }
                body.extend(chain);
                self.class("shape:lut_else_if");
            }
        }
        self.m.items.push(Item::AlwaysComb(body));
    }

    /// per-bit rows that are only reduced; per-lane bitwise loops
    pub fn lanes(&mut self, d: &mut Draw) {
        if d.chance(2, 5) {
            // transpose fold: row written bit by bit, read by one reduction
            let w = d.range(2, 24) as u32;
            let a = self.operand(d, w);
            let b = self.operand(d, w);
            let (Expr::Ref(ra), Expr::Ref(rb)) = (&a, &b) else {
                return;
            };
            let row = self.var(w);
            let bit = |r: &Ref, base_w: u32, i: u32| -> Expr {
                // bit i of the operand (the operand may itself be a range select)
                let off = match &r.sel {
                    Sel::Range(_, CIdx::Num(lo)) => *lo,
                    Sel::BitC(CIdx::Num(lo)) => *lo,
                    _ => 0,
                };
                let _ = base_w;
                Expr::Ref(Ref {
                    decl: r.decl,
                    idx: None,
                    field: None,
                    sel: Sel::BitC(CIdx::Num(off + i)),
                })
            };
            let wa = self.w(ra.decl);
            let wb = self.w(rb.decl);
            let op = *d.pick(BITOPS);
            let rot = d.below(w);
            for i in 0..w {
                let ia = if matches!(ra.sel, Sel::None) { i % wa } else { i };
                let ib = if matches!(rb.sel, Sel::None) { ((i + rot) % w) % wb } else { (i + rot) % w };
                let e = Expr::bin(op, bit(ra, wa, ia), bit(rb, wb, ib));
                self.assign(
                    Ref {
                        decl: row,
                        idx: None,
                        field: None,
                        sel: Sel::BitC(CIdx::Num(i)),
                    },
                    e,
                );
            }
            let red = *d.pick(&[UnOp::RedOr, UnOp::RedAnd, UnOp::RedXor]);
            let c = self.operand(d, 1);
            self.out_assign(1, Expr::bin(BinOp::Xor, Expr::un(red, Expr::var(row)), c));
            self.class("shape:lane_row_reduce");
        } else {
            // lane merge: ≥ 17 one-bit lanes of one bitwise operator
            let w = d.range(17, 48) as u32;
            let o = self.output(w);
            let ia = *d.pick(&self.pool);
            let ib = *d.pick(&self.pool);
            let (wa, wb) = (self.w(ia), self.w(ib));
            let op = *d.pick(BITOPS);
            let shift = d.below(3);
            if d.bool() {
                let iv = {
                    let name = self.name("ix");
                    self.m.decls.push(Decl {
                        name,
                        kind: DeclKind::LoopVar,
                        ty: Ty::s(32),
                        syntax: TySyntax::Fixed,
                        array: None,
                        value: None,
                        init: None,
                    });
                    self.m.decls.len() - 1
                };
                // operands of exactly w bits so that `[i]` is always in range
                let ea = self.fit_full(ia, w);
                let eb = self.fit_full(ib, w);
                let ta = self.let_(w, ea);
                let tb = self.let_(w, eb);
                let body = vec![Stmt::Assign {
                    lhs: Ref {
                        decl: o,
                        idx: None,
                        field: None,
                        sel: Sel::BitD(Box::new(Expr::var(iv))),
                    },
                    op: AssignOp::Set,
                    rhs: Expr::bin(
                        op,
                        Expr::Ref(Ref {
                            decl: ta,
                            idx: None,
                            field: None,
                            sel: Sel::BitD(Box::new(Expr::var(iv))),
                        }),
                        Expr::Ref(Ref {
                            decl: tb,
                            idx: None,
                            field: None,
                            sel: Sel::BitD(Box::new(Expr::var(iv))),
                        }),
                    ),
                }];
                self.m.items.push(Item::AlwaysComb(vec![Stmt::For {
                    var: iv,
                    lo: 0,
                    hi: w,
                    incl: false,
                    rev: d.chance(1, 4),
                    step: 1,
                    body,
                    break_if: None,
                }]));
                self.class("shape:lane_for_loop");
            } else {
                // aligned windows: lane i reads bit i + ka of one operand and bit i + kb of the other
                let (ka, kb) = (d.below(4), d.below(4));
                let ea = self.fit_full(ia, w + ka);
                let eb = self.fit_full(ib, w + kb);
                let ta = self.let_(w + ka, ea);
                let tb = self.let_(w + kb, eb);
                let _ = (wa, wb, shift);
                let three = d.chance(1, 3);
                for i in 0..w {
                    let bit = |t: DeclId, k: u32| {
                        Expr::Ref(Ref {
                            decl: t,
                            idx: None,
                            field: None,
                            sel: Sel::BitC(CIdx::Num(i + k)),
                        })
                    };
                    let mut e = Expr::bin(op, bit(ta, ka), bit(tb, kb));
                    if three {
                        e = Expr::bin(BinOp::Xor, e, bit(ta, 0));
                    }
                    self.assign(
                        Ref {
                            decl: o,
                            idx: None,
                            field: None,
                            sel: Sel::BitC(CIdx::Num(i)),
                        },
                        e,
                    );
                }
                self.class("shape:lane_per_bit_assigns");
            }
        }
    }

    /// exactly `w` bits of `id`: low bits, or zero-extended by concatenation
    fn fit_full(&mut self, id: DeclId, w: u32) -> Expr {
        let sw = self.w(id);
        if sw == w {
            Expr::var(id)
        } else if sw > w {
            Expr::Ref(Ref {
                decl: id,
                idx: None,
                field: None,
                sel: if w == 1 { Sel::BitC(CIdx::Num(0)) } else { Sel::Range(CIdx::Num(w - 1), CIdx::Num(0)) },
            })
        } else {
            Expr::Concat(vec![(lit(w - sw, 0), None), (Expr::var(id), None)])
        }
    }

    /// ≥ 4 `sel == const` arms, in `always_comb` and in `always_ff`
    pub fn switch_arms(&mut self, d: &mut Draw) {
        let sw = d.range(2, 8) as u32;
        let sel = self.operand(d, sw);
        let w = small_width(d).min(64);
        let in_ff = d.bool();
        let x = self.output(w);
        let max_arms = (1u64 << sw).min(12) as i64;
        let n_arms = d.range(4.min(max_arms), max_arms) as usize;
        let mut vals: Vec<u64> = if d.bool() {
            // dense
            (0..(1u64 << sw)).collect()
        } else {
            // distinct values (an exhausted choice sequence keeps returning 0: bounded)
            let mut v: BTreeSet<u64> = BTreeSet::new();
            for _ in 0..4 * n_arms {
                if v.len() >= n_arms {
                    break;
                }
                v.insert(d.below(1 << sw) as u64);
            }
            let mut k = 0u64;
            while v.len() < n_arms {
                v.insert(k);
                k += 1;
            }
            v.into_iter().collect()
        };
        vals.truncate(n_arms);
        if d.bool() {
            for i in (1..vals.len()).rev() {
                let j = d.below(i as u32 + 1) as usize;
                vals.swap(i, j);
            }
        }
        let arm = |this: &mut Sb, d: &mut Draw| -> Vec<Stmt> {
            let e = if in_ff && d.chance(1, 3) {
                let b = this.operand(d, w);
                Expr::bin(*d.pick(ARITH), Expr::var(x), b)
            } else if d.bool() {
                this.value(d, w)
            } else {
                this.expr(d, w, 1)
            };
            vec![Stmt::Assign {
                lhs: Ref::whole(x),
                op: AssignOp::Set,
                rhs: e,
            }]
        };
        let default = arm(self, d);
        let st = match d.below(3) {
            0 => {
                let mut arms: Vec<(Vec<RangeItem>, Vec<Stmt>)> = vec![];
                let mut i = 0;
                while i < vals.len() {
                    // now and then two values share an arm
                    let mut items = vec![RangeItem::Val(lit(sw, vals[i]))];
                    if i + 1 < vals.len() && d.chance(1, 5) {
                        i += 1;
                        items.push(RangeItem::Val(lit(sw, vals[i])));
                    }
                    arms.push((items, arm(self, d)));
                    i += 1;
                }
                self.class("shape:switch_case");
                Stmt::Case {
                    sel: sel.clone(),
                    arms,
                    default: Some(default),
                }
            }
            1 => {
                let arms = vals.iter().map(|&v| (vec![Expr::bin(BinOp::Eq, sel.clone(), lit(sw, v))], arm(self, d))).collect();
                self.class("shape:switch_switch");
                Stmt::Switch { arms, default: Some(default) }
            }
            _ => {
                let mut chain: Vec<Stmt> = default;
                for &v in vals.iter().rev() {
                    let b = arm(self, d);
                    chain = vec![Stmt::If {
                        cond: Expr::bin(BinOp::Eq, sel.clone(), lit(sw, v)),
                        then: b,
                        els: chain,
                    }];
                }
                self.class("shape:switch_else_if");
                chain.pop().unwrap()
            }
        };
        if in_ff {
            self.ensure_clk();
            let r = self.value(d, w);
            self.m.items.push(Item::AlwaysFf {
                reset: vec![Stmt::Assign {
                    lhs: Ref::whole(x),
                    op: AssignOp::Set,
                    rhs: r,
                }],
                body: vec![st],
                explicit: false,
            });
            self.class("shape:switch_in_ff");
        } else {
            self.m.items.push(Item::AlwaysComb(vec![st]));
            self.class("shape:switch_in_comb");
        }
    }

    /// `always_ff` whose guarded body holds a `$display`
    pub fn guarded_display(&mut self, d: &mut Draw) {
        self.ensure_clk();
        let w = small_width(d).min(64);
        let r = self.output(w);
        let c = self.cond(d);
        let e = {
            let b = self.operand(d, w);
            Expr::bin(*d.pick(ARITH), Expr::var(r), b)
        };
        let shown_w = small_width(d);
        let shown = self.operand(d, shown_w);
        let mut then = vec![Stmt::Display {
            fmt: "hit %h %h".into(),
            args: vec![Expr::var(r), shown],
        }];
        if d.bool() {
            then.push(Stmt::Assign {
                lhs: Ref::whole(r),
                op: AssignOp::Set,
                rhs: e.clone(),
            });
        }
        let mut body = vec![];
        if d.bool() {
            body.push(Stmt::Assign {
                lhs: Ref::whole(r),
                op: AssignOp::Set,
                rhs: e,
            });
        }
        let els = if d.chance(1, 3) {
            vec![Stmt::Display {
                fmt: "miss %h".into(),
                args: vec![Expr::var(r)],
            }]
        } else {
            vec![]
        };
        body.push(Stmt::If { cond: c, then, els });
        let rv = self.value(d, w);
        self.m.items.push(Item::AlwaysFf {
            reset: vec![Stmt::Assign {
                lhs: Ref::whole(r),
                op: AssignOp::Set,
                rhs: rv,
            }],
            body,
            explicit: d.chance(1, 4),
        });
        self.class("shape:guarded_display");
    }

    /// many registers, each loaded several times by a few statements
    pub fn repeated_loads(&mut self, d: &mut Draw) {
        self.ensure_clk();
        let n = if d.bool() { d.range(13, 18) } else { d.range(2, 8) } as usize;
        let w = d.range(2, 32) as u32;
        let mut regs = vec![];
        let mut reset = vec![];
        let mut body = vec![];
        for _ in 0..n {
            let r = self.var(w);
            regs.push(r);
            let rv = self.value(d, w);
            reset.push(Stmt::Assign {
                lhs: Ref::whole(r),
                op: AssignOp::Set,
                rhs: rv,
            });
        }
        for (i, &r) in regs.iter().enumerate() {
            let src = if i == 0 { self.operand(d, w) } else { Expr::var(regs[i - 1]) };
            let b = self.operand(d, w);
            body.push(Stmt::Assign {
                lhs: Ref::whole(r),
                op: AssignOp::Set,
                rhs: Expr::bin(*d.pick(ARITH), src, b),
            });
        }
        self.m.items.push(Item::AlwaysFf {
            reset,
            body,
            explicit: false,
        });
        // readers: one always_comb with several statements over all registers, twice
        let k = d.range(2, 6) as usize;
        let outs: Vec<DeclId> = (0..k).map(|_| self.output(w)).collect();
        let mut cb = vec![];
        for (j, &o) in outs.iter().enumerate() {
            let mut e = Expr::var(regs[j % n]);
            for round in 0..2 {
                for (i, &r) in regs.iter().enumerate() {
                    if (i + j + round) % 2 == 0 || d.chance(1, 3) {
                        e = Expr::bin(*d.pick(ARITH), e, Expr::var(r));
                    }
                }
            }
            cb.push(Stmt::Assign {
                lhs: Ref::whole(o),
                op: AssignOp::Set,
                rhs: e,
            });
        }
        if d.chance(1, 3) {
            self.m.items.push(Item::AlwaysComb(cb));
        } else {
            // separate statements of one chunk: the cache lives across them
            for st in cb {
                if let Stmt::Assign { lhs, rhs, .. } = st {
                    self.assign(lhs, rhs);
                }
            }
        }
        self.class(if n > 12 { "shape:repeated_loads_many" } else { "shape:repeated_loads" });
    }

    /// ≥ 300 comb statements that fusion cannot remove (two readers each)
    pub fn big_cone(&mut self, d: &mut Draw) {
        let w = d.range(4, 32) as u32;
        let n = d.range(310, 420) as usize;
        let mut prev2 = self.operand(d, w);
        let mut prev1 = self.operand(d, w);
        let mut last = vec![];
        for i in 0..n {
            let b = self.operand(d, w);
            let e = match i % 3 {
                0 => Expr::bin(BinOp::Add, Expr::bin(BinOp::Xor, prev1.clone(), prev2.clone()), b),
                1 => Expr::bin(BinOp::Xor, Expr::bin(BinOp::Sub, prev1.clone(), b), prev2.clone()),
                _ => Expr::bin(BinOp::Or, Expr::bin(BinOp::And, prev1.clone(), b), Expr::un(UnOp::BitNot, prev2.clone())),
            };
            let t = if self.child { self.var(w) } else { self.decl("t", DeclKind::Let, w) };
            if self.child {
                self.assign(Ref::whole(t), e);
            } else {
                self.m.items.push(Item::Let { decl: t, rhs: e });
            }
            prev2 = prev1;
            prev1 = Expr::var(t);
            last.push(t);
        }
        let a = last[last.len() - 1];
        let b = last[last.len() - 2];
        self.out_assign(w, Expr::bin(BinOp::Xor, Expr::var(a), Expr::var(b)));
        self.class("shape:big_cone");
    }

    pub fn finish(mut self) -> (Module, BTreeSet<String>) {
        if !self.m.print_order.is_empty() {
            // keep the drawn permutation of the generic items, append the new ones
            let have = self.m.print_order.len();
            for i in have..self.m.items.len() {
                self.m.print_order.push(i);
            }
        }
        (self.m, self.classes)
    }
}

pub const SHAPES: &[&str] = &["fusion", "cheap_cse", "fields", "dead", "vsplit", "lut", "lanes", "switch", "display", "loads", "cone"];

pub fn apply(sb: &mut Sb, d: &mut Draw, shape: &str) {
    sb.ensure_inputs(d, 3);
    match shape {
        "fusion" => sb.fusion_chain(d),
        "cheap_cse" => sb.cheap_and_cse(d),
        "fields" => sb.field_stores(d),
        "dead" => sb.dead_vars(d),
        "vsplit" => sb.version_chain(d),
        "lut" => sb.lut_decoder(d),
        "lanes" => sb.lanes(d),
        "switch" => sb.switch_arms(d),
        "display" => sb.guarded_display(d),
        "loads" => sb.repeated_loads(d),
        "cone" => sb.big_cone(d),
        _ => {}
    }
}

/// A wrapper `Top` that instantiates `child` (the last module of `modules`)
/// `copies` times on the same inputs and exports every output of every copy.
pub fn wrap(d: &mut Draw, child: Module, copies: usize) -> Design {
    let mut top = Sb::new(
        Module {
            name: "Top".into(),
            ..Default::default()
        },
        false,
    );
    let needs_clk = child.clock().is_some();
    let ins: Vec<(DeclId, u32)> = child.inputs().iter().map(|&i| (i, child.decls[i].ty.w)).collect();
    let outs: Vec<(DeclId, u32)> = child.outputs().iter().map(|&i| (i, child.decls[i].ty.w)).collect();
    let top_ins: Vec<DeclId> = ins.iter().map(|&(_, w)| top.input(w)).collect();
    if needs_clk {
        top.ensure_clk();
    }
    for k in 0..copies {
        let mut conns = vec![];
        for (j, &(pid, w)) in ins.iter().enumerate() {
            // the second copy sees a permuted / modified view of the inputs
            let e = if k == 0 || d.bool() {
                Expr::var(top_ins[j])
            } else {
                Expr::un(UnOp::BitNot, Expr::var(top_ins[j]))
            };
            let _ = w;
            conns.push((pid, Conn::In(e)));
        }
        let mut vars = vec![];
        for &(pid, w) in &outs {
            let v = top.var(w);
            conns.push((pid, Conn::Out(v)));
            vars.push((v, w));
        }
        let name = top.name("u");
        top.m.items.push(Item::Inst {
            name,
            module: 0,
            params: vec![],
            conns,
        });
        for (v, w) in vars {
            let e = if d.chance(1, 3) && w <= 64 {
                let b = top.operand(d, w);
                Expr::bin(BinOp::Xor, Expr::var(v), b)
            } else {
                Expr::var(v)
            };
            top.out_assign(w, e);
        }
    }
    let (tm, _) = top.finish();
    Design {
        modules: vec![child, tm],
        top: 1,
    }
}
