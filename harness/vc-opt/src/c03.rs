//! C03 — not implemented yet.
use vcore::Ctx;

pub fn run(_ctx: &Ctx) {
    println!("INCONCLUSIVE property=C03: check not implemented");
    std::process::exit(2);
}
