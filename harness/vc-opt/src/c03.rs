//! C03 — simulator optimisations never change observable behaviour.
//!
//! Case: a design (generic `vdesign::gen_design`, pass-triggering shape
//! templates of `shapes.rs`, or both in one module; flat or wrapped in one /
//! two child instances) and a stimulus, plus `k` random subsets of the
//! optimisation switches, all from one `Draw`.
//!
//! The switches are process-global (`OnceLock`s), so the check binary
//! re-executes itself as worker processes (`worker.rs`), one per toggle set:
//! baseline (no variable set), each switch of `toggles::TOGGLES` flipped
//! alone, all off, all on (defaults stated explicitly), and a per-run table
//! of drawn subsets (generated from a choice sequence seeded by VERIF_SEED;
//! every case draws `k` indices into the table, index 0 when its sequence is
//! exhausted).  The workers are long-lived servers (`c03-serve`: one case
//! file per request, every case on a fresh thread) so that the process
//! start-up is not paid per case; re-runs that confirm, attribute and
//! minimise a difference use fresh one-shot processes (`c03-worker`).  Every
//! worker regenerates nothing: it is handed the printed design and the
//! stimulus, identical for all toggle sets.  A worker returns, per engine
//! (interpreter, Cranelift JIT, now and then 4-state / `disable_ff_opt`
//! variants and the `cc` backend), the value of every output port after every
//! step, the `$display` text, the verdict and output of the native `#[test]`
//! bench (one case in three carries one that replays the stimulus and ends
//! with two `$assert`s on drawn guesses) and a structural summary of the
//! built simulator IR.
//!
//! Oracle: everything a worker observed equals what the baseline worker
//! observed on the same engine.  A difference is reported only after the two
//! toggle sets, re-run alone in fresh processes, reproduce it on the
//! structurally minimised design; a worker crash / time-out or an engine that
//! fails to build is *inconclusive* (counted), never a violation.
//!
//! Non-trivial: the structural summary (statements of the optimised
//! `ProtoModule`, buffer sizes, comb passes, fused offsets, cone segments,
//! opcode histogram of the generated Cranelift IR) of some single-switch
//! worker differs from the baseline's — the pass really fired on this design.
//! The per-switch "had an effect" histogram is in the evidence
//! (`effect/<switch>`, classes `effect:<switch>` / `pass_effect:<pass>`).

use crate::shapes::{self, Sb};
use crate::toggles::{Level, TOGGLES, ToggleSet, scrub_list};
use crate::worker::{CLIF_BEGIN, CLIF_END, RESULT_MARK, stim_json};
use std::collections::{BTreeMap, BTreeSet};
use std::io::Read;
use std::path::{Path, PathBuf};
use std::process::{Command, Stdio};
use std::time::{Duration, Instant};
use vcore::{CaseCfg, Ctx, Draw, Outcome, Value, hash_str, json};
use vdesign::*;

// ----------------------------------------------------------------------
// workers
// ----------------------------------------------------------------------

pub struct WorkerOut {
    pub result: Value,
    /// key (`clif2`, `clif4`) → opcode histogram of the dumped Cranelift IR
    pub clif: BTreeMap<String, BTreeMap<String, u64>>,
}

fn aot_dir() -> PathBuf {
    PathBuf::from(format!("{}/c03-aot-{}", vcore::util::work_root(), std::process::id()))
}

/// Opcode histogram of a Cranelift IR dump (robust against value numbering
/// and against addresses, which differ between processes).
fn clif_histogram(lines: &[&str]) -> BTreeMap<String, u64> {
    let mut h: BTreeMap<String, u64> = BTreeMap::new();
    for l in lines {
        let t = l.trim();
        if t.is_empty() {
            continue;
        }
        if t.starts_with("function ") {
            *h.entry("#function".into()).or_insert(0) += 1;
            continue;
        }
        if t.starts_with("block") {
            *h.entry("#block".into()).or_insert(0) += 1;
            if t.ends_with("cold:") {
                *h.entry("#cold".into()).or_insert(0) += 1;
            }
            continue;
        }
        if t.starts_with("@@C03 CLIF-ERR") {
            *h.entry("#error".into()).or_insert(0) += 1;
            continue;
        }
        // `v3 = iadd v1, v2` / `v3, v4 = isplit v1` / `store.i64 v1, v2+8` / `brif v1, block1, block2`
        let rhs = match t.find(" = ") {
            Some(i) if t.starts_with('v') => &t[i + 3..],
            _ => t,
        };
        let op: String = rhs.chars().take_while(|c| c.is_ascii_alphanumeric() || *c == '_').collect();
        if op.is_empty() || op == "Cranelift" || op == "sig0" || op.starts_with("sig") || op.starts_with("ss") || op.starts_with("gv") || op.starts_with("fn") {
            continue;
        }
        *h.entry(op).or_insert(0) += 1;
    }
    h
}

fn worker_command(mode: &str, set: &ToggleSet) -> Result<Command, String> {
    let exe = std::env::current_exe().map_err(|e| e.to_string())?;
    let mut c = Command::new(exe);
    c.arg(mode).current_dir(vcore::util::work_root()).stdout(Stdio::piped());
    if std::env::var("C03_WORKER_STDERR").is_ok() {
        c.stderr(Stdio::inherit());
    } else {
        c.stderr(Stdio::null());
    }
    for k in scrub_list() {
        c.env_remove(k);
    }
    for (k, v) in set.env() {
        c.env(k, v);
    }
    c.env("VERYL_AOT_CACHE_DIR", aot_dir());
    Ok(c)
}

fn worker_limit() -> Duration {
    Duration::from_secs(std::env::var("C03_WORKER_TIMEOUT").ok().and_then(|s| s.parse().ok()).unwrap_or(240))
}

fn parse_worker_output<'a>(lines: impl Iterator<Item = &'a str>) -> Result<WorkerOut, String> {
    let mut result = None;
    let mut clif: BTreeMap<String, BTreeMap<String, u64>> = BTreeMap::new();
    let mut cur: Option<(String, Vec<&str>)> = None;
    let mut panic = None;
    for l in lines {
        if let Some(k) = l.strip_prefix(CLIF_BEGIN) {
            cur = Some((k.trim().to_string(), vec![]));
        } else if l.starts_with(CLIF_END) {
            if let Some((k, ls)) = cur.take() {
                clif.insert(k, clif_histogram(&ls));
            }
        } else if let Some(j) = l.strip_prefix(RESULT_MARK) {
            result = serde_json::from_str::<Value>(j).ok();
        } else if l.starts_with("@@C03 WORKER-PANIC") {
            panic = Some(l.to_string());
        } else if let Some((_, ls)) = cur.as_mut() {
            ls.push(l);
        }
    }
    match result {
        Some(result) => Ok(WorkerOut { result, clif }),
        None => Err(panic.unwrap_or_else(|| "worker printed no result".into())),
    }
}

/// One-shot worker: a fresh process for one case under `set`.
pub fn run_worker(case_file: &Path, set: &ToggleSet) -> Result<WorkerOut, String> {
    let mut c = worker_command("c03-worker", set)?;
    c.arg(case_file).stdin(Stdio::null());
    let mut child = c.spawn().map_err(|e| format!("spawn: {e}"))?;
    let mut so = child.stdout.take().unwrap();
    let reader = std::thread::spawn(move || {
        let mut b = Vec::new();
        let _ = so.read_to_end(&mut b);
        String::from_utf8_lossy(&b).into_owned()
    });
    let limit = worker_limit();
    let start = Instant::now();
    let status = loop {
        match child.try_wait() {
            Ok(Some(s)) => break s,
            Ok(None) => {
                if start.elapsed() > limit {
                    let _ = child.kill();
                    let _ = child.wait();
                    let _ = reader.join();
                    return Err("timeout".into());
                }
                std::thread::sleep(Duration::from_millis(2));
            }
            Err(e) => return Err(format!("wait: {e}")),
        }
    };
    let out = reader.join().unwrap_or_default();
    if !status.success() {
        use std::os::unix::process::ExitStatusExt;
        let why = out.lines().find(|l| l.starts_with("@@C03 WORKER-PANIC")).unwrap_or("").to_string();
        return Err(format!("worker died (code {:?}, signal {:?}) {why}", status.code(), status.signal()));
    }
    parse_worker_output(out.lines())
}

/// A long-lived worker process of one fixed toggle set (`c03-serve`): it is
/// handed case files one at a time.  Saves the process start-up per case; the
/// switches are still per process.
struct Server {
    child: std::process::Child,
    stdin: std::process::ChildStdin,
    rx: std::sync::mpsc::Receiver<String>,
    served: usize,
}

impl Server {
    fn spawn(set: &ToggleSet) -> Result<Server, String> {
        let mut c = worker_command("c03-serve", set)?;
        c.stdin(Stdio::piped());
        let mut child = c.spawn().map_err(|e| format!("spawn: {e}"))?;
        let stdin = child.stdin.take().unwrap();
        let so = child.stdout.take().unwrap();
        let (tx, rx) = std::sync::mpsc::channel();
        std::thread::spawn(move || {
            use std::io::BufRead;
            let r = std::io::BufReader::new(so);
            for l in r.split(b'\n') {
                let Ok(l) = l else { break };
                if tx.send(String::from_utf8_lossy(&l).into_owned()).is_err() {
                    break;
                }
            }
        });
        Ok(Server { child, stdin, rx, served: 0 })
    }
    fn kill(mut self) {
        let _ = self.child.kill();
        let _ = self.child.wait();
    }
}

pub struct Pool {
    pub sets: Vec<ToggleSet>,
    slots: Vec<std::sync::Mutex<Option<Server>>>,
}

impl Pool {
    pub fn new(sets: Vec<ToggleSet>) -> Pool {
        let slots = sets.iter().map(|_| std::sync::Mutex::new(None)).collect();
        Pool { sets, slots }
    }

    /// Run `case_file` under the pool's toggle set `i`.
    pub fn request(&self, i: usize, case_file: &Path) -> Result<WorkerOut, String> {
        use std::io::Write;
        let mut g = self.slots[i].lock().unwrap_or_else(|e| e.into_inner());
        if g.as_ref().map(|s| s.served >= 150).unwrap_or(false) {
            // bounded life: the JIT code arena of a process is never unmapped
            if let Some(s) = g.take() {
                s.kill();
            }
        }
        if g.is_none() {
            *g = Some(Server::spawn(&self.sets[i])?);
        }
        let s = g.as_mut().unwrap();
        s.served += 1;
        let sent = writeln!(s.stdin, "{}", case_file.display()).and_then(|_| s.stdin.flush());
        if sent.is_err() {
            if let Some(s) = g.take() {
                s.kill();
            }
            return Err("server died".into());
        }
        let limit = worker_limit();
        let start = Instant::now();
        let mut lines: Vec<String> = vec![];
        loop {
            let left = limit.checked_sub(start.elapsed()).unwrap_or(Duration::ZERO);
            match s.rx.recv_timeout(left) {
                Ok(l) => {
                    if l.starts_with(crate::worker::DONE_MARK) {
                        break;
                    }
                    lines.push(l);
                }
                Err(e) => {
                    if let Some(s) = g.take() {
                        s.kill();
                    }
                    return Err(match e {
                        std::sync::mpsc::RecvTimeoutError::Timeout => "timeout".into(),
                        _ => "server died".into(),
                    });
                }
            }
        }
        drop(g);
        parse_worker_output(lines.iter().map(|s| s.as_str()))
    }

    pub fn shutdown(&self) {
        for sl in &self.slots {
            let mut g = sl.lock().unwrap_or_else(|e| e.into_inner());
            if let Some(s) = g.take() {
                let Server { mut child, stdin, .. } = s;
                drop(stdin);
                let t0 = Instant::now();
                loop {
                    match child.try_wait() {
                        Ok(Some(_)) => break,
                        Ok(None) if t0.elapsed() < Duration::from_secs(5) => std::thread::sleep(Duration::from_millis(5)),
                        _ => {
                            let _ = child.kill();
                            let _ = child.wait();
                            break;
                        }
                    }
                }
            }
        }
    }
}

/// The fixed toggle sets: baseline first.
pub fn fixed_sets() -> Vec<ToggleSet> {
    let mut sets = vec![ToggleSet::baseline()];
    sets.extend((0..TOGGLES.len()).map(ToggleSet::single));
    sets.push(ToggleSet::all_off());
    sets.push(ToggleSet::all_on());
    sets
}

// ----------------------------------------------------------------------
// cases
// ----------------------------------------------------------------------

pub struct Case {
    pub design: Design,
    pub stim: Stimulus,
    pub classes: BTreeSet<String>,
    pub excluded: BTreeMap<String, u64>,
    pub engines: Vec<String>,
    /// indices into the run's table of drawn toggle subsets
    pub subsets: Vec<usize>,
    /// native `#[test]` bench appended to the text (module `tb_c03`)
    pub tb: Option<String>,
}

pub const TB_NAME: &str = "tb_c03";

/// A native test bench that replays the stimulus on `Top`: reset sequence,
/// then per step the input assignments, one clock, a `$display` of every
/// output; two `$assert`s on drawn guesses at the end, so that verdicts of
/// both kinds occur.
pub fn make_tb(d: &mut Draw, stim: &Stimulus) -> String {
    use std::fmt::Write;
    let ty = |w: usize| if w == 1 { "logic".to_string() } else { format!("logic<{w}>") };
    let mut s = String::new();
    writeln!(s, "#[test({TB_NAME})]\nmodule {TB_NAME} {{").unwrap();
    s.push_str("    inst clk: $tb::clock_gen;\n    inst rst: $tb::reset_gen(clk);\n");
    for (i, p) in stim.inputs.iter().enumerate() {
        writeln!(s, "    var ti_{i}: {};", ty(p.width)).unwrap();
    }
    for (i, p) in stim.outputs.iter().enumerate() {
        writeln!(s, "    var to_{i}: {};", ty(p.width)).unwrap();
    }
    s.push_str("    inst dut: Top (\n");
    if let Some(c) = &stim.clock {
        writeln!(s, "        {c}: clk,").unwrap();
    }
    if let Some(r) = &stim.reset {
        writeln!(s, "        {r}: rst,").unwrap();
    }
    for (i, p) in stim.inputs.iter().enumerate() {
        writeln!(s, "        {}: ti_{i},", p.name).unwrap();
    }
    for (i, p) in stim.outputs.iter().enumerate() {
        writeln!(s, "        {}: to_{i},", p.name).unwrap();
    }
    s.push_str("    );\n    initial {\n        rst.assert();\n");
    let fmt: String = stim.outputs.iter().map(|_| " %h").collect();
    let args: String = (0..stim.outputs.len()).map(|i| format!(", to_{i}")).collect();
    for (k, st) in stim.steps.iter().enumerate() {
        if st.reset {
            continue;
        }
        for (i, (p, v)) in stim.inputs.iter().zip(&st.values).enumerate() {
            writeln!(s, "        ti_{i} = {}'h{v:x};", p.width).unwrap();
        }
        s.push_str("        clk.next(1);\n");
        writeln!(s, "        $display(\"s{k}{fmt}\"{args});").unwrap();
    }
    for _ in 0..2 {
        let o = d.below(stim.outputs.len().max(1) as u32) as usize;
        if o < stim.outputs.len() {
            let w = stim.outputs[o].width;
            let bit = d.below(w as u32);
            let guess = d.below(2);
            let idx = if w == 1 { String::new() } else { format!("[{bit}]") };
            writeln!(s, "        $assert(to_{o}{idx} == 1'b{guess}, \"guess {o}.{bit} %h\", to_{o});").unwrap();
        }
    }
    s.push_str("        $finish();\n    }\n}\n");
    s
}

fn cc_ok() -> bool {
    static V: std::sync::OnceLock<bool> = std::sync::OnceLock::new();
    *V.get_or_init(|| std::env::var("C03_NO_CC").is_err() && veryl_simulator::backend::aot_c::cc_available())
}

fn pick_shapes(d: &mut Draw, n: usize, allow_cone: bool) -> Vec<&'static str> {
    // development aid: always these shapes
    if let Ok(f) = std::env::var("C03_FORCE_SHAPE") {
        return shapes::SHAPES.iter().copied().filter(|s| f.split(',').any(|x| x == *s)).collect();
    }
    let mut v = vec![];
    for _ in 0..n {
        // the last entry of SHAPES is the (large) cone template
        let s = shapes::SHAPES[d.weighted(&[3, 2, 2, 2, 3, 2, 3, 3, 2, 2])];
        v.push(s);
    }
    if allow_cone && d.chance(1, 40) {
        v.clear();
        v.push("cone");
        if d.bool() {
            v.push(shapes::SHAPES[d.below(shapes::SHAPES.len() as u32 - 1) as usize]);
        }
    }
    v
}

pub fn gen_case(d: &mut Draw, n_subsets: usize, n_table: usize) -> Case {
    let mut classes: BTreeSet<String> = BTreeSet::new();
    let mut excluded: BTreeMap<String, u64> = BTreeMap::new();
    // the cone template only gates as a child instance: decided first
    let cone_case = std::env::var("C03_FORCE_SHAPE").is_err() && d.chance(1, 14);
    let mode = if cone_case { 2 } else { d.weighted(&[3, 4, 4]) };
    let design = match mode {
        0 => {
            // generic design, now and then with shapes added to its top module
            let mut cfg = GenCfg::default();
            cfg.display = d.chance(1, 3);
            cfg.unguarded_per_mille = 20;
            let g = gen_design(d, &cfg);
            classes.extend(g.classes.iter().cloned());
            excluded = g.excluded.clone();
            classes.insert("gen:generic".into());
            let mut design = g.design;
            if d.bool() {
                let n = 1 + d.below(2) as usize;
                let top = design.top;
                let m = std::mem::take(&mut design.modules[top]);
                let mut sb = Sb::new(m, false);
                for s in pick_shapes(d, n, false) {
                    shapes::apply(&mut sb, d, s);
                }
                let (m, c) = sb.finish();
                design.modules[top] = m;
                classes.extend(c);
                classes.insert("gen:generic+shapes".into());
            }
            design
        }
        1 => {
            let mut sb = Sb::new(
                Module {
                    name: "Top".into(),
                    ..Default::default()
                },
                false,
            );
            let n_in = d.range(2, 5) as usize;
            sb.ensure_inputs(d, n_in);
            let n = 1 + d.below(4) as usize;
            for s in pick_shapes(d, n, true) {
                shapes::apply(&mut sb, d, s);
            }
            let (m, c) = sb.finish();
            classes.extend(c);
            classes.insert("gen:shapes_flat".into());
            Design { modules: vec![m], top: 0 }
        }
        _ => {
            let mut sb = Sb::new(
                Module {
                    name: "Shp".into(),
                    ..Default::default()
                },
                true,
            );
            let n_in = d.range(2, 5) as usize;
            sb.ensure_inputs(d, n_in);
            let n = 1 + d.below(4) as usize;
            let picked = if cone_case {
                let mut v = vec!["cone"];
                if d.bool() {
                    v.extend(pick_shapes(d, 1, false));
                }
                v
            } else {
                pick_shapes(d, n, true)
            };
            for s in picked {
                shapes::apply(&mut sb, d, s);
            }
            let (m, c) = sb.finish();
            classes.extend(c);
            let copies = if cone_case && d.chance(3, 4) { 1 } else { 1 + d.below(2) as usize };
            classes.insert(format!("gen:shapes_child_x{copies}"));
            shapes::wrap(d, m, copies)
        }
    };
    let is_cone = classes.contains("shape:big_cone");
    let cycles = if is_cone { 10 + d.below(10) as usize } else { 6 + d.below(9) as usize };
    let mut stim = gen_stimulus(d, &design, cycles);
    if is_cone || d.chance(1, 4) {
        // a small pool of input vectors (the all-zero one among them now and
        // then: the state before the first `set`), visited again and again:
        // holds and returns are what a gated cone can get wrong
        let first = stim.steps.iter().position(|s| !s.reset).unwrap_or(0);
        let mut pool: Vec<Vec<num_bigint::BigUint>> = vec![];
        if let Some(s) = stim.steps.get(first) {
            pool.push(s.values.clone());
        }
        if d.bool() {
            pool.push(stim.inputs.iter().map(|_| num_bigint::BigUint::default()).collect());
        }
        for i in first + 1..stim.steps.len() {
            if pool.len() < 3 && d.chance(1, 3) {
                pool.push(stim.steps[i].values.clone());
            } else if !pool.is_empty() && d.chance(2, 3) {
                stim.steps[i].values = d.pick(&pool).clone();
            }
        }
        classes.insert("stim:pooled_inputs".into());
    }
    if d.chance(1, 3) {
        // hold all inputs over runs of steps (a gated cone can only be skipped then)
        for i in 1..stim.steps.len() {
            if d.chance(1, 2) {
                stim.steps[i].values = stim.steps[i - 1].values.clone();
            }
        }
        classes.insert("stim:held_inputs".into());
    }
    if d.chance(1, 3) {
        // come back to the input values of an earlier step
        for i in 2..stim.steps.len() {
            if d.chance(1, 3) {
                let j = d.below(i as u32 - 1) as usize;
                stim.steps[i].values = stim.steps[j].values.clone();
            }
        }
        classes.insert("stim:revisited_inputs".into());
    }
    let mut engines = vec!["interp".to_string(), "jit".to_string()];
    if d.chance(1, 4) {
        engines.push(if d.bool() { "jit+4st" } else { "interp+4st" }.to_string());
    }
    if d.chance(1, 8) {
        engines.push(if d.bool() { "jit+noffopt" } else { "interp+noffopt" }.to_string());
    }
    if cc_ok() && d.chance(1, 12) {
        engines.push("cc".to_string());
    }
    let subsets = (0..n_subsets).map(|_| d.below(n_table.max(1) as u32) as usize).collect();
    let tb = if d.chance(1, 3) && !classes.contains("shape:big_cone") && !stim.outputs.is_empty() {
        classes.insert("tb:native_test".into());
        Some(make_tb(d, &stim))
    } else {
        None
    };
    for e in &engines {
        classes.insert(format!("engine:{e}"));
    }
    Case {
        design,
        stim,
        classes,
        excluded,
        engines,
        subsets,
        tb,
    }
}

// ----------------------------------------------------------------------
// comparison
// ----------------------------------------------------------------------

#[derive(Clone, Debug, PartialEq, Eq)]
pub struct Diff {
    pub engine: String,
    /// `port-value` | `display` | `verdict` | `engine-error`
    pub what: String,
    pub detail: String,
}

fn engine_family(label: &str) -> String {
    let base = label.split('+').next().unwrap_or(label).to_string();
    if label.contains("4st") { format!("{base}4") } else { base }
}

/// What the toggle-set worker observed differently from the baseline worker.
pub fn compare(base: &Value, other: &Value, outputs: &[PortSpec]) -> Vec<Diff> {
    let mut out = vec![];
    let Some(runs) = other["runs"].as_object() else {
        return out;
    };
    for (engine, o) in runs {
        let b = &base["runs"][engine];
        if b.is_null() {
            continue;
        }
        let (bok, ook) = (b["ok"].as_bool().unwrap_or(false), o["ok"].as_bool().unwrap_or(false));
        if bok != ook {
            out.push(Diff {
                engine: engine.clone(),
                what: "engine-error".into(),
                detail: format!("baseline: {}; toggled: {}", if bok { "ran".to_string() } else { b["err"].to_string() }, if ook { "ran".to_string() } else { o["err"].to_string() }),
            });
            continue;
        }
        if !bok {
            continue;
        }
        let (bs, os) = (b["steps"].as_array(), o["steps"].as_array());
        let mut found = false;
        if let (Some(bs), Some(os)) = (bs, os) {
            'steps: for (si, (br, or)) in bs.iter().zip(os.iter()).enumerate() {
                let (Some(br), Some(or)) = (br.as_array(), or.as_array()) else { continue };
                for (oi, (x, y)) in br.iter().zip(or.iter()).enumerate() {
                    if x != y {
                        out.push(Diff {
                            engine: engine.clone(),
                            what: "port-value".into(),
                            detail: format!(
                                "output {} after step {si}: baseline {}, toggled {} (hex value[/xz mask])",
                                outputs.get(oi).map(|p| p.name.as_str()).unwrap_or("?"),
                                x.as_str().unwrap_or("?"),
                                y.as_str().unwrap_or("?")
                            ),
                        });
                        found = true;
                        break 'steps;
                    }
                }
            }
            if !found && bs.len() != os.len() {
                out.push(Diff {
                    engine: engine.clone(),
                    what: "port-value".into(),
                    detail: format!("number of steps: baseline {}, toggled {}", bs.len(), os.len()),
                });
                found = true;
            }
        }
        if !found && b["display"] != o["display"] {
            out.push(Diff {
                engine: engine.clone(),
                what: "display".into(),
                detail: format!("$display text: baseline {}, toggled {}", b["display"], o["display"]),
            });
        }
        // native test bench
        let (bt, ot) = (&base["tb"][engine], &other["tb"][engine]);
        if !bt.is_null() && !ot.is_null() {
            let (bok, ook) = (bt["ok"].as_bool().unwrap_or(false), ot["ok"].as_bool().unwrap_or(false));
            if bok != ook {
                out.push(Diff {
                    engine: engine.clone(),
                    what: "engine-error".into(),
                    detail: format!("test bench: baseline {}, toggled {}", bt, ot),
                });
            } else if bok {
                if bt["verdict"] != ot["verdict"] {
                    out.push(Diff {
                        engine: engine.clone(),
                        what: "verdict".into(),
                        detail: format!("test verdict: baseline {}, toggled {}", bt["verdict"], ot["verdict"]),
                    });
                } else if bt["display"] != ot["display"] {
                    out.push(Diff {
                        engine: engine.clone(),
                        what: "display".into(),
                        detail: format!("test bench $display text: baseline {}, toggled {}", bt["display"], ot["display"]),
                    });
                }
            }
        }
    }
    out
}

/// Structural summary of one worker (IR part + Cranelift histograms).
fn summary_of(w: &WorkerOut) -> Value {
    let mut ir = w.result["sum"].clone();
    if let Some(m) = ir.as_object_mut() {
        for (_, v) in m.iter_mut() {
            if let Some(o) = v.as_object_mut() {
                // run-time counters, not structure
                o.remove("_gate_skipped");
                o.remove("_gate_ran");
            }
        }
    }
    json!({"ir": ir, "clif": w.clif})
}

fn case_json(text: &str, stim: &Stimulus, engines: &[String], tb: Option<&str>, summary: &str) -> Value {
    json!({"veryl": text, "top": "Top", "stimulus": stim_json(stim), "engines": engines, "tb": tb, "summary": summary})
}

fn write_case(dir: &Path, name: &str, v: &Value) -> PathBuf {
    let p = dir.join(name);
    std::fs::write(&p, v.to_string()).expect("write case file");
    p
}

/// Re-run baseline and `set` alone on (text, stim, engine): the difference of kind `what`, if it is there.
fn rerun_pair(dir: &Path, tag: &str, text: &str, stim: &Stimulus, engine: &str, tb: Option<&str>, set: &ToggleSet, what: &str) -> Option<Diff> {
    let f = write_case(dir, &format!("{tag}.json"), &case_json(text, stim, &[engine.to_string()], tb, "none"));
    let b = run_worker(&f, &ToggleSet::baseline()).ok()?;
    let o = run_worker(&f, set).ok()?;
    if b.result["analyze"] != "ok" || o.result["analyze"] != "ok" {
        return None;
    }
    compare(&b.result, &o.result, &stim.outputs).into_iter().find(|d| d.what == what && d.engine == engine)
}

fn pass_names(set_off: &[usize]) -> String {
    let mut p: Vec<&str> = vec![];
    for &i in set_off {
        if !p.contains(&TOGGLES[i].pass) {
            p.push(TOGGLES[i].pass);
        }
    }
    p.join("+")
}

/// Shared state of one run of the check.
pub struct Run<'a> {
    pub ctx: &'a Ctx,
    pub pool: Pool,
    /// signature → minimised failure (a root cause is minimised once per run)
    pub cache: std::sync::Mutex<BTreeMap<String, (String, Value)>>,
    pub n_subsets: usize,
    /// the pool's sets from this index on are the run's table of drawn subsets
    pub first_subset: usize,
    pub n_table: usize,
    pub ticket: std::sync::atomic::AtomicUsize,
    /// switch index → number of cases on which it had a structural effect
    pub effect_counts: std::sync::Mutex<BTreeMap<usize, u64>>,
    /// cases that ended inconclusive (worker failures, unreproduced differences) / all cases
    pub inconclusive_cases: std::sync::atomic::AtomicUsize,
    pub cases_seen: std::sync::atomic::AtomicUsize,
}

/// Known finding `dead_var_dce:port-value+needs[comb_fusion]`: with
/// `VERYL_DEAD_VAR_DCE=0` the protect set that comb fusion uses as its list of
/// externally visible variables is empty (`ir/module.rs`: `dce_protect` is only
/// filled `if dead_var_dce::enabled()`), so fusion retires the storage of a
/// *port* of the top module that has a reader inside the module, and
/// `Simulator::get` of that port returns the stale initial value.
/// Shape: an output port of the top module that is read inside the module.
pub fn top_output_read_inside(design: &Design) -> bool {
    let m = design.top();
    let outs: BTreeSet<DeclId> = m.outputs().into_iter().collect();
    let mut hit = false;
    let mut visit = |e: &Expr| {
        findings::walk(m, e, 1, &mut |_, n| {
            if let Expr::Ref(r) = n.e
                && outs.contains(&r.decl)
            {
                hit = true;
            }
        });
    };
    fn stmts(ss: &[Stmt], f: &mut dyn FnMut(&Expr)) {
        for s in ss {
            match s {
                Stmt::Assign { lhs, op, rhs } => {
                    f(rhs);
                    if !matches!(op, AssignOp::Set) {
                        f(&Expr::Ref(lhs.clone()));
                    }
                    ref_reads(lhs, f);
                }
                Stmt::AssignConcat { lhs, rhs } => {
                    f(rhs);
                    for l in lhs {
                        ref_reads(l, f);
                    }
                }
                Stmt::If { cond, then, els } => {
                    f(cond);
                    stmts(then, f);
                    stmts(els, f);
                }
                Stmt::Case { sel, arms, default } => {
                    f(sel);
                    for (_, b) in arms {
                        stmts(b, f);
                    }
                    if let Some(d) = default {
                        stmts(d, f);
                    }
                }
                Stmt::Switch { arms, default } => {
                    for (cs, b) in arms {
                        for c in cs {
                            f(c);
                        }
                        stmts(b, f);
                    }
                    if let Some(d) = default {
                        stmts(d, f);
                    }
                }
                Stmt::For { body, break_if, .. } => {
                    if let Some(b) = break_if {
                        f(b);
                    }
                    stmts(body, f);
                }
                Stmt::Display { args, .. } => {
                    for a in args {
                        f(a);
                    }
                }
                Stmt::Return(e) => f(e),
            }
        }
    }
    /// index expressions of a destination are reads
    fn ref_reads(r: &Ref, f: &mut dyn FnMut(&Expr)) {
        if let Some(i) = &r.idx {
            f(i);
        }
        match &r.sel {
            Sel::BitD(e) | Sel::PlusC(e, _) | Sel::MinusC(e, _) | Sel::Step(e, _) => f(e),
            _ => {}
        }
    }
    for it in &m.items {
        match it {
            Item::Assign { lhs, rhs } => {
                visit(rhs);
                ref_reads(lhs, &mut visit);
            }
            Item::Let { rhs, .. } => visit(rhs),
            Item::AlwaysComb(b) => stmts(b, &mut visit),
            Item::AlwaysFf { reset, body, .. } => {
                stmts(reset, &mut visit);
                stmts(body, &mut visit);
            }
            Item::Inst { conns, .. } => {
                for (_, c) in conns {
                    if let Conn::In(e) = c {
                        visit(e);
                    }
                }
            }
        }
    }
    for f in &m.funcs {
        stmts(&f.body, &mut visit);
    }
    hit
}

const DCE: usize = 6; // index of `dce` in TOGGLES (checked in `run`)

/// The verdict of one case.
pub fn one_case(run: &Run, d: &mut Draw) -> Outcome {
    let mut case = gen_case(d, run.n_subsets, run.n_table);
    // exclusion of the known-finding shape: keep it on 1 case in 12
    let mut dce_excluded = false;
    if top_output_read_inside(&case.design) {
        case.classes.insert("known_shape:top_output_read_inside".into());
        if !d.chance(1, 12) && std::env::var("C03_KEEP_KNOWN").is_err() {
            dce_excluded = true;
            case.classes.insert("excluded:dce_off_on_top_output_read_inside".into());
        }
    }
    let out = evaluate(run, &case, dce_excluded);
    run.cases_seen.fetch_add(1, std::sync::atomic::Ordering::Relaxed);
    if matches!(&out, Outcome::Skip(r) if r.starts_with("inconclusive")) {
        run.inconclusive_cases.fetch_add(1, std::sync::atomic::Ordering::Relaxed);
    }
    out
}

pub fn evaluate(run: &Run, case: &Case, dce_excluded: bool) -> Outcome {
    let ctx = run.ctx;
    let tb_text = case.tb.clone().unwrap_or_default();
    let tbn: Option<&str> = case.tb.as_ref().map(|_| TB_NAME);
    let text = format!("{}{tb_text}", print_design(&case.design));
    let stim = &case.stim;
    if std::env::var("C03_DUMP").is_ok() {
        println!("{text}// stimulus: {}\n// engines: {:?}", stim_json(stim), case.engines);
    }
    let sc = vcore::util::Scratch::new("c03");
    // what a worker is asked for: the baseline gives both summaries, a
    // switch that rewrites the IR / the event statements the IR summary, a
    // switch inside the code generator the Cranelift one (and only the engines
    // that generate code), the multi-switch sets none
    let all = write_case(&sc.path, "case.json", &case_json(&text, stim, &case.engines, tbn, "both"));
    let ir_file = write_case(&sc.path, "case-ir.json", &case_json(&text, stim, &case.engines, tbn, "ir"));
    let plain_file = write_case(&sc.path, "case-plain.json", &case_json(&text, stim, &case.engines, tbn, "none"));
    let clif_engines: Vec<String> = case.engines.iter().filter(|e| !e.starts_with("interp")).cloned().collect();
    let clif_file = write_case(&sc.path, "case-clif.json", &case_json(&text, stim, &clif_engines, tbn, "clif"));

    // ---- baseline
    let base = match run.pool.request(0, &all) {
        Ok(b) => b,
        Err(e) => {
            ctx.note_add("inconclusive/baseline_worker_failed", 1);
            let e: String = e.chars().filter(|c| !c.is_ascii_digit()).take(60).collect();
            return Outcome::skip(format!("inconclusive: baseline worker failed ({e})"));
        }
    };
    if base.result["analyze"] != "ok" {
        let code = base.result["analyze"]["code"].as_str().unwrap_or("?").to_string();
        let stage = base.result["analyze"]["stage"].as_str().unwrap_or("?").to_string();
        if std::env::var("C03_SHOW_REJECTS").is_ok() {
            println!("REJECTED {}\n{text}", base.result["analyze"]["rejected"]);
        }
        return Outcome::skip(format!("generated design rejected by the analyzer ({stage}:{code})"));
    }
    let runs = base.result["runs"].as_object().cloned().unwrap_or_default();
    let ok_engines: Vec<String> = runs.iter().filter(|(_, r)| r["ok"].as_bool().unwrap_or(false)).map(|(k, _)| k.clone()).collect();
    if ok_engines.is_empty() {
        let msg: String = runs.values().next().map(|r| r["err"].to_string()).unwrap_or_default().chars().filter(|c| !c.is_ascii_digit()).take(60).collect();
        return Outcome::skip(format!("no engine runs the design under the default switches ({msg})"));
    }
    let base_sum = summary_of(&base);

    // ---- every toggle set: the pool's fixed ones (in an order rotated per
    // case, so that concurrent cases do not queue at the same server), then
    // the drawn subsets in one-shot processes
    let n_fixed = run.first_subset;
    let rot = run.ticket.fetch_add(1, std::sync::atomic::Ordering::Relaxed);
    let mut order: Vec<(Option<usize>, ToggleSet)> = (1..n_fixed).map(|k| 1 + (k - 1 + rot) % (n_fixed - 1)).map(|i| (Some(i), run.pool.sets[i].clone())).collect();
    for &k in &case.subsets {
        let i = run.first_subset + k % run.n_table.max(1);
        let s = run.pool.sets[i].clone();
        if dce_excluded && s.off.contains(&DCE) && !s.off.contains(&0) {
            continue;
        }
        order.push((Some(i), s));
    }
    let mut diffs: Vec<(ToggleSet, Diff)> = vec![];
    let mut effects: BTreeSet<usize> = BTreeSet::new();
    let mut inconclusive = 0u64;
    let mut comparisons = 0u64;
    let mut error_diffs = 0u64;
    for (slot, set) in &order {
        let single = set.off.len() == 1 && !set.explicit;
        let clif_only = single && TOGGLES[set.off[0]].level == Level::Clif;
        if clif_only && clif_engines.is_empty() {
            continue;
        }
        if dce_excluded && single && set.off[0] == DCE {
            continue;
        }
        let file = if clif_only {
            &clif_file
        } else if single || set.label == "all_on" {
            &ir_file
        } else {
            &plain_file
        };
        let r = match slot {
            Some(i) => run.pool.request(*i, file),
            None => run_worker(file, set),
        };
        let w = match r {
            Ok(w) => w,
            Err(_) => {
                inconclusive += 1;
                continue;
            }
        };
        if w.result["analyze"] != "ok" {
            inconclusive += 1;
            continue;
        }
        comparisons += w.result["runs"].as_object().map(|m| m.len()).unwrap_or(0) as u64;
        for df in compare(&base.result, &w.result, &stim.outputs) {
            if df.what == "engine-error" {
                error_diffs += 1;
                if std::env::var("C03_SHOW_ERRORS").is_ok() {
                    println!("ENGINE-ERROR-DIFF [{}] {} {}\n{text}", set.label, df.engine, df.detail);
                }
                continue;
            }
            diffs.push((set.clone(), df));
        }
        if single {
            let s = summary_of(&w);
            let differs = if clif_only { s["clif"] != base_sum["clif"] } else { s["ir"] != base_sum["ir"] };
            if differs {
                effects.insert(set.off[0]);
            }
        } else if set.label == "all_on" && summary_of(&w)["ir"] != base_sum["ir"] {
            // the summary must be a function of the switches only
            ctx.note_add("self_test/summary_differs_without_a_switch", 1);
        }
    }
    ctx.note_add("comparisons", comparisons);
    if inconclusive > 0 {
        ctx.note_add("inconclusive/toggle_worker_failed", inconclusive);
    }
    if error_diffs > 0 {
        ctx.note_add("inconclusive/engine_fails_under_one_set_only", error_diffs);
    }

    if diffs.is_empty() {
        let mut classes: Vec<String> = case.classes.iter().cloned().collect();
        let mut passes: BTreeSet<&str> = BTreeSet::new();
        for &i in &effects {
            *run.effect_counts.lock().unwrap().entry(i).or_insert(0) += 1;
            classes.push(format!("effect:{}", TOGGLES[i].name));
            passes.insert(TOGGLES[i].pass);
            ctx.note_add(&format!("effect/{}", TOGGLES[i].name), 1);
        }
        for p in passes {
            classes.push(format!("pass_effect:{p}"));
        }
        for (k, n) in &case.excluded {
            if *n > 0 {
                classes.push(format!("excluded:{k}"));
            }
        }
        if case.design.modules.iter().any(|m| m.has_ff()) {
            classes.push("design:sequential".into());
        }
        if ok_engines.iter().any(|e| !base.result["runs"][e]["display"].as_str().unwrap_or("").is_empty()) {
            classes.push("display:text_compared".into());
        }
        if base.result["sum"]["ir2"]["_gate_ran"].as_u64().unwrap_or(0) > 0 {
            classes.push("cone_gate:segment_ran".into());
        }
        if base.result["sum"]["ir2"]["_gate_skipped"].as_u64().unwrap_or(0) > 0 {
            classes.push("cone_gate:segment_skipped".into());
        }
        if let Some(t) = base.result["tb"].as_object() {
            for (_, v) in t {
                let c = if !v["ok"].as_bool().unwrap_or(false) {
                    "tb_verdict:error"
                } else if v["verdict"] == "pass" {
                    "tb_verdict:pass"
                } else {
                    "tb_verdict:fail"
                };
                if !classes.iter().any(|x| x == c) {
                    classes.push(c.to_string());
                }
                if std::env::var("C03_SHOW_TB").is_ok() {
                    println!("TB {v}");
                }
            }
        }
        let sample = format!("{text}// stimulus: {}\n// switches with a structural effect: {:?}", stim_json(stim), effects.iter().map(|&i| TOGGLES[i].name).collect::<Vec<_>>());
        return Outcome::pass(hash_str(&format!("{text}{}", stim_json(stim))), !effects.is_empty(), classes, sample);
    }

    // ---- a difference: reproduce, attribute, minimise, reproduce again
    let (set, df) = diffs[0].clone();
    // a difference seen in the test bench only keeps the bench (and is not
    // minimised); any other one is pursued on the design alone
    let tb_only = df.what == "verdict" || df.detail.starts_with("test bench");
    let tb: Option<&str> = if tb_only { tbn } else { None };
    let tb_text = if tb_only { tb_text } else { String::new() };
    let text = format!("{}{tb_text}", print_design(&case.design));
    if rerun_pair(&sc.path, "confirm", &text, stim, &df.engine, tb, &set, &df.what).is_none() {
        ctx.note_add("inconclusive/difference_not_reproduced", 1);
        return Outcome::skip("inconclusive: a difference did not reproduce when the two toggle sets were re-run alone");
    }
    // smallest responsible subset of switches
    let mut culprit: Vec<usize> = set.off.clone();
    if culprit.len() > 1 {
        if let Some(&single) = culprit.iter().find(|&&i| rerun_pair(&sc.path, "attr", &text, stim, &df.engine, tb, &ToggleSet::single(i), &df.what).is_some()) {
            culprit = vec![single];
        } else {
            let mut i = 0;
            while i < culprit.len() && culprit.len() > 1 {
                let mut t = culprit.clone();
                t.remove(i);
                if rerun_pair(&sc.path, "attr", &text, stim, &df.engine, tb, &ToggleSet::subset(t.clone(), false), &df.what).is_some() {
                    culprit = t;
                } else {
                    i += 1;
                }
            }
        }
    }
    let cset = if culprit.is_empty() {
        ToggleSet::all_on()
    } else if culprit.len() == 1 {
        ToggleSet::single(culprit[0])
    } else {
        ToggleSet::subset(culprit.clone(), false)
    };
    if culprit.is_empty() && rerun_pair(&sc.path, "attr", &text, stim, &df.engine, tb, &cset, &df.what).is_none() {
        ctx.note_add("inconclusive/difference_not_attributed", 1);
        return Outcome::skip("inconclusive: a difference under a subset with explicit defaults could not be attributed");
    }
    // which other passes must be ON for the difference to appear (root-cause hint)
    let mut needs: Vec<&str> = vec![];
    for (i, t) in TOGGLES.iter().enumerate() {
        if !matches!(t.name, "fusion" | "dce" | "vsplit" | "lane" | "layout" | "cone_gate") || culprit.contains(&i) {
            continue;
        }
        let mut off = culprit.clone();
        off.push(i);
        off.sort();
        if rerun_pair(&sc.path, "need", &text, stim, &df.engine, tb, &ToggleSet::subset(off, false), &df.what).is_none() {
            needs.push(t.pass);
        }
    }
    let pass = if culprit.is_empty() { "explicit_defaults".to_string() } else { pass_names(&culprit) };
    let mut sig = format!("{pass}:{}", df.what);
    if !needs.is_empty() {
        sig.push_str(&format!("+needs[{}]", needs.join(",")));
    }
    if culprit.iter().all(|&i| TOGGLES[i].level == Level::Clif) && !culprit.is_empty() {
        sig.push_str(&format!("/{}", engine_family(&df.engine)));
    }
    if let Some((msg, input)) = run.cache.lock().unwrap().get(&sig).cloned() {
        return Outcome::fail(sig, msg, input);
    }
    let budget = std::env::var("C03_MIN_BUDGET").ok().and_then(|s| s.parse().ok()).unwrap_or(100usize);
    let mut n = 0;
    // minimisation only shapes the reproducer, never the verdict: it also
    // stops after a wall-clock allowance (a loaded machine must not turn a
    // found difference into a watchdog time-out)
    let min_start = Instant::now();
    let min_allow = Duration::from_secs(std::env::var("C03_MIN_SECONDS").ok().and_then(|s| s.parse().ok()).unwrap_or(240));
    let mut pred = |dsg: &Design, st: &Stimulus| {
        n += 1;
        if n > 1 && min_start.elapsed() > min_allow {
            return false;
        }
        let t = format!("{}{tb_text}", print_design(dsg));
        rerun_pair(&sc.path, &format!("min{n}"), &t, st, &df.engine, tb, &cset, &df.what).is_some()
    };
    let (md, ms) = if !tb_only && pred(&case.design, stim) { minimize::minimize(&case.design, stim, &mut pred, budget) } else { (case.design.clone(), stim.clone()) };
    let mtext = format!("{}{tb_text}", print_design(&md));
    let Some(mdf) = rerun_pair(&sc.path, "final", &mtext, &ms, &df.engine, tb, &cset, &df.what) else {
        ctx.note_add("inconclusive/difference_not_reproduced", 1);
        return Outcome::skip("inconclusive: a difference did not reproduce on the minimised design");
    };
    let msg = format!(
        "switching optimisations changes observable behaviour\n  engine: {}\n  environment: {}  (against: no VERYL_* variable set)\n  found under toggle set: {}\n  the difference disappears when these passes are switched off as well: {:?}\n  {}\n{mtext}// stimulus: {}",
        df.engine,
        cset.env_text(),
        set.label,
        needs,
        mdf.detail,
        stim_json(&ms)
    );
    let input = json!({"veryl": mtext, "top": "Top", "stimulus": stim_json(&ms), "engine": df.engine,
               "env": cset.env().iter().map(|(k, v)| format!("{k}={v}")).collect::<Vec<_>>(),
               "tb": tb, "what": df.what, "detail": mdf.detail, "found_under": set.label, "signature": sig});
    run.cache.lock().unwrap().insert(sig.clone(), (msg.clone(), input.clone()));
    Outcome::fail(sig, msg, input)
}

/// Replay of a recorded reproducer (text + stimulus + engine + env).
fn replay_recorded(p: &Value) -> Outcome {
    let text = p["veryl"].as_str().unwrap_or("").to_string();
    let stim = crate::worker::stim_from(&p["stimulus"]);
    let engine = p["engine"].as_str().unwrap_or("jit").to_string();
    let what = p["what"].as_str().unwrap_or("port-value").to_string();
    let mut off = vec![];
    for e in p["env"].as_array().cloned().unwrap_or_default() {
        let e = e.as_str().unwrap_or("").to_string();
        if let Some((k, v)) = e.split_once('=')
            && let Some(i) = TOGGLES.iter().position(|t| t.env == k && t.off == v)
        {
            off.push(i);
        }
    }
    let set = if off.len() == 1 { ToggleSet::single(off[0]) } else { ToggleSet::subset(off.clone(), false) };
    let sc = vcore::util::Scratch::new("c03r");
    match rerun_pair(&sc.path, "rec", &text, &stim, &engine, p["tb"].as_str(), &set, &what) {
        Some(df) => Outcome::fail(
            p["signature"].as_str().map(|s| s.to_string()).unwrap_or_else(|| format!("{}:{}", pass_names(&off), what)),
            format!("recorded reproducer still differs\n  engine: {engine}\n  environment: {}\n  {}\n{text}", set.env_text(), df.detail),
            p.clone(),
        ),
        None => Outcome::pass(hash_str(&text), true, vec!["recorded".into()], text),
    }
}

pub fn run(ctx: &Ctx) {
    assert_eq!(TOGGLES[DCE].name, "dce");
    assert_eq!(TOGGLES[0].name, "fusion");
    let _ = std::fs::create_dir_all(aot_dir());
    ctx.note("switches", json!(TOGGLES.iter().map(|t| format!("{}={} ({})", t.env, t.off, t.pass)).collect::<Vec<_>>()));
    ctx.run_payloads("recorded", replay_recorded);
    let n = std::env::var("C03_CASES").ok().and_then(|s| s.parse::<usize>().ok()).unwrap_or(ctx.scale(128, 3000));
    let threads = std::env::var("C03_THREADS").ok().and_then(|s| s.parse::<usize>().ok()).unwrap_or(0);
    let cfg = CaseCfg::cases(n).choices(10_000).shrink_iters(std::env::var("C03_SHRINK").ok().and_then(|s| s.parse().ok()).unwrap_or(6)).timeout_s(3600).threads(threads);
    // the run's table of toggle subsets: drawn from a choice sequence seeded
    // by VERIF_SEED; a case draws indices into it (index 0 when its own
    // sequence is exhausted), so that the subset workers can be long-lived
    let mut sets = fixed_sets();
    let first_subset = sets.len();
    let n_table = std::env::var("C03_SUBSETS").ok().and_then(|s| s.parse::<usize>().ok()).unwrap_or(ctx.scale(12, 48));
    {
        let mut x = (ctx.seed ^ 0xC03).wrapping_mul(0x9E3779B97F4A7C15) | 1;
        let choices: Vec<u32> = (0..(n_table * (TOGGLES.len() + 4)))
            .map(|_| {
                x ^= x << 13;
                x ^= x >> 7;
                x ^= x << 17;
                (x >> 16) as u32
            })
            .collect();
        let mut sd = Draw::new(choices);
        for _ in 0..n_table {
            sets.push(ToggleSet::draw(&mut sd));
        }
    }
    ctx.note("subset_table", json!(sets[first_subset..].iter().map(|s| s.label.clone()).collect::<Vec<_>>()));
    let run = Run {
        ctx,
        pool: Pool::new(sets),
        cache: std::sync::Mutex::new(BTreeMap::new()),
        n_subsets: ctx.scale(2, 4),
        first_subset,
        n_table,
        ticket: std::sync::atomic::AtomicUsize::new(0),
        effect_counts: std::sync::Mutex::new(BTreeMap::new()),
        inconclusive_cases: std::sync::atomic::AtomicUsize::new(0),
        cases_seen: std::sync::atomic::AtomicUsize::new(0),
    };
    ctx.run("designs", cfg, |d| one_case(&run, d));
    run.pool.shutdown();
    if !ctx.replay_mode() {
        // systematic worker failures make the whole run inconclusive (never a pass)
        let inc = run.inconclusive_cases.load(std::sync::atomic::Ordering::Relaxed);
        let seen = run.cases_seen.load(std::sync::atomic::Ordering::Relaxed);
        if inc > 8 && inc * 5 > seen {
            println!("INCONCLUSIVE property=C03: {inc} of {seen} cases ended inconclusive (worker crashes / time-outs / differences that do not reproduce)");
            use std::io::Write;
            let _ = std::io::stdout().flush();
            let _ = std::fs::remove_dir_all(aot_dir());
            std::process::exit(2);
        }
        // generator self-test: every pass of the property text must have fired somewhere
        let counts = run.effect_counts.lock().unwrap().clone();
        let mut per_pass: BTreeMap<&str, u64> = BTreeMap::new();
        for (i, t) in TOGGLES.iter().enumerate() {
            *per_pass.entry(t.pass).or_insert(0) += counts.get(&i).copied().unwrap_or(0);
        }
        ctx.note("pass_effect_histogram", json!(per_pass));
        ctx.note("switch_effect_histogram", json!(TOGGLES.iter().enumerate().map(|(i, t)| (t.name, counts.get(&i).copied().unwrap_or(0))).collect::<BTreeMap<_, _>>()));
        let silent: Vec<&str> = per_pass.iter().filter(|(_, n)| **n == 0).map(|(p, _)| *p).collect();
        ctx.note("self_test/passes_without_effect", json!(silent));
    }
    let _ = std::fs::remove_dir_all(aot_dir());
    ctx.assume("a worker process that crashes or exceeds its time limit, an engine that fails to build / panics under one toggle set only, and a difference that does not reproduce when the two toggle sets are re-run alone are inconclusive (counted under inconclusive/*), never violations");
    ctx.assume("values of internal variables (Simulator::get_var) are not compared: fused and dead variables legitimately keep stale storage; the property speaks of ports, $display and verdicts");
    ctx.assume("the switches compared are those of the passes the property names, with their sub-levers (toggles.rs); WIDE_MASK_ELIDE / WIDE_DYNSEL / COLD_IF_TRUE / TB_SETTLE_FILTER and the AOT-C emitter's own levers are not flipped");
    ctx.finish(
        "exploration",
        "generic vdesign designs and pass-triggering shape templates (single-reader chains, cheap multi-reader / CSE, field stores, dead variables, always_comb version chains, >= 8-arm selector decoders, per-bit rows and lanes, >= 4-arm case/switch/else-if, guarded $display in always_ff, repeated loads, >= 300-statement cones; flat, added to a generic top, or in 1-2 child instances) x stimulus of 6-14 cycles after a reset window; one worker process per toggle set (baseline, each switch alone, all off, all on, k drawn subsets) on interpreter and JIT (4-state / noffopt / cc variants on a fraction); non-trivial = the structural summary of the built IR (optimised ProtoModule statements, buffer sizes, comb passes, fused offsets, cone segments, Cranelift opcode histogram) of some single-switch worker differs from the baseline's, i.e. the pass fired on that design; distinct by text + stimulus",
    );
}

/// Development aid: `vc-opt c03-dev <shape,shape,..> <seed> <flat|child> <out.json>`
/// writes a case file of the given shapes and prints the design.
pub fn dev(args: &[String]) -> i32 {
    let shapes_arg = args.first().cloned().unwrap_or_default();
    let seed: u64 = args.get(1).and_then(|s| s.parse().ok()).unwrap_or(1);
    let child = args.get(2).map(|s| s == "child").unwrap_or(false);
    let out = args.get(3).cloned().unwrap_or_else(|| "/verif/.work/a-opt-dev/dev.json".into());
    let mut x = seed.wrapping_mul(0x9E3779B97F4A7C15) | 1;
    let choices: Vec<u32> = (0..20000)
        .map(|_| {
            x ^= x << 13;
            x ^= x >> 7;
            x ^= x << 17;
            (x >> 16) as u32
        })
        .collect();
    let mut d = Draw::new(choices);
    let mut sb = Sb::new(
        Module {
            name: if child { "Shp".into() } else { "Top".into() },
            ..Default::default()
        },
        child,
    );
    sb.ensure_inputs(&mut d, 3);
    for s in shapes_arg.split(',') {
        shapes::apply(&mut sb, &mut d, s);
    }
    let (m, classes) = sb.finish();
    let design = if child { shapes::wrap(&mut d, m, 1) } else { Design { modules: vec![m], top: 0 } };
    let stim = gen_stimulus(&mut d, &design, 8);
    let text = print_design(&design);
    println!("{text}// classes: {classes:?}");
    let engines = vec!["interp".to_string(), "jit".to_string()];
    std::fs::write(&out, case_json(&text, &stim, &engines, None, "both").to_string()).expect("write");
    0
}
