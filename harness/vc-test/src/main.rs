mod c32;

fn main() {
    let args: Vec<String> = std::env::args().skip(1).collect();
    let id = args.first().cloned().unwrap_or_default();
    if id == "C32-dump" {
        // development aid: `vc-test C32-dump <dir> <n>` writes the n-th pseudo-random project
        let dir = std::path::PathBuf::from(args.get(1).expect("dir"));
        let n: u64 = args.get(2).and_then(|s| s.parse().ok()).unwrap_or(0);
        c32::dump(&dir, n);
        return;
    }
    vcore::quiet_panics();
    let ctx = vcore::Ctx::new(&id, &args[1.min(args.len())..]);
    match id.as_str() {
        "C32" => c32::run(&ctx),
        _ => {
            eprintln!("unknown property id {id:?}");
            std::process::exit(2);
        }
    }
}
