mod c32;

fn main() {
    let args: Vec<String> = std::env::args().skip(1).collect();
    let id = args.first().cloned().unwrap_or_default();
    if id == "C32-dump" {
        // development aid: `vc-test C32-dump <dir> <n>` writes the n-th pseudo-random project
        let dir = std::path::PathBuf::from(args.get(1).expect("dir"));
        let n: u64 = args.get(2).and_then(|s| s.parse().ok()).unwrap_or(0);
        c32::dump(&dir, n);
        return;
    }
    if id == "C32-gen-only" {
        // development aid: `vc-test C32-gen-only <replay.json>` generates (only) the project of a saved choice vector
        let v: vcore::Value = serde_json::from_str(&std::fs::read_to_string(&args[1]).expect("read")).expect("json");
        let choices: Vec<u32> = v["choices"].as_array().expect("choices").iter().map(|x| x.as_u64().unwrap_or(0) as u32).collect();
        let n = c32::gen_only(choices);
        println!("generated {n} tests");
        return;
    }
    if id == "C32-gen-fuzz" {
        // development aid: generators must terminate on choice vectors that run dry anywhere
        let n = c32::gen_fuzz();
        println!("{n} truncated choice vectors: every generator call returned");
        return;
    }
    vcore::quiet_panics();
    let ctx = vcore::Ctx::new(&id, &args[1.min(args.len())..]);
    match id.as_str() {
        "C32" => c32::run(&ctx),
        _ => {
            eprintln!("unknown property id {id:?}");
            std::process::exit(2);
        }
    }
}
