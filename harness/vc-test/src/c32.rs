//! C32 — test results do not depend on scheduling.
//!
//! Part 1 (`api-range`, `api-repro`): `veryl_simulator::random_table` in
//! process.  Part 2 (`cli`): generated projects of 3–12 native tests run with
//! the real `veryl test --format json --seed S` under different CPU sets
//! (`taskset` ⇒ `available_parallelism` ⇒ worker count) and dispatch orders
//! (rewritten `.build/test_timings`); per test (status, message, output) must
//! be identical across all runs with the same seed, and every printed range
//! draw must lie within its bounds.

mod api;
mod cli;
mod gen_proj;

use vcore::{CaseCfg, Ctx};

pub fn run(ctx: &Ctx) {
    ctx.assume("`taskset -c <list>` restricts std::thread::available_parallelism of the veryl process, which is the worker count of cmd_test.rs (min with the number of tests)");
    ctx.assume("with one worker the order of the tests in the JSON report is the dispatch order; a different order under ≥ 2 CPUs therefore proves that ≥ 2 workers ran tests");
    ctx.assume("the backend (--backend) is fixed per project: the property quantifies over worker counts and dispatch orders, not over backends");
    // development aid: C32_ONLY=cli skips the in-process part
    let only = std::env::var("C32_ONLY").unwrap_or_default();
    if only != "cli" {
        api::run(ctx);
    }
    let total = std::thread::available_parallelism().map(|n| n.get()).unwrap_or(1) as u32;
    let opts = cli::CliOpts { thorough: !ctx.is_quick(), total_cpus: total };
    // reproducers of listed findings (hand-written projects)
    ctx.run_payloads("cli-fixed", cli::fixed_case);
    let n = ctx.scale(25, 600);
    // development aid: C32_CLI_CASES=n overrides the number of projects
    let n = std::env::var("C32_CLI_CASES").ok().and_then(|s| s.parse().ok()).unwrap_or(n);
    // each case runs the CLI 6 (thorough: 12) times; projects run in parallel, so
    // the CPU sets of concurrent cases overlap — as on a loaded machine
    let threads = (total as usize).min(8);
    ctx.run(
        "cli",
        CaseCfg::cases(n).choices(6000).threads(threads).shrink_iters(2).timeout_s(2400),
        |d| cli::case(d, &opts),
    );
    ctx.finish(
        "exploration",
        "api-*: generated (width, signedness, bounds, seed, handle names, op interleavings); cli: generated projects (element types, handles, DUT configurations, testbench bodies) × generated run schedules (CPU sets, forced dispatch orders); a cli case is non-trivial when a run with ≥ 2 CPUs completed tests in an order different from its dispatch order (⇒ ≥ 2 workers really ran tests) and some run's dispatch order differs from the alphabetical one",
    );
}

/// Development aid: write the project generated from a pseudo-random choice vector.
pub fn dump(dir: &std::path::Path, n: u64) {
    let mut x = n.wrapping_mul(0x9E37_79B9_7F4A_7C15) ^ 0xD1B5_4A32_D192_ED03;
    let choices: Vec<u32> = (0..6000)
        .map(|_| {
            x ^= x << 13;
            x ^= x >> 7;
            x ^= x << 17;
            (x >> 16) as u32
        })
        .collect();
    let mut d = vcore::Draw::new(choices);
    cli::dump(dir, &mut d);
}

/// Development aid: run only the generator on a choice vector; number of tests.
pub fn gen_only(choices: Vec<u32>) -> usize {
    let mut d = vcore::Draw::new(choices);
    let p = gen_proj::generate(&mut d, false);
    gen_proj::files(&p).len();
    p.tests.len()
}

/// Development aid: run the project generator and the in-process cases on
/// pseudo-random choice vectors truncated at every length 0..700 (an exhausted
/// sequence yields 0 for ever: every loop over draws must still terminate).
pub fn gen_fuzz() -> usize {
    let mut n = 0;
    for seed in 1..=6u64 {
        let mut x = seed.wrapping_mul(0x9E37_79B9_7F4A_7C15) ^ 0xD1B5_4A32_D192_ED03;
        let full: Vec<u32> = (0..700)
            .map(|_| {
                x ^= x << 13;
                x ^= x >> 7;
                x ^= x << 17;
                (x >> 16) as u32
            })
            .collect();
        for len in 0..=full.len() {
            let mut d = vcore::Draw::new(full[..len].to_vec());
            let p = gen_proj::generate(&mut d, len % 2 == 0);
            let _ = gen_proj::files(&p);
            let mut d = vcore::Draw::new(full[..len].to_vec());
            let _ = api::range_case(&mut d);
            let mut d = vcore::Draw::new(full[..len].to_vec());
            let _ = api::repro_case(&mut d);
            n += 1;
        }
    }
    n
}
