//! C32 part 1: `veryl_simulator::random_table` — range draws stay within
//! their bounds under the signed and the unsigned reading for every width
//! 1..=64, and the stream of a handle depends only on (base seed, handle name)
//! (or on the explicit seed given to `seed_handle`), not on which other
//! handles exist, in which order they were created or drawn from, what the
//! table held before `reset`, which thread runs, or which `StrId` the name got.

use super::gen_proj::{mask, payload, read};
use vcore::{CaseCfg, Ctx, Draw, Outcome, hash_str, json};
use veryl_parser::resource_table;
use veryl_simulator::random_table as rt;

fn width(d: &mut Draw) -> u32 {
    match d.weighted(&[3, 4, 3]) {
        0 => 1 + d.below(64),
        1 => *d.pick(&[64u32, 1, 63, 2, 32, 33, 31, 8, 16, 7, 62]),
        _ => 33 + d.below(32),
    }
}

fn tmin(w: u32, s: bool) -> i128 {
    if s { -(1i128 << (w - 1)) } else { 0 }
}
fn tmax(w: u32, s: bool) -> i128 {
    if s { (1i128 << (w - 1)) - 1 } else { (1i128 << w) - 1 }
}

fn value_of(d: &mut Draw, w: u32, s: bool) -> i128 {
    let (lo, hi) = (tmin(w, s), tmax(w, s));
    match d.weighted(&[2, 2, 2, 2, 1, 1, 4]) {
        0 => lo,
        1 => hi,
        2 => 0i128.clamp(lo, hi),
        3 => (-1i128).clamp(lo, hi),
        4 => (lo + 1).min(hi),
        5 => (hi - 1).max(lo),
        _ => lo + (d.u64() as i128 % (hi - lo + 1)),
    }
}

/// (lo, hi, shape) with lo <= hi inside the type's range
fn bounds(d: &mut Draw, w: u32, s: bool) -> (i128, i128, &'static str) {
    let (tl, th) = (tmin(w, s), tmax(w, s));
    match d.weighted(&[3, 2, 3, 3, 2, 2]) {
        0 => {
            let (a, b) = (value_of(d, w, s), value_of(d, w, s));
            (a.min(b), a.max(b), "pair")
        }
        1 => (tl, th, "full"),
        2 => {
            let a = value_of(d, w, s);
            (a, a, "point")
        }
        3 => {
            let a = value_of(d, w, s).min(th - 1);
            (a, a + 1, "adjacent")
        }
        4 => {
            let a = value_of(d, w, s);
            let n = d.below(6) as i128;
            (a, (a + n).min(th), "small")
        }
        _ => {
            if d.bool() {
                (tl, value_of(d, w, s), "from-min")
            } else {
                (value_of(d, w, s), th, "to-max")
            }
        }
    }
}

/// The payload the testbench hands to `get_range` for bound `v`: the low
/// `w` bits, or — as `payload_u64()` of a wider signed expression does — the
/// 64-bit two's complement.
fn bound_payload(d: &mut Draw, v: i128, w: u32) -> u64 {
    if v < 0 && d.chance(1, 3) { v as i64 as u64 } else { payload(v, w) }
}

pub fn range_case(d: &mut Draw) -> Outcome {
    let w = width(d);
    let s = d.bool();
    let (lo, hi, shape) = bounds(d, w, s);
    let seed = if d.bool() { d.u64() } else { d.below(4) as u64 };
    let name = format!("h_{}", d.ident(6));
    let key = resource_table::insert_str(&name);
    rt::reset(seed);
    if d.chance(1, 4) {
        rt::seed_handle(key, d.u64());
    }
    let (plo, phi) = (bound_payload(d, lo, w), bound_payload(d, hi, w));
    let n = 8 + d.below(40);
    let mut hit_lo = false;
    let mut hit_hi = false;
    let input = || json!({"width": w, "signed": s, "lo": lo.to_string(), "hi": hi.to_string(), "lo_payload": plo, "hi_payload": phi, "seed": seed, "handle": name});
    for i in 0..n {
        let ranged = i % 5 != 4;
        let v = if ranged { rt::get_range(key, plo, phi, w, s) } else { rt::get(key, w, s) };
        let p = v.payload_u64();
        let what = if ranged { "get_range" } else { "get" };
        if v.width() != w as usize || v.signed() != s {
            return Outcome::fail(
                format!("api-{what}-value-type"),
                format!("{what} for width {w} signed {s} returned a value of width {} signed {}", v.width(), v.signed()),
                input(),
            );
        }
        if p & !mask(w) != 0 {
            return Outcome::fail(
                format!("api-{what}-payload-wider-than-type"),
                format!("{what} for width {w} returned payload {p:#x}"),
                input(),
            );
        }
        if !ranged {
            continue;
        }
        let r = read(p, w, s);
        // the value's own signed reading must agree (Value::to_i64 sign-extends signed values)
        if s && let Some(x) = v_to_i64(&v) && x as i128 != r {
            return Outcome::fail(
                "api-value-reading",
                format!("payload {p:#x} width {w}: to_i64 = {x}, two's complement reading = {r}"),
                input(),
            );
        }
        if r < lo || r > hi {
            return Outcome::fail(
                format!("api-draw-out-of-bounds:{}", if s { "signed" } else { "unsigned" }),
                format!("get_range(lo={lo}, hi={hi}) for {}{w} returned {r} (payload {p:#x}) on draw {i}", if s { "signed " } else { "unsigned " }),
                input(),
            );
        }
        hit_lo |= r == lo;
        hit_hi |= r == hi;
    }
    let wb = match w {
        1 => "1",
        2..=8 => "2-8",
        9..=32 => "9-32",
        33..=63 => "33-63",
        _ => "64",
    };
    let mut classes = vec![format!("api-range/{}{wb}", if s { "s" } else { "u" }), format!("api-range/shape/{shape}")];
    if hit_lo && hit_hi && lo != hi {
        classes.push("api-range/both-ends-drawn".into());
    }
    if lo == tmin(w, s) || hi == tmax(w, s) {
        classes.push("api-range/bound-at-type-extreme".into());
    }
    let key = hash_str(&format!("{w}|{s}|{lo}|{hi}|{seed}|{name}"));
    // every case decides something; "non-trivial" = a proper sub-range or a bound at an extreme
    Outcome::pass(key, true, classes, format!("width {w} signed {s} [{lo}, {hi}] seed {seed} handle {name}"))
}

fn v_to_i64(v: &veryl_simulator::ir::Value) -> Option<i64> {
    match v {
        veryl_simulator::ir::Value::U64(x) => x.to_i64(),
        _ => None,
    }
}

#[derive(Clone, Debug)]
enum Op {
    Get,
    Range(u64, u64),
    Seed(u64),
    GetSeed,
}

#[derive(Clone, Debug)]
struct H {
    name: String,
    w: u32,
    s: bool,
}

/// Apply `ops` (handle index, op) in order; results per handle.
fn apply(hs: &[H], ops: &[(usize, Op)], only: Option<usize>) -> Vec<Vec<u64>> {
    let mut out = vec![Vec::new(); hs.len()];
    for (h, op) in ops {
        if only.is_some_and(|o| o != *h) {
            continue;
        }
        let key = resource_table::insert_str(&hs[*h].name);
        let (w, s) = (hs[*h].w, hs[*h].s);
        match op {
            Op::Get => out[*h].push(rt::get(key, w, s).payload_u64()),
            Op::Range(a, b) => out[*h].push(rt::get_range(key, *a, *b, w, s).payload_u64()),
            Op::Seed(x) => rt::seed_handle(key, *x),
            Op::GetSeed => out[*h].push(rt::get_seed_handle(key)),
        }
    }
    out
}

pub fn repro_case(d: &mut Draw) -> Outcome {
    let nh = 2 + d.below(4) as usize;
    let mut hs: Vec<H> = Vec::new();
    while hs.len() < nh {
        // names that share prefixes / differ in one character
        let name = match d.below(3) {
            0 => format!("r{}", d.below(6)),
            1 => d.ident(5),
            _ => format!("{}_{}", d.ident(2), d.below(3)),
        };
        let name = if hs.iter().any(|h| h.name == name) { format!("{name}_{}", hs.len()) } else { name };
        if hs.iter().any(|h| h.name == name) {
            continue;
        }
        hs.push(H { name, w: width(d), s: d.bool() });
    }
    let base = if d.bool() { d.u64() } else { d.below(3) as u64 };
    let nops = 6 + d.below(50) as usize;
    let mut ops: Vec<(usize, Op)> = Vec::new();
    for _ in 0..nops {
        let h = d.below_usize(nh);
        let op = match d.weighted(&[5, 5, 1, 2]) {
            0 => Op::Get,
            1 => {
                let (lo, hi, _) = bounds(d, hs[h].w, hs[h].s);
                Op::Range(payload(lo, hs[h].w), payload(hi, hs[h].w))
            }
            2 => Op::Seed(if d.bool() { d.u64() } else { d.below(5) as u64 }),
            _ => Op::GetSeed,
        };
        ops.push((h, op));
    }
    // another interleaving with the same per-handle order: permute the sequence
    // of handle indices, then let every position take its handle's next op
    let mut seq: Vec<usize> = ops.iter().map(|o| o.0).collect();
    if d.exhausted() {
        seq.reverse();
    } else {
        for i in (1..seq.len()).rev() {
            let j = d.below(i as u32 + 1) as usize;
            seq.swap(i, j);
        }
    }
    let mut next: Vec<std::collections::VecDeque<usize>> = vec![Default::default(); nh];
    for (i, (h, _)) in ops.iter().enumerate() {
        next[*h].push_back(i);
    }
    let other: Vec<(usize, Op)> = seq.iter().map(|h| ops[next[*h].pop_front().unwrap()].clone()).collect();
    let pollute_seed = d.u64();
    let dummy = d.below(50);

    // reference: every handle alone, on a table that holds nothing else
    let mut alone: Vec<Vec<u64>> = Vec::new();
    for h in 0..nh {
        rt::reset(base);
        alone.push(apply(&hs, &ops, Some(h)).swap_remove(h));
    }
    let input = |what: &str| json!({"what": what, "base_seed": base, "handles": hs.iter().map(|h| json!({"name": h.name, "width": h.w, "signed": h.s})).collect::<Vec<_>>(), "ops": format!("{ops:?}"), "other_order": format!("{other:?}")});
    let compare = |got: &[Vec<u64>], what: &str| -> Option<Outcome> {
        for h in 0..nh {
            if got[h] != alone[h] {
                return Some(Outcome::fail(
                    format!("api-stream-depends-on:{what}"),
                    format!(
                        "handle {:?} (seed {base}): alone {:x?}, {what} {:x?}",
                        hs[h].name, alone[h], got[h]
                    ),
                    input(what),
                ));
            }
        }
        None
    };
    // all handles interleaved
    rt::reset(base);
    let got = apply(&hs, &ops, None);
    if let Some(f) = compare(&got, "other-handles-interleaved") {
        return f;
    }
    // another interleaving / creation order
    rt::reset(base);
    let got = apply(&hs, &other, None);
    if let Some(f) = compare(&got, "order-of-other-handles") {
        return f;
    }
    // leftovers of a previous test on the same worker
    rt::reset(pollute_seed);
    let _ = apply(&hs, &other, None);
    rt::reset(base);
    let got = apply(&hs, &ops, None);
    if let Some(f) = compare(&got, "table-state-before-reset") {
        return f;
    }
    // another thread, where the names get other StrIds
    let (hs2, ops2) = (hs.clone(), ops.clone());
    let got = std::thread::spawn(move || {
        for i in 0..dummy {
            resource_table::insert_str(&format!("dummy_{i}"));
        }
        // handles interned in reverse order
        for h in hs2.iter().rev() {
            resource_table::insert_str(&h.name);
        }
        rt::reset(base);
        apply(&hs2, &ops2, None)
    })
    .join();
    let Ok(got) = got else {
        return Outcome::fail("api-panic-on-other-thread", "random_table panicked on a fresh thread", input("thread"));
    };
    if let Some(f) = compare(&got, "thread-or-strid") {
        return f;
    }
    // non-vacuity witnesses (not asserted): another base seed / another handle name changes the stream
    rt::reset(base.wrapping_add(1));
    let got2 = apply(&hs, &ops, None);
    let seeded_only = |h: usize| ops.iter().filter(|(x, _)| *x == h).take(1).any(|(_, o)| matches!(o, Op::Seed(_)));
    let mut classes = vec![format!("api-repro/handles/{nh}")];
    if (0..nh).any(|h| !seeded_only(h) && got2[h] != alone[h] && alone[h].len() >= 2) {
        classes.push("api-repro/other-base-seed-differs".into());
    }
    let distinct = (0..nh).all(|a| (0..nh).all(|b| a == b || alone[a].len() < 3 || alone[a] != alone[b]));
    classes.push(if distinct { "api-repro/handles-have-distinct-streams".into() } else { "api-repro/two-handles-same-stream".into() });
    if ops.iter().any(|(_, o)| matches!(o, Op::Seed(_))) {
        classes.push("api-repro/explicit-seed".into());
    }
    let interleaved = ops.windows(2).filter(|w| w[0].0 != w[1].0).count() >= 3;
    let key = hash_str(&format!("{base}|{hs:?}|{ops:?}"));
    Outcome::pass(key, interleaved, classes, format!("seed {base} handles {hs:?} ops {ops:?}"))
}

pub fn run(ctx: &Ctx) {
    // ≈ 30 draws per range case, ≈ 4 × 30 per repro case
    let n1 = ctx.scale(3000, 200_000);
    let n2 = ctx.scale(1200, 60_000);
    ctx.run("api-range", CaseCfg::cases(n1).choices(300).same_thread(), range_case);
    ctx.run("api-repro", CaseCfg::cases(n2).choices(600).same_thread(), repro_case);
}
