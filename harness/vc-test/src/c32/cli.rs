//! C32 part 2: `veryl test --format json --seed S` on a generated project
//! under different CPU sets (⇒ worker counts) and dispatch orders (⇒ rewritten
//! `.build/test_timings`); per test (status, message, output) must be equal
//! across all runs with the same seed.

use super::gen_proj::{self as g, Project, TagSpec};
use std::collections::BTreeMap;
use std::path::{Path, PathBuf};
use std::time::Duration;
use vcore::util::{Scratch, repo_bin, run_cmd, write_file};
use vcore::{Draw, Outcome, Value, hash_str, json};

#[derive(Clone, Debug, PartialEq, Eq)]
pub struct TestRes {
    pub status: String,
    pub message: Option<String>,
    pub output: Option<String>,
}

#[derive(Clone, Debug)]
pub struct Report {
    /// tests in the order of the report = completion order
    pub order: Vec<String>,
    pub tests: BTreeMap<String, TestRes>,
    pub degraded: usize,
}

#[derive(Clone, Debug)]
pub enum Timings {
    /// no file: first run, alphabetical dispatch
    Remove,
    /// whatever the previous run recorded
    Keep,
    /// fake history (name, seconds); tests without an entry are dispatched first, alphabetically
    Write(Vec<(String, f64)>),
}

#[derive(Clone, Debug)]
pub struct RunCfg {
    pub cpus: Vec<u32>,
    pub timings: Timings,
    pub seed: u64,
    pub label: String,
}

pub struct Workspace {
    pub scratch: Scratch,
    pub proj: PathBuf,
    pub xdg: PathBuf,
    pub backend: Option<&'static str>,
}

impl Workspace {
    pub fn new(files: &[(String, String)], backend: Option<&'static str>) -> Workspace {
        let scratch = Scratch::new("c32");
        let proj = scratch.join(g::PROJECT);
        let xdg = scratch.join("xdg");
        std::fs::create_dir_all(&xdg).expect("mkdir xdg");
        for (rel, text) in files {
            write_file(&proj.join(rel), text);
        }
        Workspace { scratch, proj, xdg, backend }
    }

    pub fn timings_path(&self) -> PathBuf {
        self.proj.join(".build/test_timings")
    }

    pub fn command_line(&self, cfg: &RunCfg) -> String {
        let cpus: Vec<String> = cfg.cpus.iter().map(|c| c.to_string()).collect();
        let mut s = format!(
            "taskset -c {} veryl test --format json --seed {}",
            cpus.join(","),
            cfg.seed
        );
        if let Some(b) = self.backend {
            s.push_str(&format!(" --backend {b}"));
        }
        s
    }

    /// Err(reason) = no report (timeout, analysis error, …): never a violation by itself
    pub fn run(&self, cfg: &RunCfg) -> Result<Report, String> {
        match &cfg.timings {
            Timings::Remove => {
                let _ = std::fs::remove_file(self.timings_path());
            }
            Timings::Keep => {}
            Timings::Write(v) => {
                let text: Vec<String> = v.iter().map(|(n, s)| format!("{n} {s:.6}")).collect();
                write_file(&self.timings_path(), &text.join("\n"));
            }
        }
        let bin = repo_bin("veryl");
        let bin = bin.to_string_lossy().into_owned();
        let cpus: Vec<String> = cfg.cpus.iter().map(|c| c.to_string()).collect();
        let cpus = cpus.join(",");
        let seed = cfg.seed.to_string();
        let mut args: Vec<&str> = vec!["-c", &cpus, &bin, "test", "--format", "json", "--seed", &seed];
        if let Some(b) = self.backend {
            args.push("--backend");
            args.push(b);
        }
        let xdg = self.xdg.to_string_lossy().into_owned();
        let env = [
            ("XDG_CACHE_HOME", xdg.as_str()),
            ("NO_GRAPHICS", "1"),
            ("NO_COLOR", "1"),
            ("RUST_BACKTRACE", "0"),
        ];
        let o = run_cmd("taskset", &args, &self.proj, &env, Duration::from_secs(150));
        if o.timed_out {
            return Err("timeout".into());
        }
        parse_report(&o.stdout).map_err(|e| {
            let tail: String = o.stderr.lines().filter(|l| !l.contains("[INFO")).take(12).collect::<Vec<_>>().join("\n");
            format!("{e}; exit={:?} signal={:?}\n{tail}", o.code, o.signal)
        })
    }
}

pub fn parse_report(stdout: &str) -> Result<Report, String> {
    let start = stdout.find("{\n").or_else(|| stdout.find('{')).ok_or("no JSON report on stdout")?;
    let v: Value = serde_json::from_str(&stdout[start..]).map_err(|e| format!("report is not JSON: {e}"))?;
    let arr = v.get("tests").and_then(|t| t.as_array()).ok_or("report has no tests array")?;
    let mut order = Vec::new();
    let mut tests = BTreeMap::new();
    for t in arr {
        let name = t.get("name").and_then(|n| n.as_str()).ok_or("test without name")?.to_string();
        let res = TestRes {
            status: t.get("status").and_then(|n| n.as_str()).unwrap_or("").to_string(),
            message: t.get("message").and_then(|n| n.as_str()).map(|s| s.to_string()),
            output: t.get("output").and_then(|n| n.as_str()).map(|s| s.to_string()),
        };
        order.push(name.clone());
        if tests.insert(name.clone(), res).is_some() {
            return Err(format!("test {name} reported twice"));
        }
    }
    let degraded = v.get("degraded_modules").and_then(|d| d.as_array()).map(|a| a.len()).unwrap_or(0);
    Ok(Report { order, tests, degraded })
}

/// The dispatch order `cmd_test.rs` derives from a timings file: tests without
/// history first (alphabetical), then longest first.
pub fn dispatch_order(names: &[String], timings: &[(String, f64)]) -> Vec<String> {
    let t: BTreeMap<&str, f64> = timings.iter().map(|(n, s)| (n.as_str(), *s)).collect();
    let mut v: Vec<String> = names.to_vec();
    v.sort(); // ties cannot happen: the harness writes distinct timings
    v.sort_by(|a, b| match (t.get(a.as_str()), t.get(b.as_str())) {
        (None, None) => a.cmp(b),
        (None, Some(_)) => std::cmp::Ordering::Less,
        (Some(_), None) => std::cmp::Ordering::Greater,
        (Some(x), Some(y)) => y.partial_cmp(x).unwrap(),
    });
    v
}

/// Fake history that makes `order` the dispatch order; the first `fresh`
/// tests of it (which must then be alphabetical among themselves) get no entry.
fn timings_for(order: &[String], fresh: usize) -> Vec<(String, f64)> {
    let n = order.len();
    order
        .iter()
        .enumerate()
        .skip(fresh)
        .map(|(i, name)| (name.clone(), 0.001 * (n - i) as f64 + 0.0005))
        .collect()
}

fn pick_cpus(d: &mut Draw, n: usize, total: u32) -> Vec<u32> {
    if n as u32 >= total {
        return (0..total).collect();
    }
    let mut v: Vec<u32> = Vec::new();
    while v.len() < n {
        let mut c = d.below(total);
        while v.contains(&c) {
            c = (c + 1) % total;
        }
        v.push(c);
    }
    v.sort();
    v
}

fn permutation(d: &mut Draw, names: &[String]) -> Vec<String> {
    let mut v = names.to_vec();
    // Fisher–Yates from the choice sequence; an exhausted sequence reverses
    if d.exhausted() {
        v.reverse();
        return v;
    }
    for i in (1..v.len()).rev() {
        let j = d.below(i as u32 + 1) as usize;
        v.swap(i, j);
    }
    v
}

fn diff_fields(a: &TestRes, b: &TestRes) -> Vec<&'static str> {
    let mut v = Vec::new();
    if a.status != b.status {
        v.push("status");
    }
    if a.message != b.message {
        v.push("message");
    }
    if a.output != b.output {
        v.push("output");
    }
    v
}

/// First differing line of two outputs, for the message.
fn first_diff(a: &str, b: &str) -> String {
    let (la, lb): (Vec<&str>, Vec<&str>) = (a.lines().collect(), b.lines().collect());
    for i in 0..la.len().max(lb.len()) {
        let (x, y) = (la.get(i), lb.get(i));
        if x != y {
            return format!("line {}: {:?} vs {:?}", i + 1, x, y);
        }
    }
    "(same lines, different line ends)".into()
}

/// Bounds of every tagged draw printed by a test; Err((signature, message)).
fn check_bounds(t: &g::Test, out: &str, kf_hits: &mut u32, draws: &mut u64) -> Result<(), (String, String)> {
    for line in out.lines() {
        let Some(rest) = line.strip_prefix('#') else { continue };
        let mut it = rest.split_whitespace();
        let Some(tag) = it.next().and_then(|t| t.parse::<u32>().ok()) else { continue };
        let Some(TagSpec::Draw { h, width, signed, range, known_finding_shape }) = t.tags.get(&tag) else { continue };
        let Some(hex) = it.next() else { continue };
        let Ok(p) = u64::from_str_radix(hex, 16) else {
            return Err(("draw-not-a-number".into(), format!("test {} line {line:?}", t.name)));
        };
        *draws += 1;
        if p & !g::mask(*width) != 0 {
            return Err((
                "draw-wider-than-type".into(),
                format!("test {} handle {} ({} bits): printed {hex}", t.name, t.handles[*h].name, width),
            ));
        }
        if let Some((lo, hi)) = range {
            let v = g::read(p, *width, *signed);
            if v < *lo || v > *hi {
                if *known_finding_shape {
                    *kf_hits += 1;
                    continue;
                }
                return Err((
                    format!("draw-out-of-bounds:{}", if *signed { "signed" } else { "unsigned" }),
                    format!(
                        "test {} handle {} ({}{}): get_range({lo}, {hi}) returned {v} (printed line {line:?})",
                        t.name,
                        t.handles[*h].name,
                        if *signed { "signed " } else { "" },
                        width
                    ),
                ));
            }
        }
    }
    Ok(())
}

/// Scheduling-dependent failures are flaky by nature: the shrinker may not
/// see them again, so the first sighting is written out in full.
fn fail_saved(sig: &str, message: String, input: Value) -> Outcome {
    let dir = format!("{}/replays/C32", vcore::run::out_root());
    let _ = std::fs::create_dir_all(&dir);
    let h = hash_str(&format!("{sig}|{message}"));
    let path = format!("{dir}/first-sighting-{h:016x}.json");
    let body = json!({"property": "C32", "signature": sig, "message": message, "input": input});
    let _ = std::fs::write(&path, serde_json::to_string_pretty(&body).unwrap_or_default());
    Outcome::fail(sig, format!("{message}\n(first sighting saved: {path})"), input)
}

pub struct CliOpts {
    pub thorough: bool,
    pub total_cpus: u32,
}

pub fn case(d: &mut Draw, opts: &CliOpts) -> Outcome {
    let p: Project = g::generate(d, opts.thorough);
    let files = g::files(&p);
    let backend = match d.weighted(&[6, 2, 2]) {
        0 => None,
        1 => Some("cranelift"),
        _ => Some("interpret"),
    };
    let seed = match d.below(4) {
        0 => d.below(10) as u64,
        1 => u64::MAX - d.below(3) as u64,
        _ => d.u64(),
    };
    let other_seed = seed.wrapping_add(1 + d.below(1000) as u64);
    let mut names: Vec<String> = p.tests.iter().map(|t| t.name.clone()).collect();
    names.sort();
    let n = names.len();
    let total = opts.total_cpus;

    // ---- the schedule of runs --------------------------------------------
    let mut runs: Vec<RunCfg> = Vec::new();
    runs.push(RunCfg { cpus: pick_cpus(d, 1, total), timings: Timings::Remove, seed, label: "1cpu/no-history".into() });
    if opts.thorough {
        // the history the first run recorded, as a second invocation by a user would see it
        runs.push(RunCfg { cpus: (0..total).collect(), timings: Timings::Keep, seed, label: format!("{total}cpu/recorded") });
    }
    let extra = if opts.thorough { 9 } else { 4 };
    for k in 0..extra {
        let ncpu = match k % 4 {
            0 => 2,
            1 => 4,
            2 => 1,
            _ => total as usize,
        };
        let perm = permutation(d, &names);
        // sometimes leave a prefix of the (sorted) names without history: they go first
        let fresh = if d.chance(1, 4) { 1 + d.below(n as u32 - 1) as usize } else { 0 };
        let order: Vec<String> = if fresh > 0 {
            let mut head: Vec<String> = perm[..fresh].to_vec();
            head.sort();
            head.into_iter().chain(perm[fresh..].iter().cloned()).collect()
        } else {
            perm
        };
        let t = timings_for(&order, fresh);
        debug_assert_eq!(dispatch_order(&names, &t), order);
        runs.push(RunCfg {
            cpus: pick_cpus(d, ncpu, total),
            timings: Timings::Write(t),
            seed,
            label: format!("{ncpu}cpu/forced"),
        });
    }
    // the witness: another seed
    let witness = RunCfg { cpus: (0..total).collect(), timings: Timings::Keep, seed: other_seed, label: "other-seed".into() };

    let ws = Workspace::new(&files, backend);
    let describe = |extra: Value| -> Value {
        json!({
            "files": files.iter().map(|(a, b)| json!({"path": a, "text": b})).collect::<Vec<_>>(),
            "backend": backend,
            "seed": seed,
            "detail": extra,
        })
    };

    let mut classes: Vec<String> = Vec::new();
    // (configuration, dispatch order if the harness knows it, report)
    let mut reports: Vec<(RunCfg, Option<Vec<String>>, Report)> = Vec::new();
    for cfg in &runs {
        let expected_order = match &cfg.timings {
            Timings::Remove => Some(names.clone()),
            Timings::Write(t) => Some(dispatch_order(&names, t)),
            // recorded times may tie (the order of ties is not specified): unknown
            Timings::Keep => None,
        };
        match ws.run(cfg) {
            Ok(r) => reports.push((cfg.clone(), expected_order, r)),
            Err(e) => {
                if std::env::var("C32_DEBUG").is_ok() {
                    eprintln!("no report ({}): {e}\n{}", cfg.label, files.iter().map(|f| f.1.clone()).collect::<Vec<_>>().join("\n"));
                }
                // a project that analyses in one run and not in another would be a
                // difference, but there is no per-test triple to compare: out of domain
                if !e.starts_with("timeout") {
                    return Outcome::skip("cli: no report (project rejected or CLI failed)");
                }
                // time limits never decide anything; keep what is needed to look at it by hand
                let long = p.tests.iter().any(|t| t.long);
                let dir = format!("{}/.work/c32-timeouts", vcore::run::out_root());
                let _ = std::fs::create_dir_all(&dir);
                let h = hash_str(&format!("{seed}|{:?}", files));
                let _ = std::fs::write(
                    format!("{dir}/{h:016x}.json"),
                    serde_json::to_string_pretty(&describe(json!({"run": cfg.label, "command": ws.command_line(cfg), "timings": format!("{:?}", cfg.timings)}))).unwrap_or_default(),
                );
                return Outcome::skip(format!(
                    "cli: timeout in run {} (backend {}, {})",
                    cfg.label,
                    backend.unwrap_or("cc-default"),
                    if long { "has a long test" } else { "no long test" }
                ));
            }
        }
    }

    // ---- oracle 1: same (status, message, output) per test --------------
    let (base_cfg, _, base) = &reports[0];
    for name in &names {
        if !base.tests.contains_key(name) {
            return Outcome::skip("cli: a generated test is missing from the report");
        }
    }
    for (cfg, _, r) in &reports[1..] {
        for name in &names {
            let a = &base.tests[name];
            let Some(b) = r.tests.get(name) else {
                return Outcome::fail(
                    "sched-dependent:test-missing",
                    format!("test {name} is reported by `{}` but not by `{}`", ws.command_line(base_cfg), ws.command_line(cfg)),
                    describe(json!({"runs": [base_cfg.label, cfg.label]})),
                );
            };
            let f = diff_fields(a, b);
            if !f.is_empty() {
                // repeat both configurations to tell a stable difference from a flaky one
                let mut again = Vec::new();
                for _ in 0..2 {
                    let x = ws.run(base_cfg).ok().and_then(|r| r.tests.get(name).cloned());
                    let y = ws.run(cfg).ok().and_then(|r| r.tests.get(name).cloned());
                    again.push(json!({"base_same_as_first": x.as_ref() == Some(a), "other_same_as_first": y.as_ref() == Some(b), "differ": x != y}));
                }
                let what = if f.contains(&"output") {
                    first_diff(a.output.as_deref().unwrap_or(""), b.output.as_deref().unwrap_or(""))
                } else {
                    format!("{:?}/{:?} vs {:?}/{:?}", a.status, a.message, b.status, b.message)
                };
                let sig = format!("sched-dependent:{}", f.join("+"));
                return fail_saved(
                    &sig,
                    format!(
                        "test {name}: {} differ(s) between\n  [{}] {}   (timings: {:?})\n  [{}] {}   (timings: {:?})\n{what}\nrepetitions: {}",
                        f.join("+"),
                        base_cfg.label,
                        ws.command_line(base_cfg),
                        base_cfg.timings,
                        cfg.label,
                        ws.command_line(cfg),
                        cfg.timings,
                        serde_json::to_string(&again).unwrap_or_default(),
                    ),
                    describe(json!({
                        "test": name,
                        "first": {"status": a.status, "message": a.message, "output": a.output},
                        "second": {"status": b.status, "message": b.message, "output": b.output},
                        "timings_first": format!("{:?}", base_cfg.timings),
                        "timings_second": format!("{:?}", cfg.timings),
                    })),
                );
            }
        }
        if r.tests.len() != names.len() {
            return Outcome::fail(
                "sched-dependent:extra-test",
                format!("`{}` reports {} tests, the project has {}", ws.command_line(cfg), r.tests.len(), names.len()),
                describe(json!({"reported": r.order})),
            );
        }
    }

    // ---- oracle 2: printed draws within their bounds ---------------------
    let mut kf_hits = 0u32;
    let mut draws = 0u64;
    for t in &p.tests {
        let out = base.tests[&t.name].output.clone().unwrap_or_default();
        if let Err((sig, msg)) = check_bounds(t, &out, &mut kf_hits, &mut draws) {
            return Outcome::fail(sig, format!("{msg}\nrun: {}", ws.command_line(base_cfg)), describe(json!({"test": t.name, "output": out})));
        }
    }
    if kf_hits > 0 {
        // listed finding; everything else about this project was checked first
        let t = p.tests.iter().find(|t| t.tags.values().any(|s| matches!(s, TagSpec::Draw { known_finding_shape: true, .. })));
        return Outcome::fail(
            "range-bound-not-sign-extended",
            format!(
                "{kf_hits} draw(s) outside [lo, hi]: a negative bound written as a 32-bit literal for a signed element type wider than 32 bits is zero-extended; run: {}",
                ws.command_line(base_cfg)
            ),
            describe(json!({"test": t.map(|t| t.name.clone())})),
        );
    }

    // ---- non-triviality and the class histogram --------------------------
    let mut multi_worker_seen = false;
    let mut non_alpha_order = false;
    for (cfg, expected, r) in &reports {
        let workers = cfg.cpus.len().min(n);
        let Some(expected) = expected else { continue };
        if expected != &names {
            non_alpha_order = true;
        }
        if workers >= 2 && &r.order != expected {
            // with one worker the report order is the dispatch order, so a
            // different completion order proves that ≥ 2 workers ran tests
            multi_worker_seen = true;
            classes.push(format!("overlap_seen/{}cpu", cfg.cpus.len()));
        }
        if workers == 1 {
            if &r.order == expected {
                if expected != &names {
                    classes.push("forced_order_observed/1cpu".into());
                }
            } else {
                classes.push("UNEXPECTED_order_on_1cpu".into());
            }
        }
        if r.degraded > 0 {
            classes.push("run_with_degraded_modules".into());
        } else if backend.is_none() {
            classes.push("run_all_on_cc".into());
        }
    }
    let seed_changes = match ws.run(&witness) {
        Ok(w) => names.iter().any(|nm| w.tests.get(nm) != base.tests.get(nm)),
        Err(_) => false,
    };
    classes.push(if seed_changes { "other_seed_differs".into() } else { "other_seed_same".into() });
    classes.push(format!("backend/{}", backend.unwrap_or("cc-default")));
    classes.push(format!("tests/{}", match n { 3..=4 => "3-4", 5..=8 => "5-8", _ => "9-12" }));
    let st: std::collections::BTreeSet<&str> = base.tests.values().map(|t| t.status.as_str()).collect();
    classes.push(format!("verdicts/{}", st.iter().cloned().collect::<Vec<_>>().join("+")));
    if base.tests.values().any(|t| t.status == "error") {
        classes.push("HAS_error_status".into());
    }
    let mut duts: BTreeMap<&g::DutKind, u32> = BTreeMap::new();
    for t in &p.tests {
        *duts.entry(&t.dut).or_insert(0) += 1;
    }
    if duts.values().any(|c| *c >= 2) {
        classes.push("dut_config_shared".into());
    }
    if duts.iter().any(|(k, c)| *c >= 2 && k.big()) {
        classes.push("dut_reuse_boundary_candidate".into());
    }
    let kinds: std::collections::BTreeSet<&str> = p.tests.iter().map(|t| t.dut.module()).collect();
    for k in kinds {
        classes.push(format!("dut/{k}"));
    }
    if p.tests.iter().any(|t| t.long) {
        classes.push("has_long_test".into());
    }
    let mut hn: BTreeMap<&str, u32> = BTreeMap::new();
    for t in &p.tests {
        for h in &t.handles {
            *hn.entry(h.name.as_str()).or_insert(0) += 1;
            classes.push(format!("elem/{}{}", if h.ty.signed { "s" } else { "u" }, match h.ty.width { 1 => "1", 2..=8 => "2-8", 9..=32 => "9-32", 33..=63 => "33-63", _ => "64" }));
        }
    }
    if hn.values().any(|c| *c >= 2) {
        classes.push("handle_name_shared_across_tests".into());
    }
    if p.has_kf_shape {
        classes.push("kf_shape_present_no_hit".into());
    }
    classes.push(format!("draws_checked/{}", match draws { 0 => "0", 1..=9 => "1-9", 10..=99 => "10-99", _ => "100+" }));
    classes.sort();
    classes.dedup();
    let nontrivial = multi_worker_seen && non_alpha_order;
    let text: String = files.iter().map(|(a, b)| format!("// ---- {a}\n{b}")).collect();
    let sample = format!(
        "seed {seed}, backend {:?}, runs: {}\n{}",
        backend,
        reports.iter().map(|(c, e, r)| format!("[{} cpus={:?} dispatch={:?} completed={:?}]", c.label, c.cpus, e, r.order)).collect::<Vec<_>>().join(" "),
        text
    );
    Outcome::pass(hash_str(&format!("{seed}|{backend:?}|{text}")), nontrivial, classes, sample)
}

/// Write a generated project somewhere for hand runs (development aid).
pub fn dump(dir: &Path, d: &mut Draw) {
    let p = g::generate(d, false);
    for (rel, text) in g::files(&p) {
        write_file(&dir.join(rel), &text);
    }
}

/// A hand-written project (payload: files, seed, draws: tag → {test, width,
/// signed, lo, hi, signature}) run once; every tagged line `#<tag> <hex> …`
/// of the named test must lie within [lo, hi], else the tag's signature is
/// reported.  Used for the reproducers of listed findings.
pub fn fixed_case(payload: &Value) -> Outcome {
    let Some(files) = payload.get("files").and_then(|f| f.as_array()) else {
        return Outcome::skip("cli-fixed: payload without files");
    };
    let files: Vec<(String, String)> = files
        .iter()
        .filter_map(|f| Some((f.get("path")?.as_str()?.to_string(), f.get("text")?.as_str()?.to_string())))
        .collect();
    let seed = payload.get("seed").and_then(|s| s.as_u64()).unwrap_or(1);
    let ws = Workspace::new(&files, None);
    let total = std::thread::available_parallelism().map(|n| n.get()).unwrap_or(1) as u32;
    let cfg = RunCfg { cpus: (0..total).collect(), timings: Timings::Remove, seed, label: "fixed".into() };
    let rep = match ws.run(&cfg) {
        Ok(r) => r,
        Err(e) => return Outcome::skip(format!("cli-fixed: no report: {}", e.lines().next().unwrap_or(""))),
    };
    let empty = serde_json::Map::new();
    let draws = payload.get("draws").and_then(|d| d.as_object()).unwrap_or(&empty);
    let mut bad: BTreeMap<String, Vec<String>> = BTreeMap::new();
    let mut checked = 0;
    for (tag, spec) in draws {
        let test = spec.get("test").and_then(|t| t.as_str()).unwrap_or("");
        let width = spec.get("width").and_then(|t| t.as_u64()).unwrap_or(64) as u32;
        let signed = spec.get("signed").and_then(|t| t.as_bool()).unwrap_or(false);
        let lo: i128 = spec.get("lo").and_then(|t| t.as_str()).and_then(|s| s.parse().ok()).unwrap_or(i128::MIN);
        let hi: i128 = spec.get("hi").and_then(|t| t.as_str()).and_then(|s| s.parse().ok()).unwrap_or(i128::MAX);
        let sig = spec.get("signature").and_then(|t| t.as_str()).unwrap_or("draw-out-of-bounds");
        let out = rep.tests.get(test).and_then(|t| t.output.clone()).unwrap_or_default();
        let prefix = format!("#{tag} ");
        for line in out.lines().filter(|l| l.starts_with(&prefix)) {
            let Some(p) = line[prefix.len()..].split_whitespace().next().and_then(|h| u64::from_str_radix(h, 16).ok()) else { continue };
            checked += 1;
            let v = g::read(p, width, signed);
            if v < lo || v > hi {
                bad.entry(sig.to_string()).or_default().push(format!("{test} {line:?}: {v} outside [{lo}, {hi}]"));
            }
        }
    }
    // an unlisted signature first, so that a listed one cannot mask it
    let listed = "range-bound-not-sign-extended";
    if let Some((sig, lines)) = bad.iter().find(|(s, _)| s.as_str() != listed).or(bad.iter().next()) {
        return Outcome::fail(
            sig.clone(),
            format!("{} draw(s) out of bounds, e.g. {}\nrun: {}", lines.len(), lines[0], ws.command_line(&cfg)),
            json!({"lines": lines}),
        );
    }
    if checked == 0 {
        return Outcome::skip("cli-fixed: no tagged draw in the output");
    }
    Outcome::pass(hash_str(&payload.to_string()), true, vec!["cli-fixed/in-bounds".into()], format!("{checked} draws in bounds"))
}
