//! Generator of `veryl test` projects for C32: a package of element types,
//! a few small DUT modules and 3–12 native testbenches that draw `$tb::random`
//! values from several handles, drive the DUTs, print through `$display` and
//! `$assert` things that hold, things that fail and things that depend on the
//! random stream.
//!
//! Everything is derived from the `Draw` choice sequence; an exhausted sequence
//! yields the simplest project (three tiny tests).

use std::collections::{BTreeMap, BTreeSet};
use std::fmt::Write as _;
use vcore::Draw;

pub const PROJECT: &str = "c32p";

pub fn mask(w: u32) -> u64 {
    if w >= 64 { u64::MAX } else { (1u64 << w) - 1 }
}

/// Reading of a `w`-bit payload as a number.
pub fn read(p: u64, w: u32, signed: bool) -> i128 {
    let p = p & mask(w);
    if signed && (p >> (w - 1)) & 1 == 1 {
        p as i128 - (1i128 << w)
    } else {
        p as i128
    }
}

pub fn payload(v: i128, w: u32) -> u64 {
    (v as u64) & mask(w)
}

#[derive(Clone, Debug, PartialEq, Eq)]
pub struct ElemTy {
    pub width: u32,
    pub signed: bool,
    /// how the type is written: builtin name, package alias or module-local `gen` alias
    pub text: String,
    pub gen_alias: bool,
}

impl ElemTy {
    pub fn tmin(&self) -> i128 {
        if self.signed { -(1i128 << (self.width - 1)) } else { 0 }
    }
    pub fn tmax(&self) -> i128 {
        if self.signed {
            (1i128 << (self.width - 1)) - 1
        } else {
            (1i128 << self.width) - 1
        }
    }
    fn lit(&self, v: i128) -> String {
        let p = payload(v, self.width);
        if self.signed {
            format!("{}'sh{:x}", self.width, p)
        } else {
            format!("{}'h{:x}", self.width, p)
        }
    }
}

/// How a bound of `get_range` is written in the source.
#[derive(Clone, Copy, Debug, PartialEq, Eq)]
pub enum BoundForm {
    /// sized literal of exactly the element width (signed literal for signed types)
    Sized,
    /// unsized decimal literal (32 bit): only where the 32-bit payload masked to
    /// the element width is the intended value
    Unsized,
    /// a variable of the element type assigned from a sized literal
    TypedVar,
    /// KNOWN FINDING shape: negative unsized (32-bit) literal for a signed
    /// element type wider than 32 bits
    NarrowNegative,
}

#[derive(Clone, Debug)]
pub struct RangeSpec {
    pub lo: i128,
    pub hi: i128,
    pub lo_form: BoundForm,
    pub hi_form: BoundForm,
    pub shape: &'static str,
}

#[derive(Clone, Debug)]
pub enum Cond {
    /// `dut output == dut output`, or the counter model when it is known
    Holds(String),
    /// `1'b0`-like
    Fails(String),
    /// depends on the value last drawn from handle h
    Random(String),
}

#[derive(Clone, Debug)]
pub enum St {
    Draw { h: usize, range: Option<RangeSpec>, tag: Option<u32> },
    Seed { h: usize, value: u64 },
    GetSeed { h: usize, tag: u32 },
    Drive { port: usize, h: usize },
    Clock(u32),
    Show { tag: u32 },
    Text(String),
    Assert { fatal: bool, cond: Cond, msg: String, arg: Option<String> },
    For { n: u32, body: Vec<St> },
    IfBit { h: usize, bit: u32, then: Vec<St>, els: Vec<St> },
}

#[derive(Clone, Debug, PartialEq, Eq, PartialOrd, Ord)]
pub enum DutKind {
    Counter { w: u32, step: u32 },
    Adder { w: u32 },
    Shift { w: u32, depth: u32 },
    Accum { w: u32 },
}

impl DutKind {
    pub fn module(&self) -> &'static str {
        match self {
            DutKind::Counter { .. } => "Counter",
            DutKind::Adder { .. } => "Adder",
            DutKind::Shift { .. } => "Shift",
            DutKind::Accum { .. } => "Accum",
        }
    }
    pub fn w(&self) -> u32 {
        match self {
            DutKind::Counter { w, .. } | DutKind::Adder { w } | DutKind::Shift { w, .. } | DutKind::Accum { w } => *w,
        }
    }
    /// (name, width) of the inputs the testbench drives
    pub fn inputs(&self) -> Vec<(&'static str, u32)> {
        match self {
            DutKind::Counter { .. } => vec![("en", 1)],
            DutKind::Adder { w } => vec![("a", *w), ("b", *w)],
            DutKind::Shift { w, .. } | DutKind::Accum { w } => vec![("d", *w)],
        }
    }
    pub fn outputs(&self) -> Vec<(&'static str, u32)> {
        match self {
            DutKind::Counter { w, .. } => vec![("cnt", *w)],
            DutKind::Adder { w } => vec![("s", *w), ("c", 1)],
            DutKind::Shift { w, .. } => vec![("q", *w)],
            DutKind::Accum { w } => vec![("acc", *w), ("x", *w)],
        }
    }
    fn clocked(&self) -> bool {
        !matches!(self, DutKind::Adder { .. })
    }
    fn params(&self) -> String {
        match self {
            DutKind::Counter { w, step } => format!("W: {w}, STEP: {step}"),
            DutKind::Adder { w } | DutKind::Accum { w } => format!("W: {w}"),
            DutKind::Shift { w, depth } => format!("W: {w}, D: {depth}"),
        }
    }
    /// state bytes ≥ 256 ⇒ candidate for the cross-test DUT-reuse boundary
    pub fn big(&self) -> bool {
        matches!(self, DutKind::Shift { w, depth } if (*w as u64).div_ceil(8) * *depth as u64 >= 256)
    }
}

#[derive(Clone, Debug)]
pub struct Handle {
    pub name: String,
    pub ty: ElemTy,
}

#[derive(Clone, Debug)]
pub enum TagSpec {
    Draw { h: usize, width: u32, signed: bool, range: Option<(i128, i128)>, known_finding_shape: bool },
    Seed,
    Show,
}

#[derive(Clone, Debug)]
pub struct Test {
    pub name: String,
    pub dut: DutKind,
    pub handles: Vec<Handle>,
    pub body: Vec<St>,
    pub tags: BTreeMap<u32, TagSpec>,
    pub long: bool,
}

#[derive(Clone, Debug)]
pub struct Project {
    pub tests: Vec<Test>,
    pub pkg_types: BTreeSet<(u32, bool)>,
    /// the project contains the known-finding shape (narrow negative bound)
    pub has_kf_shape: bool,
    pub split_files: bool,
}

const HANDLE_NAMES: &[&str] = &["r", "rnd", "ra", "rb", "h0", "gen_a", "x_r", "r_1", "seed_src", "lfsr"];
const TEST_STEMS: &[&str] = &["a", "zz", "m", "b", "cnt", "x9", "k", "add", "sh", "q", "top", "e", "w", "n0"];

struct TestGen<'a> {
    d: &'a mut Draw,
    handles: Vec<Handle>,
    dut: DutKind,
    tags: BTreeMap<u32, TagSpec>,
    next_tag: u32,
    budget: i32,
    allow_kf: bool,
    used_kf: bool,
    /// clocks taken so far if statically known (counter model)
    clocks: Option<u64>,
    en_const: bool,
}

fn pick_width(d: &mut Draw) -> u32 {
    match d.weighted(&[3, 3, 2, 2]) {
        0 => *d.pick(&[8u32, 16, 32, 64]),
        1 => *d.pick(&[1u32, 2, 7, 13, 31, 33, 63, 64]),
        2 => 1 + d.below(64),
        _ => 33 + d.below(32),
    }
}

fn elem_ty(d: &mut Draw, pkg: &mut BTreeSet<(u32, bool)>, width: u32, signed: bool) -> ElemTy {
    let builtin = match (width, signed) {
        (8, false) => Some("u8"),
        (16, false) => Some("u16"),
        (32, false) => Some("u32"),
        (64, false) => Some("u64"),
        (8, true) => Some("i8"),
        (16, true) => Some("i16"),
        (32, true) => Some("i32"),
        (64, true) => Some("i64"),
        (1, false) => Some("bbool"),
        _ => None,
    };
    if let Some(b) = builtin
        && !d.chance(1, 4)
    {
        return ElemTy { width, signed, text: b.to_string(), gen_alias: false };
    }
    // `gen` aliases lose `signed` (the alias is unsigned everywhere), so only unsigned ones
    if !signed && d.chance(1, 6) {
        return ElemTy { width, signed, text: format!("g{width}"), gen_alias: true };
    }
    pkg.insert((width, signed));
    ElemTy {
        width,
        signed,
        text: format!("TyPkg::{}{}", if signed { "sb" } else { "ub" }, width),
        gen_alias: false,
    }
}

impl TestGen<'_> {
    fn tag(&mut self, spec: TagSpec) -> u32 {
        let t = self.next_tag;
        self.next_tag += 1;
        self.tags.insert(t, spec);
        t
    }

    fn bound_form(&mut self, ty: &ElemTy, v: i128) -> BoundForm {
        let unsized_ok = if v >= 0 {
            v < (1 << 31)
        } else {
            // a negative 32-bit literal keeps its value only up to 32 bits
            ty.signed && ty.width <= 32 && v >= -(1 << 31)
        };
        if self.allow_kf && ty.signed && ty.width > 32 && v < 0 && v >= -(1 << 31) && self.d.chance(1, 2) {
            self.used_kf = true;
            return BoundForm::NarrowNegative;
        }
        match self.d.weighted(&[3, if unsized_ok { 3 } else { 0 }, 2]) {
            0 => BoundForm::Sized,
            1 => BoundForm::Unsized,
            _ => BoundForm::TypedVar,
        }
    }

    fn range(&mut self, ty: &ElemTy) -> RangeSpec {
        let (tmin, tmax) = (ty.tmin(), ty.tmax());
        let span = tmax - tmin; // ≥ 1
        let rnd = |d: &mut Draw| -> i128 {
            // a value of the type, corners preferred
            match d.weighted(&[2, 2, 2, 2, 4]) {
                0 => tmin,
                1 => tmax,
                2 => 0i128.clamp(tmin, tmax),
                3 => (-1i128).clamp(tmin, tmax),
                _ => tmin + (d.u64() as i128 % (span + 1)),
            }
        };
        let (lo, hi, shape) = match self.d.weighted(&[3, 2, 2, 2, 2, 2]) {
            0 => {
                let a = rnd(self.d);
                let b = rnd(self.d);
                (a.min(b), a.max(b), "pair")
            }
            1 => (tmin, tmax, "full"),
            2 => {
                let a = rnd(self.d);
                (a, a, "point")
            }
            3 => {
                let a = rnd(self.d).min(tmax - 1);
                (a, a + 1, "adjacent")
            }
            4 => {
                // small window (dice-like), crossing zero for signed types
                let n = 1 + self.d.below(9) as i128;
                if ty.signed {
                    ((-n).max(tmin), n.min(tmax), "small")
                } else {
                    (0, n.min(tmax), "small")
                }
            }
            _ => {
                if self.d.bool() {
                    (tmin, rnd(self.d), "from-min")
                } else {
                    (rnd(self.d), tmax, "to-max")
                }
            }
        };
        let lo_form = self.bound_form(ty, lo);
        let hi_form = self.bound_form(ty, hi);
        RangeSpec { lo, hi, lo_form, hi_form, shape }
    }

    fn draw_stmt(&mut self, show: bool) -> St {
        let h = self.d.below_usize(self.handles.len());
        let ty = self.handles[h].ty.clone();
        let range = if self.d.chance(3, 5) { Some(self.range(&ty)) } else { None };
        let kf = range
            .as_ref()
            .is_some_and(|r| r.lo_form == BoundForm::NarrowNegative || r.hi_form == BoundForm::NarrowNegative);
        let tag = if show {
            Some(self.tag(TagSpec::Draw {
                h,
                width: ty.width,
                signed: ty.signed,
                range: range.as_ref().map(|r| (r.lo, r.hi)),
                known_finding_shape: kf,
            }))
        } else {
            None
        };
        St::Draw { h, range, tag }
    }

    fn assert_stmt(&mut self) -> St {
        let fatal = self.d.chance(3, 5);
        let outs = self.dut.outputs();
        let (o, ow) = outs[self.d.below_usize(outs.len())];
        let h = self.d.below_usize(self.handles.len());
        let hv = format!("v_{}", self.handles[h].name);
        let kind = self.d.weighted(&[5, 2, 3]);
        let k = self.next_tag; // only for message variety
        let (cond, arg) = match kind {
            0 => {
                let text = match (&self.dut, self.clocks, self.en_const) {
                    (DutKind::Counter { w, step }, Some(n), true) if o == "cnt" => {
                        let exp = (n as u128 * *step as u128) as u64 & mask(*w);
                        format!("{o} == {w}'h{exp:x}")
                    }
                    (DutKind::Adder { .. }, _, _) if o == "s" => "s == a + b".to_string(),
                    _ => format!("{o} == {o}"),
                };
                (Cond::Holds(text), Some(o.to_string()))
            }
            1 => {
                let text = if self.d.bool() { "1'b0".to_string() } else { format!("{o} != {o}") };
                (Cond::Fails(text), Some(hv.clone()))
            }
            _ => {
                let ty = &self.handles[h].ty;
                let text = if ty.width == 1 || self.d.bool() {
                    format!("{hv}[0] == 1'b0")
                } else {
                    // roughly half of the type's values
                    let mid = (ty.tmin() + ty.tmax()) / 2;
                    format!("{hv} <: {}", ty.lit(mid))
                };
                (Cond::Random(text), Some(hv.clone()))
            }
        };
        let _ = ow;
        let msg = match self.d.below(3) {
            0 => format!("m{k} %d"),
            1 => format!("check {k} failed: value=%h"),
            _ => format!("m{k}"),
        };
        let arg = if msg.contains('%') { arg } else { None };
        St::Assert { fatal, cond, msg, arg }
    }

    fn block(&mut self, depth: u32, in_branch: bool) -> Vec<St> {
        let n = 1 + self.d.below(if depth == 0 { 8 } else { 4 });
        let mut out = Vec::new();
        for _ in 0..n {
            if self.budget <= 0 {
                break;
            }
            self.budget -= 1;
            let s = match self.d.weighted(&[8, 3, 3, 2, 2, 3, if depth < 2 { 3 } else { 0 }, if depth < 2 { 2 } else { 0 }, 1, 1, 1]) {
                0 => self.draw_stmt(true),
                1 => {
                    let c = self.dut.clocked();
                    let n = if c { 1 + self.d.below(6) } else { 1 };
                    if in_branch {
                        self.clocks = None;
                    } else if let Some(t) = self.clocks.as_mut() {
                        *t += n as u64;
                    }
                    St::Clock(n)
                }
                2 => {
                    let t = self.tag(TagSpec::Show);
                    St::Show { tag: t }
                }
                3 => {
                    // drive an input from a handle of the same width, if there is one
                    let ins = self.dut.inputs();
                    let port = self.d.below_usize(ins.len());
                    let w = ins[port].1;
                    let cands: Vec<usize> = (0..self.handles.len())
                        .filter(|&i| self.handles[i].ty.width == w && !self.handles[i].ty.signed)
                        .collect();
                    if cands.is_empty() {
                        self.draw_stmt(false)
                    } else {
                        if ins[port].0 == "en" {
                            self.en_const = false;
                            self.clocks = None;
                        }
                        St::Drive { port, h: cands[self.d.below_usize(cands.len())] }
                    }
                }
                4 => self.draw_stmt(false),
                5 => self.assert_stmt(),
                6 => {
                    let n = 1 + self.d.below(8);
                    // a clock inside the body gives up on the static counter model
                    let body = self.block(depth + 1, true);
                    St::For { n, body }
                }
                7 => {
                    let h = self.d.below_usize(self.handles.len());
                    let bit = self.d.below(self.handles[h].ty.width);
                    let then = self.block(depth + 1, true);
                    let els = if self.d.bool() { self.block(depth + 1, true) } else { Vec::new() };
                    St::IfBit { h, bit, then, els }
                }
                8 => {
                    let h = self.d.below_usize(self.handles.len());
                    let value = if self.d.bool() { self.d.below(1000) as u64 } else { self.d.u64() };
                    St::Seed { h, value }
                }
                9 => {
                    let h = self.d.below_usize(self.handles.len());
                    let t = self.tag(TagSpec::Seed);
                    St::GetSeed { h, tag: t }
                }
                _ => St::Text(format!("note {} from {}", self.next_tag, self.d.ident(6))),
            };
            out.push(s);
        }
        out
    }
}

pub fn generate(d: &mut Draw, thorough: bool) -> Project {
    let n_tests = 3 + d.below(10) as usize; // 3..=12
    let mut pkg = BTreeSet::new();
    // DUT pool: 1..=3 configurations; tests pick from it so that a
    // (module, parameters) pair recurs across testbenches
    let n_duts = 1 + d.below(3) as usize;
    let mut pool = Vec::new();
    for _ in 0..n_duts {
        let w = pick_width(d);
        let k = match d.weighted(&[3, 2, 2, 2, 1]) {
            0 => DutKind::Counter { w, step: 1 + d.below(7) },
            1 => DutKind::Adder { w },
            2 => DutKind::Shift { w, depth: 1 + d.below(6) },
            3 => DutKind::Accum { w },
            _ => DutKind::Shift { w: 64, depth: 32 + d.below(40) },
        };
        pool.push(k);
    }
    let allow_kf_project = d.chance(1, 10);
    let mut names = BTreeSet::new();
    let mut tests = Vec::new();
    let mut has_kf = false;
    for ti in 0..n_tests {
        let name = loop {
            let stem = *d.pick(TEST_STEMS);
            let n = match d.below(3) {
                0 => format!("t_{stem}"),
                1 => format!("test_{stem}_{}", d.below(4)),
                _ => format!("{stem}_tb{}", d.below(10)),
            };
            if names.insert(n.clone()) {
                break n;
            }
            let n2 = format!("t{ti}_{stem}");
            if names.insert(n2.clone()) {
                break n2;
            }
        };
        let dut = pool[d.below_usize(pool.len())].clone();
        // handles: one of the DUT's input width (unsigned) so that it can be driven, plus 0..=3 more
        let mut handles: Vec<Handle> = Vec::new();
        let mut hn: Vec<&str> = Vec::new();
        let n_handles = 1 + d.below(4) as usize;
        for hi in 0..n_handles {
            // linear probe from a drawn start: terminates on an exhausted choice
            // sequence too (n_handles ≤ 4 < HANDLE_NAMES.len())
            let mut ni = d.below_usize(HANDLE_NAMES.len());
            while hn.contains(&HANDLE_NAMES[ni]) {
                ni = (ni + 1) % HANDLE_NAMES.len();
            }
            let name = HANDLE_NAMES[ni];
            hn.push(name);
            let (w, s) = if hi == 0 {
                let ins = dut.inputs();
                (ins[ins.len() - 1].1, false)
            } else {
                (pick_width(d), d.bool())
            };
            let ty = elem_ty(d, &mut pkg, w, s);
            handles.push(Handle { name: name.to_string(), ty });
        }
        let long = dut.clocked() && d.chance(1, if thorough { 6 } else { 10 });
        let mut g = TestGen {
            d,
            handles,
            dut: dut.clone(),
            tags: BTreeMap::new(),
            next_tag: 1,
            budget: 24,
            allow_kf: allow_kf_project,
            used_kf: false,
            clocks: Some(1),
            en_const: true,
        };
        let mut body = g.block(0, false);
        if long {
            // a long stretch of cycles: lets the asynchronously compiled C
            // backend swap in mid-run on a cold cache
            let n = 20_000 + g.d.below(if thorough { 400_000 } else { 120_000 });
            if let Some(t) = g.clocks.as_mut() {
                *t += n as u64;
            }
            body.push(St::Clock(n));
            let t = g.tag(TagSpec::Show);
            body.push(St::Show { tag: t });
            body.push(g.draw_stmt(true));
        }
        // every test prints at least one draw
        if !g.tags.values().any(|t| matches!(t, TagSpec::Draw { .. })) {
            body.push(g.draw_stmt(true));
        }
        has_kf |= g.used_kf;
        let (tags, handles) = (g.tags, g.handles);
        tests.push(Test { name, dut, handles, body, tags, long });
    }
    let split_files = d.bool();
    Project { tests, pkg_types: pkg, has_kf_shape: has_kf, split_files }
}

// ---------------------------------------------------------------- printing

const DUT_SRC: &str = r#"module Counter #(
    param W   : u32 = 8,
    param STEP: u32 = 1,
) (
    clk: input  clock   ,
    rst: input  reset   ,
    en : input  logic   ,
    cnt: output logic<W>,
) {
    always_ff {
        if_reset {
            cnt = 0;
        } else if en {
            cnt += STEP as W;
        }
    }
}

module Adder #(
    param W: u32 = 8,
) (
    a: input  logic<W>,
    b: input  logic<W>,
    s: output logic<W>,
    c: output logic   ,
) {
    var t: logic<W + 1>;
    assign t = {1'b0, a} + {1'b0, b};
    assign s = t[W - 1:0];
    assign c = t[W];
}

module Shift #(
    param W: u32 = 8,
    param D: u32 = 4,
) (
    clk: input  clock   ,
    rst: input  reset   ,
    d  : input  logic<W>,
    q  : output logic<W>,
) {
    var mem: logic<W> [D];
    always_ff {
        if_reset {
            for i in 0..D {
                mem[i] = 0;
            }
        } else {
            mem[0] = d;
            for i in 1..D {
                mem[i] = mem[i - 1];
            }
        }
    }
    assign q = mem[D - 1];
}

module Accum #(
    param W: u32 = 8,
) (
    clk: input  clock   ,
    rst: input  reset   ,
    d  : input  logic<W>,
    acc: output logic<W>,
    x  : output logic<W>,
) {
    always_ff {
        if_reset {
            acc = 0;
        } else {
            acc += d;
        }
    }
    assign x = acc ^ (acc >> 1);
}
"#;

pub const VERYL_TOML: &str = r#"[project]
name    = "c32p"
version = "0.1.0"

[build]
clock_type  = "posedge"
reset_type  = "async_low"
sources     = ["src"]
exclude_std = true
"#;

fn ind(n: usize) -> String {
    "    ".repeat(n)
}

struct Printer<'a> {
    t: &'a Test,
    out: String,
    /// typed bound variables: declared at module level
    bound_vars: Vec<(String, String)>,
}

impl Printer<'_> {
    fn bound(&mut self, ty: &ElemTy, v: i128, form: BoundForm, pre: &mut String, lvl: usize) -> String {
        match form {
            BoundForm::Sized => ty.lit(v),
            BoundForm::Unsized | BoundForm::NarrowNegative => format!("{v}"),
            BoundForm::TypedVar => {
                let name = format!("b{}", self.bound_vars.len());
                self.bound_vars.push((name.clone(), ty.text.clone()));
                let _ = writeln!(pre, "{}{name} = {};", ind(lvl), ty.lit(v));
                name
            }
        }
    }

    fn stmts(&mut self, body: &[St], lvl: usize) {
        for s in body {
            self.stmt(s, lvl);
        }
    }

    fn stmt(&mut self, s: &St, lvl: usize) {
        let i = ind(lvl);
        match s {
            St::Draw { h, range, tag } => {
                let hd = &self.t.handles[*h];
                let (name, ty) = (hd.name.clone(), hd.ty.clone());
                match range {
                    None => {
                        let _ = writeln!(self.out, "{i}v_{name} = {name}.get();");
                    }
                    Some(r) => {
                        let mut pre = String::new();
                        let lo = self.bound(&ty, r.lo, r.lo_form, &mut pre, lvl);
                        let hi = self.bound(&ty, r.hi, r.hi_form, &mut pre, lvl);
                        self.out.push_str(&pre);
                        let _ = writeln!(self.out, "{i}v_{name} = {name}.get_range({lo}, {hi});");
                    }
                }
                if let Some(t) = tag {
                    let _ = writeln!(self.out, "{i}$display(\"#{t} %h %d\", v_{name}, v_{name});");
                }
            }
            St::Seed { h, value } => {
                let name = &self.t.handles[*h].name;
                let _ = writeln!(self.out, "{i}{name}.seed(64'h{value:x});");
            }
            St::GetSeed { h, tag } => {
                let name = &self.t.handles[*h].name;
                let _ = writeln!(self.out, "{i}sd = {name}.get_seed();");
                let _ = writeln!(self.out, "{i}$display(\"#{tag} %h\", sd);");
            }
            St::Drive { port, h } => {
                let p = self.t.dut.inputs()[*port].0;
                let name = &self.t.handles[*h].name;
                let _ = writeln!(self.out, "{i}v_{name} = {name}.get();");
                let _ = writeln!(self.out, "{i}{p} = v_{name};");
            }
            St::Clock(n) => {
                if *n == 1 {
                    let _ = writeln!(self.out, "{i}clk.next();");
                } else {
                    let _ = writeln!(self.out, "{i}clk.next({n});");
                }
            }
            St::Show { tag } => {
                let outs = self.t.dut.outputs();
                let fmt: Vec<String> = outs.iter().map(|(n, _)| format!("{n}=%h")).collect();
                let args: Vec<&str> = outs.iter().map(|(n, _)| *n).collect();
                let _ = writeln!(self.out, "{i}$display(\"#{tag} {}\", {});", fmt.join(" "), args.join(", "));
            }
            St::Text(t) => {
                let _ = writeln!(self.out, "{i}$display(\"{t}\");");
            }
            St::Assert { fatal, cond, msg, arg } => {
                let f = if *fatal { "$assert" } else { "$assert_continue" };
                let c = match cond {
                    Cond::Holds(c) | Cond::Fails(c) | Cond::Random(c) => c,
                };
                match arg {
                    Some(a) => {
                        let _ = writeln!(self.out, "{i}{f}({c}, \"{msg}\", {a});");
                    }
                    None => {
                        let _ = writeln!(self.out, "{i}{f}({c}, \"{msg}\");");
                    }
                }
            }
            St::For { n, body } => {
                let _ = writeln!(self.out, "{i}for _i in 0..{n} {{");
                self.stmts(body, lvl + 1);
                let _ = writeln!(self.out, "{i}}}");
            }
            St::IfBit { h, bit, then, els } => {
                let name = &self.t.handles[*h].name;
                let _ = writeln!(self.out, "{i}if v_{name}[{bit}] == 1'b1 {{");
                self.stmts(then, lvl + 1);
                if els.is_empty() {
                    let _ = writeln!(self.out, "{i}}}");
                } else {
                    let _ = writeln!(self.out, "{i}}} else {{");
                    self.stmts(els, lvl + 1);
                    let _ = writeln!(self.out, "{i}}}");
                }
            }
        }
    }
}

pub fn print_test(t: &Test) -> String {
    let mut p = Printer { t, out: String::new(), bound_vars: Vec::new() };
    p.stmts(&t.body, 2);
    let body = std::mem::take(&mut p.out);
    let mut s = String::new();
    let _ = writeln!(s, "#[test({})]", t.name);
    let _ = writeln!(s, "module {} {{", t.name);
    let _ = writeln!(s, "    inst clk: $tb::clock_gen;");
    let _ = writeln!(s, "    inst rst: $tb::reset_gen (clk);");
    let mut gens = BTreeSet::new();
    for h in &t.handles {
        if h.ty.gen_alias && gens.insert(h.ty.width) {
            let _ = writeln!(s, "    gen g{}: type = bit<{}>;", h.ty.width, h.ty.width);
        }
    }
    for h in &t.handles {
        let _ = writeln!(s, "    var {}: $tb::random::<{}>;", h.name, h.ty.text);
        let _ = writeln!(s, "    var v_{}: {};", h.name, h.ty.text);
    }
    for (n, ty) in &p.bound_vars {
        let _ = writeln!(s, "    var {n}: {ty};");
    }
    let _ = writeln!(s, "    var sd: u64;");
    for (n, w) in t.dut.inputs().iter().chain(t.dut.outputs().iter()) {
        if *w == 1 {
            let _ = writeln!(s, "    var {n}: logic;");
        } else {
            let _ = writeln!(s, "    var {n}: logic<{w}>;");
        }
    }
    let mut conns: Vec<String> = Vec::new();
    if t.dut.clocked() {
        conns.push("clk".into());
        conns.push("rst".into());
    }
    for (n, _) in t.dut.inputs().iter().chain(t.dut.outputs().iter()) {
        conns.push(n.to_string());
    }
    let _ = writeln!(s, "    inst dut: {} #({}) ({});", t.dut.module(), t.dut.params(), conns.join(", "));
    let _ = writeln!(s, "    initial {{");
    let _ = writeln!(s, "        sd = 0;");
    for h in &t.handles {
        let _ = writeln!(s, "        v_{} = 0;", h.name);
    }
    for (n, _) in t.dut.inputs() {
        let _ = writeln!(s, "        {n} = {};", if n == "en" { "1" } else { "0" });
    }
    let _ = writeln!(s, "        rst.assert();");
    // a testbench that never calls `clk.next()` leaves the reset generator
    // without a clock event (testbench.rs falls back to Event::Initial)
    let _ = writeln!(s, "        clk.next();");
    s.push_str(&body);
    let _ = writeln!(s, "        $finish();");
    let _ = writeln!(s, "    }}");
    let _ = writeln!(s, "}}");
    s
}

/// (relative path → content) of the project
pub fn files(p: &Project) -> Vec<(String, String)> {
    let mut out = vec![("Veryl.toml".to_string(), VERYL_TOML.to_string())];
    let mut pkg = String::from("package TyPkg {\n");
    for (w, s) in &p.pkg_types {
        if *s {
            let _ = writeln!(pkg, "    type sb{w} = signed bit<{w}>;");
        } else {
            let _ = writeln!(pkg, "    type ub{w} = bit<{w}>;");
        }
    }
    // never empty
    pkg.push_str("    type unused_t = bit<3>;\n}\n");
    let mut used = BTreeSet::new();
    for t in &p.tests {
        used.insert(t.dut.module());
    }
    let mut dut_src = String::new();
    for m in DUT_SRC.split("\nmodule ") {
        let m = m.strip_prefix("module ").unwrap_or(m);
        let name = m.split_whitespace().next().unwrap_or("");
        if used.contains(name) {
            let _ = writeln!(dut_src, "module {}", m.trim_end());
        }
    }
    if p.split_files {
        out.push(("src/ty_pkg.veryl".into(), pkg));
        out.push(("src/dut.veryl".into(), dut_src));
        for t in &p.tests {
            out.push((format!("src/{}.veryl", t.name), print_test(t)));
        }
    } else {
        let mut all = pkg;
        all.push('\n');
        all.push_str(&dut_src);
        for t in &p.tests {
            all.push('\n');
            all.push_str(&print_test(t));
        }
        out.push(("src/all.veryl".into(), all));
    }
    out
}
