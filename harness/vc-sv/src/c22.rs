//! C22 — SystemVerilog translation preserves behaviour.
#[path = "c22_pipe.rs"]
mod pipe;

use pipe::{BuildErr, ClockCfg, Stim};
use vcore::Ctx;
use vsv::{Bv, Sim};

fn splitmix(s: &mut u64) -> u64 {
    *s = s.wrapping_add(0x9E3779B97F4A7C15);
    let mut z = *s;
    z = (z ^ (z >> 30)).wrapping_mul(0xBF58476D1CE4E5B9);
    z = (z ^ (z >> 27)).wrapping_mul(0x94D049BB133111EB);
    z ^ (z >> 31)
}

/// Clock / reset of a hand-written text, from the usual names.
fn clock_cfg_from_text(sv: &str) -> ClockCfg {
    let squeezed: String = sv.split_whitespace().collect::<Vec<_>>().join(" ");
    let mut cfg = ClockCfg::default();
    if squeezed.contains("edge clk") {
        cfg.clock = Some(("clk".into(), !squeezed.contains("negedge clk")));
    }
    for r in ["rst_n", "rst"] {
        let has_port = squeezed.contains(&format!(" {r},")) || squeezed.contains(&format!(" {r} )")) || squeezed.contains(&format!(" {r})"));
        if !has_port {
            continue;
        }
        let asyn = squeezed.contains(&format!("edge {r}"));
        let high = if asyn { squeezed.contains(&format!("posedge {r}")) } else { !(squeezed.contains(&format!("!{r}")) || squeezed.contains(&format!("~{r}"))) };
        cfg.reset = Some((r.into(), high, !asyn));
        break;
    }
    cfg
}

fn last_module(sv: &str) -> String {
    let mut name = String::new();
    let toks: Vec<&str> = sv.split(|c: char| !(c.is_ascii_alphanumeric() || c == '_')).filter(|s| !s.is_empty()).collect();
    for w in toks.windows(2) {
        if w[0] == "module" {
            name = w[1].to_string();
        }
    }
    name
}

/// Developer probe (not a check): the whole pipeline on hand-written files.
fn probe(path: &str) {
    let mut files = vec![];
    let p = std::path::Path::new(path);
    if p.is_dir() {
        for e in std::fs::read_dir(p).unwrap().flatten() {
            if e.path().extension().is_some_and(|x| x == "sv") {
                files.push(e.path());
            }
        }
        files.sort();
    } else {
        files.push(p.to_path_buf());
    }
    let verbose = std::env::var("VERIF_C22_VERBOSE").is_ok();
    for f in files {
        let sv = std::fs::read_to_string(&f).unwrap();
        let name = f.file_name().unwrap().to_string_lossy().to_string();
        let r = std::thread::Builder::new()
            .stack_size(16 << 20)
            .spawn(move || probe_one(&sv, verbose))
            .unwrap()
            .join()
            .unwrap_or_else(|_| "PANIC".into());
        println!("=== {name}: {r}");
    }
}

fn probe_one(sv: &str, verbose: bool) -> String {
    let top = last_module(sv);
    let cfg = clock_cfg_from_text(sv);
    let t = match pipe::translate(sv) {
        Ok(t) => t,
        Err(e) => return format!("sv-parser rejects the text: {e}"),
    };
    if verbose {
        println!("----- veryl\n{}", t.veryl);
    }
    if !t.unsupported.is_empty() {
        return format!("unsupported reported: {:?}", t.unsupported);
    }
    let b = match pipe::build(&t.veryl, &cfg.metadata()) {
        Ok(b) => b,
        Err(BuildErr::Parse(e)) => {
            if !verbose {
                println!("----- veryl\n{}", t.veryl);
            }
            return format!("VERYL PARSE ERROR: {}", e.lines().take(12).collect::<Vec<_>>().join("\n"));
        }
        Err(BuildErr::Analyze(e)) => {
            if !verbose {
                println!("----- veryl\n{}", t.veryl);
            }
            return format!("ANALYZER ERRORS: {e:#?}");
        }
    };
    if verbose {
        println!("----- emitted\n{}", b.sv);
        println!("----- warnings {:?}", b.warnings);
    }
    let mut so = match Sim::from_sv(&[sv], &top) {
        Ok(s) => s,
        Err(u) => return format!("vsv cannot read the ORIGINAL: {u}"),
    };
    let mut se = match Sim::from_sv(&[&b.sv], &format!("prj_{top}")) {
        Ok(s) => s,
        Err(u) => {
            println!("----- emitted\n{}", b.sv);
            return format!("vsv cannot read the EMITTED text: {u}");
        }
    };
    let po = pipe::port_specs(&so);
    let pe = pipe::port_specs(&se);
    let sig = |v: &[pipe::PortSpec]| v.iter().map(|p| format!("{}{}:{}{}", if p.input { "i " } else { "o " }, p.name, p.width, if p.signed { "s" } else { "" })).collect::<Vec<_>>();
    if sig(&po) != sig(&pe) {
        return format!("PORTS DIFFER: {:?} vs {:?}", sig(&po), sig(&pe));
    }
    let mut stim = Stim::default();
    for p in &po {
        let is_pin = cfg.clock.as_ref().is_some_and(|c| c.0 == p.name) || cfg.reset.as_ref().is_some_and(|c| c.0 == p.name);
        if is_pin {
            continue;
        }
        if p.input {
            stim.inputs.push(p.clone());
        } else {
            stim.outputs.push(p.clone());
        }
    }
    let mut s = 7u64;
    for i in 0..24 {
        let vals = stim
            .inputs
            .iter()
            .map(|p| {
                let bits: Vec<vsv::Bit> = (0..p.width)
                    .map(|_| vsv::Bit::from_bool(splitmix(&mut s) & 1 == 1))
                    .collect();
                let k = splitmix(&mut s) % 6;
                match k {
                    0 => Bv::zeros(p.width, false),
                    1 => Bv::zeros(p.width, false).not(),
                    _ => Bv::new(bits, false),
                }
            })
            .collect();
        stim.steps.push((i < 2 && cfg.reset.is_some(), vals));
    }
    let pins = cfg.pins();
    let ro = match pipe::run_sim(&mut so, &pins, &stim) {
        Ok(r) => r,
        Err(u) => return format!("vsv cannot run the ORIGINAL: {u}"),
    };
    let re = match pipe::run_sim(&mut se, &pins, &stim) {
        Ok(r) => r,
        Err(u) => return format!("vsv cannot run the EMITTED text: {u}"),
    };
    let (st, mm) = pipe::compare(&ro, &re, &stim.outputs);
    if let Some(m) = mm {
        if !verbose {
            println!("----- veryl\n{}\n----- emitted\n{}", t.veryl, b.sv);
        }
        let ins: Vec<String> = stim.inputs.iter().zip(&stim.steps[m.step].1).map(|(p, v)| format!("{}={}", p.name, v)).collect();
        return format!("MISMATCH step {} output {}: original {} emitted {}  inputs {:?}", m.step, m.output, m.orig, m.emitted, ins);
    }
    format!("ok (compared {} bits, {} x bits, lively={}, warnings {:?})", st.compared_bits, st.x_bits, st.lively, b.warnings.iter().map(|w| w.0.clone()).collect::<Vec<_>>())
}

pub fn run(_ctx: &Ctx) {
    if let Ok(p) = std::env::var("VERIF_C22_PROBE") {
        probe(&p);
        std::process::exit(0);
    }
    println!("INCONCLUSIVE property=C22: check not implemented");
    std::process::exit(2);
}
