//! C22 — SystemVerilog translation preserves behaviour.
//!
//! Per generated case: a human-style SystemVerilog text inside the
//! translator's subset (`c22_gen.rs`) → `veryl_translator::translate_str` as
//! `cmd_translate.rs` calls it.  A reported unsupported construct puts the
//! case outside the property's domain (counted).  Otherwise the produced
//! Veryl must parse, analyse without errors (default `Metadata` plus the
//! `clock_type` / `reset_type` matching the generated text) and emit; the
//! original text and the re-emitted text are then simulated by `vsv` on the
//! same generated stimulus and every output must agree after every cycle
//! (on the bits that are known in the original's simulation).
//!
//! Shapes of confirmed findings never appear in the main search (the
//! generator counts each suppressed opportunity); `finding-shapes` shows each
//! of them at a low rate, and `reproducer` replays the listed reproducers.
#[path = "c22_pipe.rs"]
mod pipe;
#[path = "c22_gen.rs"]
mod svgen;

use pipe::{BuildErr, ClockCfg, PortSpec, Stim};
use serde_json::{Value, json};
use std::collections::{BTreeMap, BTreeSet};
use std::sync::{Arc, Mutex};
use svgen::Hz;
use vcore::{CaseCfg, Ctx, Draw, Outcome, hash_str};
use vsv::{Bit, Bv, Sim};

/// Finding shapes shown by `finding-shapes` (each demonstrated against the
/// real translator; reproducers under /verif/known/C22).
const CONFIRMED: &[Hz] = Hz::ALL;

/// The stages at which a finding's shape is known to surface; the first is
/// the one its signature names.  (A dropped dimension, for instance, shows as
/// a port-width difference, or earlier as an out-of-range select when the
/// body selects from the port.)  Any other stage is a different behaviour
/// and gets its own, unlisted signature.
fn stages_of(h: Hz) -> &'static [&'static str] {
    match h {
        Hz::LtGt | Hz::Cond | Hz::Repl | Hz::Inside | Hz::CaseEq | Hz::Cast | Hz::Casez | Hz::CaseArmBlock | Hz::Keyword | Hz::GenLabel | Hz::TrailingComment => &["invalid-veryl"],
        Hz::Ff | Hz::Func1Bit | Hz::FuncLocal => &["analysis-error"],
        Hz::PortInherit | Hz::DimNonZero => &["ports", "analysis-error"],
        Hz::AlwaysBody | Hz::ForStep | Hz::Unpacked | Hz::InstOrdered => &["behaviour", "analysis-error"],
        Hz::ForLe | Hz::CompoundAssign | Hz::UntypedParam | Hz::WireInit | Hz::WireSigned | Hz::InstParam | Hz::XnorCaretTilde => &["behaviour"],
    }
}

fn signature_for(stage: &str, shapes: &[Hz]) -> String {
    if let [h] = shapes
        && stages_of(*h).contains(&stage)
    {
        return format!("{}:{}", stages_of(*h)[0], h.key());
    }
    format!("{stage}:{}", shapes.iter().map(|h| h.key()).collect::<Vec<_>>().join("+"))
}

#[derive(Default)]
struct StatsInner {
    translated: u64,
    reported: u64,
    reported_kinds: BTreeMap<String, u64>,
    excluded: BTreeMap<String, u64>,
    compared_bits: u64,
    x_bits: u64,
    lively: u64,
    warnings: BTreeMap<String, u64>,
    vsv_orig: BTreeMap<String, u64>,
    vsv_emitted: BTreeMap<String, u64>,
    port_signedness_differs: u64,
}

#[derive(Default)]
struct Stats {
    inner: Mutex<StatsInner>,
}

fn splitmix(s: &mut u64) -> u64 {
    *s = s.wrapping_add(0x9E3779B97F4A7C15);
    let mut z = *s;
    z = (z ^ (z >> 30)).wrapping_mul(0xBF58476D1CE4E5B9);
    z = (z ^ (z >> 27)).wrapping_mul(0x94D049BB133111EB);
    z ^ (z >> 31)
}

fn words_to_bv(words: &[u64], w: usize) -> Bv {
    let bits: Vec<Bit> = (0..w).map(|i| Bit::from_bool((words[i / 64] >> (i % 64)) & 1 == 1)).collect();
    Bv::new(bits, false)
}

/// Where a case stopped.
enum Stage {
    /// sv-parser rejected the text
    SvParse(String),
    Reported(Vec<String>),
    VerylParse(String),
    Analyze(Vec<(String, String)>),
    OrigUnreadable(vsv::Unsupported),
    EmittedUnreadable(vsv::Unsupported),
    Ports(String),
    Mismatch(String),
    Ok(pipe::CmpStats),
}

struct Run {
    stage: Stage,
    veryl: String,
    emitted: String,
    warnings: Vec<(String, String)>,
    stim_text: Vec<String>,
    sign_diff: bool,
}

fn port_sig(v: &[PortSpec]) -> Vec<String> {
    v.iter().map(|p| format!("{} {}[{}]", if p.input { "input" } else { "output" }, p.name, p.width)).collect()
}

/// The whole pipeline on one text.  `draw_value(width)` supplies stimulus values.
fn pipeline(sv: &str, sv_sim: &str, top: &str, cfg: &ClockCfg, cycles: usize, draw_value: &mut dyn FnMut(usize) -> Bv, midrun_reset: &mut dyn FnMut() -> bool) -> Run {
    let mut run = Run {
        stage: Stage::SvParse(String::new()),
        veryl: String::new(),
        emitted: String::new(),
        warnings: vec![],
        stim_text: vec![],
        sign_diff: false,
    };
    let t = match pipe::translate(sv) {
        Ok(t) => t,
        Err(e) => {
            run.stage = Stage::SvParse(e);
            return run;
        }
    };
    run.veryl = t.veryl.clone();
    if !t.unsupported.is_empty() {
        run.stage = Stage::Reported(t.unsupported);
        return run;
    }
    let b = match pipe::build(&t.veryl, &cfg.metadata()) {
        Ok(b) => b,
        Err(BuildErr::Parse(e)) => {
            run.stage = Stage::VerylParse(e);
            return run;
        }
        Err(BuildErr::Analyze(e)) => {
            run.stage = Stage::Analyze(e);
            return run;
        }
    };
    run.emitted = b.sv.clone();
    run.warnings = b.warnings;
    let mut so = match Sim::from_sv(&[sv_sim], top) {
        Ok(s) => s,
        Err(u) => {
            run.stage = Stage::OrigUnreadable(u);
            return run;
        }
    };
    let mut se = match Sim::from_sv(&[&b.sv], &format!("prj_{top}")) {
        Ok(s) => s,
        Err(u) => {
            run.stage = Stage::EmittedUnreadable(u);
            return run;
        }
    };
    let po = pipe::port_specs(&so);
    let pe = pipe::port_specs(&se);
    if port_sig(&po) != port_sig(&pe) {
        run.stage = Stage::Ports(format!("original: {:?}\nre-emitted: {:?}", port_sig(&po), port_sig(&pe)));
        return run;
    }
    run.sign_diff = po.iter().zip(&pe).any(|(a, b)| a.signed != b.signed);
    let mut stim = Stim::default();
    for p in &po {
        let is_pin = cfg.clock.as_ref().is_some_and(|c| c.0 == p.name) || cfg.reset.as_ref().is_some_and(|c| c.0 == p.name);
        if is_pin {
            continue;
        }
        if p.input {
            stim.inputs.push(p.clone());
        } else {
            stim.outputs.push(p.clone());
        }
    }
    for i in 0..cycles {
        let vals: Vec<Bv> = stim.inputs.iter().map(|p| draw_value(p.width)).collect();
        let reset = cfg.reset.is_some() && (i < 2 || midrun_reset());
        run.stim_text.push(format!(
            "{}{}",
            if reset { "reset " } else { "" },
            stim.inputs.iter().zip(&vals).map(|(p, v)| format!("{}={}", p.name, v)).collect::<Vec<_>>().join(" ")
        ));
        stim.steps.push((reset, vals));
    }
    let pins = cfg.pins();
    let ro = match pipe::run_sim(&mut so, &pins, &stim) {
        Ok(r) => r,
        Err(u) => {
            run.stage = Stage::OrigUnreadable(u);
            return run;
        }
    };
    let re = match pipe::run_sim(&mut se, &pins, &stim) {
        Ok(r) => r,
        Err(u) => {
            run.stage = Stage::EmittedUnreadable(u);
            return run;
        }
    };
    let (st, mm) = pipe::compare(&ro, &re, &stim.outputs);
    if let Some(m) = mm {
        run.stage = Stage::Mismatch(format!(
            "output {} after cycle {}: original {} , re-emitted {}\ninputs of that cycle: {}",
            m.output, m.step, m.orig, m.emitted, run.stim_text[m.step]
        ));
        return run;
    }
    run.stage = Stage::Ok(st);
    run
}

fn first_line(s: &str) -> String {
    s.lines().find(|l| !l.trim().is_empty()).unwrap_or("").trim().chars().take(160).collect()
}

/// (stage name, detail for unclassified signatures, human message) of a failing run.
fn failure_of(run: &Run) -> Option<(&'static str, String, String)> {
    match &run.stage {
        Stage::VerylParse(e) => Some((
            "invalid-veryl",
            "parse-error".into(),
            format!("the translator reported no unsupported construct, but the produced Veryl does not parse:\n{}", e.lines().take(14).collect::<Vec<_>>().join("\n")),
        )),
        Stage::Analyze(errs) => Some((
            "analysis-error",
            errs.first().map(|e| e.0.clone()).unwrap_or_default(),
            format!(
                "the translator reported no unsupported construct, but the analyzer rejects the produced Veryl:\n{}",
                errs.iter().take(6).map(|(k, m)| format!("[{k}] {}", first_line(m))).collect::<Vec<_>>().join("\n")
            ),
        )),
        Stage::Ports(p) => Some(("ports", "differ".into(), format!("the re-emitted module has other ports than the original:\n{p}"))),
        Stage::Mismatch(m) => Some(("behaviour", "trace".into(), format!("the re-emitted SystemVerilog behaves differently from the original:\n{m}"))),
        _ => None,
    }
}

fn input_json(sv: &str, top: &str, cfg: &ClockCfg, run: &Run) -> Value {
    json!({
        "sv": sv,
        "top": top,
        "veryl_toml": cfg.toml(),
        "clock": cfg.clock,
        "reset": cfg.reset,
        "veryl": run.veryl,
        "emitted_sv": run.emitted,
        "stimulus": run.stim_text,
    })
}

fn one_case(d: &mut Draw, shapes: bool, cycles: usize, stats: &Stats) -> Outcome {
    let mut allow = BTreeSet::new();
    if shapes {
        allow.insert(*d.pick(CONFIRMED));
    }
    let case = svgen::gen_case(d, &allow);
    {
        let mut g = stats.inner.lock().unwrap();
        for (k, n) in &case.excluded {
            *g.excluded.entry((*k).to_string()).or_default() += *n as u64;
        }
    }
    let run = {
        let dd = std::cell::RefCell::new(&mut *d);
        let mut dv = |w: usize| {
            let mut d = dd.borrow_mut();
            let words = d.corner_bits(w);
            words_to_bv(&words, w)
        };
        let mut mr = || dd.borrow_mut().chance(1, 12);
        pipeline(&case.sv, &case.sv_sim, &case.top, &case.clock, cycles, &mut dv, &mut mr)
    };
    {
        let mut g = stats.inner.lock().unwrap();
        match &run.stage {
            Stage::SvParse(_) => {}
            Stage::Reported(kinds) => {
                g.translated += 1;
                g.reported += 1;
                for k in kinds.iter().collect::<BTreeSet<_>>() {
                    *g.reported_kinds.entry(k.clone()).or_default() += 1;
                }
            }
            _ => g.translated += 1,
        }
        for (k, _) in &run.warnings {
            *g.warnings.entry(k.clone()).or_default() += 1;
        }
        if run.sign_diff {
            g.port_signedness_differs += 1;
        }
    }
    let hz_names: Vec<&str> = case.hazards.iter().map(|h| h.key()).collect();
    if let Some((stage, detail, msg)) = failure_of(&run) {
        let shapes: Vec<Hz> = case.hazards.iter().copied().collect();
        let sig = if shapes.is_empty() { format!("{stage}:unclassified/{detail}") } else { signature_for(stage, &shapes) };
        let mut input = input_json(&case.sv, &case.top, &case.clock, &run);
        if case.sv_sim != case.sv {
            input["sv_as_simulated"] = json!(case.sv_sim);
        }
        return Outcome::fail(sig, msg, input);
    }
    match run.stage {
        Stage::SvParse(_) => Outcome::skip("generator: sv-parser rejects the text"),
        Stage::Reported(kinds) => {
            let ks: BTreeSet<String> = kinds.into_iter().collect();
            Outcome::skip(format!("outside the domain: translator reported unsupported {}", ks.into_iter().collect::<Vec<_>>().join(", ")))
        }
        Stage::OrigUnreadable(u) => {
            *stats.inner.lock().unwrap().vsv_orig.entry(u.class()).or_default() += 1;
            Outcome::skip(format!("vsv cannot simulate the generated text: {}", u.class()))
        }
        Stage::EmittedUnreadable(u) => {
            *stats.inner.lock().unwrap().vsv_emitted.entry(u.class()).or_default() += 1;
            Outcome::skip(format!("vsv cannot simulate the re-emitted text: {}", u.class()))
        }
        Stage::Ok(st) => {
            {
                let mut g = stats.inner.lock().unwrap();
                g.compared_bits += st.compared_bits;
                g.x_bits += st.x_bits;
                if st.lively {
                    g.lively += 1;
                }
            }
            let mut classes: Vec<String> = case.classes.iter().cloned().collect();
            if st.lively {
                classes.push("lively-output".into());
            }
            if st.x_bits > 0 {
                classes.push("original-has-x-bits".into());
            }
            for h in &hz_names {
                classes.push(format!("finding-shape-passed:{h}"));
            }
            let nontrivial = case.procs >= 1 && case.ops >= 2;
            Outcome::pass(hash_str(&case.sv), nontrivial, classes, case.sv)
        }
        _ => unreachable!(),
    }
}

/// Reproducer of a listed finding: `{sv, top, key, clock?, reset?}`; the
/// stimulus comes from a fixed PRNG.
fn reproducer(payload: &Value) -> Outcome {
    let s = |k: &str| payload.get(k).and_then(|v| v.as_str()).unwrap_or("").to_string();
    let sv = s("sv");
    let key = s("key");
    let mut top = s("top");
    if top.is_empty() {
        top = last_module(&sv);
    }
    let cfg = clock_cfg_from_text(&sv);
    let mut seed = 7u64;
    let seed2 = std::cell::Cell::new(11u64);
    let mut dv = |w: usize| {
        let k = splitmix(&mut seed) % 6;
        let bits: Vec<Bit> = (0..w).map(|_| Bit::from_bool(splitmix(&mut seed) & 1 == 1)).collect();
        match k {
            0 => Bv::zeros(w, false),
            1 => Bv::zeros(w, false).not(),
            _ => Bv::new(bits, false),
        }
    };
    let mut mr = || {
        let mut s = seed2.get();
        let r = splitmix(&mut s) % 12 == 0;
        seed2.set(s);
        r
    };
    let sv_sim = if s("sv_sim").is_empty() { sv.clone() } else { s("sv_sim") };
    let run = pipeline(&sv, &sv_sim, &top, &cfg, 24, &mut dv, &mut mr);
    if let Some((stage, _, msg)) = failure_of(&run) {
        // the listed key names the stage; another stage is another behaviour
        let suffix = key.split_once(':').map(|x| x.1).unwrap_or(&key);
        let sig = match Hz::from_key(suffix) {
            Some(h) => signature_for(stage, &[h]),
            None => format!("{stage}:{suffix}"),
        };
        return Outcome::fail(sig, msg, input_json(&sv, &top, &cfg, &run));
    }
    match run.stage {
        Stage::Ok(_) => Outcome::pass(hash_str(&sv), false, vec!["reproducer".into()], sv),
        Stage::Reported(k) => Outcome::skip(format!("reproducer is now reported as unsupported: {k:?}")),
        Stage::SvParse(e) => Outcome::skip(format!("reproducer does not parse: {}", first_line(&e))),
        Stage::OrigUnreadable(u) | Stage::EmittedUnreadable(u) => Outcome::skip(format!("reproducer cannot be simulated: {}", u.class())),
        _ => unreachable!(),
    }
}

// ----- hand-written texts ---------------------------------------------------------------

/// Clock / reset of a hand-written text, from the usual names.
fn clock_cfg_from_text(sv: &str) -> ClockCfg {
    let squeezed: String = sv.split_whitespace().collect::<Vec<_>>().join(" ");
    let mut cfg = ClockCfg::default();
    if squeezed.contains("edge clk") {
        cfg.clock = Some(("clk".into(), !squeezed.contains("negedge clk")));
    }
    for r in ["rst_n", "rst"] {
        let has_port = squeezed.contains(&format!(" {r},")) || squeezed.contains(&format!(" {r} )")) || squeezed.contains(&format!(" {r})"));
        if !has_port {
            continue;
        }
        let asyn = squeezed.contains(&format!("edge {r}"));
        let high = if asyn { squeezed.contains(&format!("posedge {r}")) } else { !(squeezed.contains(&format!("!{r}")) || squeezed.contains(&format!("~{r}"))) };
        cfg.reset = Some((r.into(), high, !asyn));
        break;
    }
    cfg
}

fn last_module(sv: &str) -> String {
    let mut name = String::new();
    let toks: Vec<&str> = sv.split(|c: char| !(c.is_ascii_alphanumeric() || c == '_')).filter(|s| !s.is_empty()).collect();
    for w in toks.windows(2) {
        if w[0] == "module" {
            name = w[1].to_string();
        }
    }
    name
}

fn on_thread<T: Send + 'static>(f: impl FnOnce() -> T + Send + 'static) -> Option<T> {
    std::thread::Builder::new().stack_size(16 << 20).spawn(f).ok()?.join().ok()
}

/// Developer aids (not checks):
/// `VERIF_C22_PROBE=<file|dir>` runs the pipeline on hand-written texts;
/// `VERIF_C22_MKREPRO=<dir>` writes `<name>.veryl`, `<name>.diag.txt` and the
/// replay file `<name>.json` next to every `<name>.sv` (first line of the
/// text: `// key: <signature>`);
/// `VERIF_C22_DUMP=<n>` prints n generated cases.
fn dev_modes() -> bool {
    if let Ok(p) = std::env::var("VERIF_C22_PROBE") {
        let verbose = std::env::var("VERIF_C22_VERBOSE").is_ok();
        for f in sv_files(&p) {
            let sv = std::fs::read_to_string(&f).unwrap();
            let name = f.file_name().unwrap().to_string_lossy().to_string();
            let r = on_thread(move || {
                let out = reproducer(&json!({"sv": sv, "key": "probe:probe"}));
                match out {
                    Outcome::Pass(_) => "ok".to_string(),
                    Outcome::Skip(r) => format!("SKIP {r}"),
                    Outcome::Fail(f) => {
                        let mut s = format!("FAIL {}\n{}", f.signature, f.message);
                        if verbose || f.signature.starts_with("behaviour") {
                            s.push_str(&format!("\n----- veryl\n{}\n----- emitted\n{}", f.input["veryl"].as_str().unwrap_or(""), f.input["emitted_sv"].as_str().unwrap_or("")));
                        } else {
                            s.push_str(&format!("\n----- veryl\n{}", f.input["veryl"].as_str().unwrap_or("")));
                        }
                        s
                    }
                }
            })
            .unwrap_or_else(|| "PANIC".into());
            println!("=== {name}: {r}");
        }
        return true;
    }
    if let Ok(p) = std::env::var("VERIF_C22_MKREPRO") {
        for f in sv_files(&p) {
            let sv = std::fs::read_to_string(&f).unwrap();
            let key = sv.lines().next().and_then(|l| l.strip_prefix("// key:")).map(|k| k.trim().to_string()).unwrap_or_default();
            if f.to_string_lossy().ends_with(".sim.sv") {
                continue;
            }
            let stem = f.with_extension("");
            let mut payload = json!({"sv": sv, "key": key});
            if let Ok(sim) = std::fs::read_to_string(stem.with_extension("sim.sv")) {
                payload["sv_sim"] = json!(sim);
            }
            let p2 = payload.clone();
            let out = on_thread(move || reproducer(&p2)).unwrap_or(Outcome::skip("panic"));
            match out {
                Outcome::Fail(fl) => {
                    std::fs::write(stem.with_extension("veryl"), fl.input["veryl"].as_str().unwrap_or("")).unwrap();
                    let mut diag = format!("signature: {}\n\n{}\n", fl.signature, fl.message);
                    if let Some(e) = fl.input["emitted_sv"].as_str()
                        && !e.is_empty()
                    {
                        diag.push_str(&format!("\n----- re-emitted SystemVerilog -----\n{e}"));
                    }
                    std::fs::write(stem.with_extension("diag.txt"), diag).unwrap();
                    let replay = json!({"property": "C22", "sub": "reproducer", "payload": payload, "signature": fl.signature});
                    std::fs::write(stem.with_extension("json"), serde_json::to_string_pretty(&replay).unwrap() + "\n").unwrap();
                    println!("{}: {} {}", stem.display(), fl.signature, if fl.signature == key { "(as listed)" } else { "(KEY DIFFERS)" });
                }
                Outcome::Pass(_) => println!("{}: passes — not a reproducer", stem.display()),
                Outcome::Skip(r) => println!("{}: skip {r}", stem.display()),
            }
        }
        return true;
    }
    if let Ok(key) = std::env::var("VERIF_C22_SHAPE_RUN") {
        // run generated cases of one finding shape and print the ones that fail
        let n: usize = std::env::var("VERIF_C22_N").ok().and_then(|s| s.parse().ok()).unwrap_or(40);
        let seed: u64 = std::env::var("VERIF_SEED").ok().and_then(|s| s.parse().ok()).unwrap_or(1);
        let shape = Hz::from_key(&key);
        for i in 0..n {
            let mut s = seed.wrapping_mul(1_000_003).wrapping_add(i as u64);
            let ch: Vec<u32> = (0..8000).map(|_| splitmix(&mut s) as u32).collect();
            let r = on_thread(move || {
                let mut d = Draw::new(ch);
                let mut allow = BTreeSet::new();
                if let Some(h) = shape {
                    allow.insert(h);
                }
                let c = svgen::gen_case(&mut d, &allow);
                let mut dv = |w: usize| Bv::zeros(w, false).not();
                let mut mr = || false;
                let run = pipeline(&c.sv, &c.sv_sim, &c.top, &c.clock, 6, &mut dv, &mut mr);
                failure_of(&run).map(|(stage, _, msg)| format!("// ---- case {i}: {stage} hazards={:?}\n{msg}\n{}\n----- veryl\n{}", c.hazards, c.sv, run.veryl))
            });
            if let Some(Some(t)) = r {
                println!("{t}");
            }
        }
        return true;
    }
    if let Ok(n) = std::env::var("VERIF_C22_DUMP") {
        let n: usize = n.parse().unwrap_or(3);
        let seed: u64 = std::env::var("VERIF_SEED").ok().and_then(|s| s.parse().ok()).unwrap_or(1);
        let shape = std::env::var("VERIF_C22_SHAPE").ok().and_then(|k| Hz::from_key(&k));
        for i in 0..n {
            let mut s = seed.wrapping_mul(1_000_003).wrapping_add(i as u64);
            let ch: Vec<u32> = (0..8000).map(|_| splitmix(&mut s) as u32).collect();
            let mut d = Draw::new(ch);
            let mut allow = BTreeSet::new();
            if let Some(h) = shape {
                allow.insert(h);
            }
            let c = svgen::gen_case(&mut d, &allow);
            if std::env::var("VERIF_C22_ONLY_REJECTED").is_ok() {
                if let Err(e) = pipe::translate(&c.sv) {
                    let off: usize = e.rsplit(", ").next().and_then(|t| t.trim_end_matches(|ch: char| !ch.is_ascii_digit()).parse().ok()).unwrap_or(0);
                    let lo = off.saturating_sub(120);
                    let hi = (off + 60).min(c.sv.len());
                    println!("// ---- case {i}: {e}\n...{}<<<HERE>>>{}...", &c.sv[lo..off.min(c.sv.len())], &c.sv[off.min(c.sv.len())..hi]);
                }
                continue;
            }
            println!("// ---- case {i}: top={} ops={} procs={} hazards={:?} draws={}\n{}", c.top, c.ops, c.procs, c.hazards, d.used(), c.sv);
        }
        return true;
    }
    false
}

fn sv_files(p: &str) -> Vec<std::path::PathBuf> {
    let mut files = vec![];
    let p = std::path::Path::new(p);
    if p.is_dir() {
        for e in std::fs::read_dir(p).unwrap().flatten() {
            if e.path().extension().is_some_and(|x| x == "sv") {
                files.push(e.path());
            }
        }
        files.sort();
    } else {
        files.push(p.to_path_buf());
    }
    files
}

pub fn run(ctx: &Ctx) {
    if dev_modes() {
        std::process::exit(0);
    }
    let n_main = ctx.scale(600, 40_000);
    let n_shapes = ctx.scale(243, 8_000);
    let cycles = if ctx.is_quick() { 12 } else { 40 };
    let stats = Arc::new(Stats::default());
    ctx.run_payloads("reproducer", reproducer);
    {
        let stats = stats.clone();
        ctx.run("main", CaseCfg::cases(n_main).choices(8000), move |d: &mut Draw| one_case(d, false, cycles, &stats));
    }
    {
        let stats = stats.clone();
        ctx.run("finding-shapes", CaseCfg::cases(n_shapes).choices(8000), move |d: &mut Draw| one_case(d, true, cycles, &stats));
    }
    {
        let g = stats.inner.lock().unwrap();
        ctx.note("translated_texts", json!(g.translated));
        ctx.note("translator_reported_unsupported", json!(g.reported));
        ctx.note("unsupported_rate", json!(if g.translated > 0 { g.reported as f64 / g.translated as f64 } else { 0.0 }));
        ctx.note("unsupported_kinds", json!(g.reported_kinds));
        ctx.note("finding_shapes_excluded_from_main_search", json!(g.excluded));
        ctx.note("compared_bits", json!(g.compared_bits));
        ctx.note("original_x_bits_not_compared", json!(g.x_bits));
        ctx.note("cases_with_lively_output", json!(g.lively));
        ctx.note("analyzer_warnings_on_translated_text", json!(g.warnings));
        ctx.note("vsv_unsupported_original", json!(g.vsv_orig));
        ctx.note("vsv_unsupported_reemitted", json!(g.vsv_emitted));
        ctx.note("port_signedness_differs", json!(g.port_signedness_differs));
    }
    ctx.assume("vsv (this harness' IEEE 1800 simulator built on vbv) simulates both the original and the re-emitted text: no external simulator exists in the sandbox");
    ctx.assume("the translated file is built in a project whose [build] clock_type / reset_type match the edge / polarity / synchronicity the original text uses");
    ctx.assume("bits that are x/z in the simulation of the original text are not compared");
    ctx.finish(
        "translation_validation",
        "generated human-style SystemVerilog (ports/params, logic/bit vectors, localparams, assign, always_comb, if/case/for, generate, functions, instances) x corner-biased stimulus; non-trivial = a process or function and >= 2 operators; distinct by text",
    );
}
