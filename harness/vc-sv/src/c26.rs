//! C26 — presentation-only build options never change behaviour.
//!
//! Inputs: corpus files that analyse cleanly on their own, and `vdesign`
//! designs with injected comments.  Each case emits the file under the
//! default options and under a drawn variant of {strip_comments,
//! newline_style, indent_width, max_width, vertical_align,
//! expand_inside_operation} (every emission is its own analysis on its own
//! thread, like separate `veryl build` runs).
//!
//! * strip_comments ⇒ same SV code-token stream, no comment token left;
//!   without it the comment tokens are unchanged too;
//! * newline_style ⇒ byte-identical after normalising line endings;
//! * widths / alignment ⇒ same SV token stream;
//! * expand_inside_operation ⇒ the token streams differ only in hunks that
//!   contain `inside` on the unexpanded side, and (designs) the vsv traces of
//!   the two texts are equal.

use crate::c01;
use crate::common::{self, BuildErr};
use serde_json::json;
use std::collections::BTreeMap;
use vcore::{CaseCfg, Ctx, Draw, Outcome, hash_str};
use vdesign::{GenCfg, gen_design, gen_stimulus, print_design};
use veryl_metadata::{Metadata, NewlineStyle};
use vsv::lex::{Tk, Token, lex};
use vsv::{Pins, Sim};

#[derive(Clone, Debug, PartialEq, Eq)]
pub struct Opts {
    pub strip_comments: bool,
    /// 0 auto, 1 unix, 2 windows
    pub newline: u8,
    pub indent_width: usize,
    pub max_width: usize,
    pub vertical_align: bool,
    pub expand_inside: bool,
}

impl Default for Opts {
    fn default() -> Self {
        Opts {
            strip_comments: false,
            newline: 0,
            indent_width: 4,
            max_width: 120,
            vertical_align: true,
            expand_inside: false,
        }
    }
}

impl Opts {
    pub fn draw(d: &mut Draw) -> Opts {
        Opts {
            strip_comments: d.bool(),
            newline: d.weighted(&[2, 1, 2]) as u8,
            indent_width: *d.pick(&[4usize, 2, 1, 3, 8, 0]),
            max_width: *d.pick(&[120usize, 80, 40, 20, 1, 400]),
            vertical_align: !d.chance(1, 3),
            expand_inside: d.bool(),
        }
    }
    pub fn apply(&self, md: &mut Metadata) {
        md.build.strip_comments = self.strip_comments;
        md.build.expand_inside_operation = self.expand_inside;
        md.format.indent_width = self.indent_width;
        md.format.max_width = self.max_width;
        md.format.vertical_align = self.vertical_align;
        md.format.newline_style = match self.newline {
            0 => NewlineStyle::Auto,
            1 => NewlineStyle::Unix,
            _ => NewlineStyle::Windows,
        };
    }
    pub fn describe(&self) -> String {
        format!(
            "strip_comments={} newline_style={} indent_width={} max_width={} vertical_align={} expand_inside_operation={}",
            self.strip_comments,
            ["auto", "unix", "windows"][self.newline as usize],
            self.indent_width,
            self.max_width,
            self.vertical_align,
            self.expand_inside
        )
    }
}

/// One `veryl build` of one file under `opts`, on its own thread.
fn emit_with(text: &str, opts: &Opts) -> Result<String, BuildErr> {
    let r = std::thread::scope(|s| {
        std::thread::Builder::new()
            .stack_size(16 << 20)
            .spawn_scoped(s, || {
                let mut md = common::project_metadata();
                opts.apply(&mut md);
                common::build(text, &md).map(|b| b.sv)
            })
            .expect("spawn")
            .join()
    });
    match r {
        Ok(x) => x,
        // a crash of the analyzer / emitter is C11's subject, not this property's
        Err(_) => Err(BuildErr::Analyze(vec!["panic inside analysis or emission".into()])),
    }
}

fn norm_nl(s: &str) -> String {
    s.replace("\r\n", "\n")
}

fn code<'a>(t: &'a [Token]) -> Vec<&'a str> {
    t.iter().filter(|t| !t.is_comment()).map(|t| t.text.as_str()).collect()
}

fn comments(t: &[Token]) -> Vec<String> {
    t.iter()
        .filter(|t| t.is_comment())
        // the source-map trailer names no source construct
        .filter(|t| !t.text.starts_with("//# sourceMappingURL"))
        .map(|t| norm_nl(&t.text).lines().map(|l| l.trim()).collect::<Vec<_>>().join("\n"))
        .collect()
}

/// Differing hunks (lists of tokens on each side) of two token sequences,
/// by longest common subsequence after trimming the common ends.
fn hunks<'a>(a: &[&'a str], b: &[&'a str]) -> Option<Vec<(Vec<&'a str>, Vec<&'a str>)>> {
    let mut p = 0;
    while p < a.len() && p < b.len() && a[p] == b[p] {
        p += 1;
    }
    let mut s = 0;
    while s < a.len() - p && s < b.len() - p && a[a.len() - 1 - s] == b[b.len() - 1 - s] {
        s += 1;
    }
    let a = &a[p..a.len() - s];
    let b = &b[p..b.len() - s];
    if a.len() * b.len() > 60_000_000 {
        return None;
    }
    let (n, m) = (a.len(), b.len());
    let mut t = vec![0u32; (n + 1) * (m + 1)];
    for i in (0..n).rev() {
        for j in (0..m).rev() {
            t[i * (m + 1) + j] = if a[i] == b[j] { t[(i + 1) * (m + 1) + j + 1] + 1 } else { t[(i + 1) * (m + 1) + j].max(t[i * (m + 1) + j + 1]) };
        }
    }
    let mut out = vec![];
    let (mut i, mut j) = (0, 0);
    let mut cur: (Vec<&str>, Vec<&str>) = (vec![], vec![]);
    while i < n || j < m {
        if i < n && j < m && a[i] == b[j] {
            if !cur.0.is_empty() || !cur.1.is_empty() {
                out.push(std::mem::take(&mut cur));
            }
            i += 1;
            j += 1;
        } else if j < m && (i == n || t[i * (m + 1) + j + 1] >= t[(i + 1) * (m + 1) + j]) {
            cur.1.push(b[j]);
            j += 1;
        } else {
            cur.0.push(a[i]);
            i += 1;
        }
    }
    if !cur.0.is_empty() || !cur.1.is_empty() {
        out.push(cur);
    }
    Some(out)
}

pub struct Verdict {
    pub classes: Vec<String>,
    pub has_comments: bool,
    pub has_inside: bool,
    pub base_sv: String,
    pub var_sv: String,
}

/// All textual oracles for one source text and one variant.
pub fn judge(text: &str, var: &Opts) -> Result<Result<Verdict, (String, String, serde_json::Value)>, String> {
    let base = Opts::default();
    let e0 = match emit_with(text, &base) {
        Ok(s) => s,
        Err(BuildErr::Parse(_)) => return Err("source does not parse".into()),
        Err(BuildErr::Analyze(e)) => {
            return Err(format!("source does not analyse cleanly on its own: {}", e.first().map(|s| s.split_whitespace().take(3).collect::<Vec<_>>().join(" ")).unwrap_or_default()));
        }
    };
    let fail = |sig: &str, msg: String, a: &str, b: &str| {
        Ok(Err((
            sig.to_string(),
            msg,
            json!({"veryl": text, "variant": var.describe(), "sv_default": a, "sv_variant": b}),
        )))
    };
    let e2 = match emit_with(text, var) {
        Ok(s) => s,
        Err(BuildErr::Analyze(v)) if v.iter().any(|m| m.contains("panic inside")) => {
            return Err("the emitter panics under the variant options (C11's subject)".into());
        }
        Err(e) => return fail("variant-rejected", format!("the same source is rejected under {}: {e:?}", var.describe()), &e0, ""),
    };
    let mut classes = vec![];
    // ---- newline_style: the same variant with Unix newlines
    if var.newline != 1 {
        let mut v1 = var.clone();
        v1.newline = 1;
        let e1 = match emit_with(text, &v1) {
            Ok(s) => s,
            Err(e) => return fail("variant-rejected", format!("rejected under {}: {e:?}", v1.describe()), &e0, ""),
        };
        if norm_nl(&e1) != norm_nl(&e2) {
            return fail(
                "newline-style/content-changed",
                format!("newline_style={} changes more than line endings ({})", ["auto", "unix", "windows"][var.newline as usize], var.describe()),
                &e1,
                &e2,
            );
        }
        classes.push(format!("newline:{}", ["auto", "unix", "windows"][var.newline as usize]));
        if var.newline == 2 {
            // every line ending is CRLF
            let bare = e2.as_bytes().iter().enumerate().filter(|(i, c)| **c == b'\n' && (*i == 0 || e2.as_bytes()[*i - 1] != b'\r')).count();
            if bare > 0 {
                // embedded / verbatim text keeps its own line feeds: stated by no clause of the property
                classes.push("windows_output_with_bare_lf".into());
            }
        }
    }
    // ---- token streams
    let t0 = match lex(&e0) {
        Ok(t) => t,
        Err(u) => return Err(format!("vsv lexer: {}", u.class())),
    };
    let t2 = match lex(&e2) {
        Ok(t) => t,
        Err(u) => {
            return fail("variant-not-lexable", format!("the variant text is not lexable SystemVerilog ({u}) while the default one is"), &e0, &e2);
        }
    };
    let (c0, c2) = (code(&t0), code(&t2));
    let has_inside = c0.iter().any(|t| *t == "inside");
    let has_comments = !comments(&t0).is_empty();
    if var.expand_inside != base.expand_inside {
        classes.push("expand_inside".into());
        // statement granularity: split at `;`, the statements that differ must carry an
        // `inside` in the unexpanded text, and nothing may appear or disappear
        let split = |c: &[&str]| -> Vec<Vec<String>> {
            let mut out = vec![vec![]];
            for t in c {
                out.last_mut().unwrap().push(t.to_string());
                if *t == ";" {
                    out.push(vec![]);
                }
            }
            out
        };
        let (s0, s2) = (split(&c0), split(&c2));
        if c0.iter().any(|t| *t == "case") {
            // the option also rewrites every case statement into `case (1'b1)` with `==?`
            // conditions: no statement-wise correspondence; behaviour is compared instead
            classes.push("expand_rewrites_case_statement".into());
        } else if s0.len() != s2.len() {
            return fail(
                "expand-inside/other-change",
                format!("expand_inside_operation changes the number of statements ({} vs {})", s0.len(), s2.len()),
                &e0,
                &e2,
            );
        }
        let mut rewrote = false;
        let pairs: Vec<(&Vec<String>, &Vec<String>)> = if c0.iter().any(|t| *t == "case") { vec![] } else { s0.iter().zip(&s2).collect() };
        for (a, b) in pairs {
            if a != b {
                rewrote = true;
                if !a.iter().any(|t| t == "inside") {
                    return fail(
                        "expand-inside/other-change",
                        format!("expand_inside_operation changes a statement without `inside`: `{}` became `{}`", a.join(" "), b.join(" ")),
                        &e0,
                        &e2,
                    );
                }
            }
        }
        if rewrote {
            classes.push("expand_inside_rewrote".into());
        }
        if c2.iter().any(|t| *t == "inside") {
            return fail("expand-inside/left-over", "expand_inside_operation leaves an `inside` operator in the text".into(), &e0, &e2);
        }
    } else if c0 != c2 {
        let hs = hunks(&c0, &c2).unwrap_or_default();
        let (a, b) = hs.first().cloned().unwrap_or_default();
        let which = if var.strip_comments { "strip-comments" } else { "layout" };
        return fail(
            &format!("{which}/token-stream-changed"),
            format!("under {} the code tokens `{}` became `{}`", var.describe(), a.join(" "), b.join(" ")),
            &e0,
            &e2,
        );
    }
    // ---- comments
    let (m0, m2) = (comments(&t0), comments(&t2));
    if var.strip_comments {
        classes.push("strip_comments".into());
        if !m2.is_empty() {
            return fail("strip-comments/comment-left", format!("strip_comments leaves a comment: {:?}", m2[0]), &e0, &e2);
        }
    } else if m0 != m2 {
        let k = m0.iter().zip(&m2).position(|(a, b)| a != b).unwrap_or(m0.len().min(m2.len()));
        return fail(
            "layout/comments-changed",
            format!("under {} comment #{k} changed: {:?} vs {:?}", var.describe(), m0.get(k), m2.get(k)),
            &e0,
            &e2,
        );
    }
    if var.indent_width != base.indent_width {
        classes.push(format!("indent:{}", var.indent_width));
    }
    if var.max_width != base.max_width {
        classes.push(format!("max_width:{}", var.max_width));
    }
    if !var.vertical_align {
        classes.push("no_vertical_align".into());
    }
    let _ = Tk::Ident;
    Ok(Ok(Verdict {
        classes,
        has_comments,
        has_inside,
        base_sv: e0,
        var_sv: e2,
    }))
}

/// Append / insert comments at line granularity (the printer puts one item or
/// statement per line, so both places are between tokens).
fn inject_comments(d: &mut Draw, text: &str) -> String {
    let mut out = String::new();
    for (i, line) in text.lines().enumerate() {
        if d.chance(1, 6) {
            let ind: String = line.chars().take_while(|c| c.is_whitespace()).collect();
            match d.below(3) {
                0 => out.push_str(&format!("{ind}// note {i}\n")),
                1 => out.push_str(&format!("{ind}/* block {i} */\n")),
                _ => out.push_str(&format!("{ind}/* two\n{ind}   lines {i} */\n")),
            }
        }
        out.push_str(line);
        if d.chance(1, 8) {
            out.push_str(&format!(" // tail {i}"));
        }
        out.push('\n');
    }
    out
}

fn design_case(d: &mut Draw, cfg: &GenCfg, cycles: usize) -> Outcome {
    // narrow designs make range boundaries of `inside` / `case` reachable by the stimulus
    let mut cfg = cfg.clone();
    cfg.max_width = [cfg.max_width, 4, 6, 3][d.weighted(&[2, 2, 1, 1])];
    let cycles = if cfg.max_width <= 6 { cycles * 3 } else { cycles };
    let cfg = &cfg;
    let g = gen_design(d, cfg);
    let mut text = inject_comments(d, &print_design(&g.design));
    let crlf = d.chance(1, 5);
    if crlf {
        text = text.replace('\n', "\r\n");
    }
    let var = Opts::draw(d);
    if var == Opts::default() {
        return Outcome::skip("variant equals the default options");
    }
    // the shape of the known emitter finding (exclusive range bound): kept out, shown at a low rate
    let k6 = crate::suspects::suspects(&g.design).contains(&"exclusive-range-bound-widens-comparison");
    let show_known = d.chance(1, 10);
    if k6 && var.expand_inside && !show_known {
        return Outcome::skip("excluded: design contains the shape of known finding exclusive-range-bound-widens-comparison");
    }
    let mut stim = gen_stimulus(d, &g.design, cycles);
    // small combinational designs: every input vector (range boundaries included)
    let total_bits: usize = stim.inputs.iter().map(|p| p.width).sum();
    if stim.clock.is_none() && total_bits <= 12 && var.expand_inside {
        stim.steps = (0..(1u64 << total_bits))
            .map(|k| {
                let mut rest = k;
                let values = stim
                    .inputs
                    .iter()
                    .map(|p| {
                        let v = rest & ((1u64 << p.width) - 1);
                        rest >>= p.width;
                        num_bigint::BigUint::from(v)
                    })
                    .collect();
                vdesign::StimStep { reset: false, values }
            })
            .collect();
    }
    let v = match judge(&text, &var) {
        Err(why) => return Outcome::skip(why),
        Ok(Err((sig, msg, input))) => return Outcome::fail(sig, msg, input),
        Ok(Ok(v)) => v,
    };
    let mut classes = v.classes.clone();
    classes.push("input:design".into());
    if crlf {
        classes.push("source_crlf".into());
    }
    // ---- behaviour: expanded and unexpanded text under vsv
    if var.expand_inside && v.has_inside {
        let pins = Pins {
            clock: stim.clock.clone().map(|c| (c, true)),
            reset: stim.reset.clone().map(|r| (r, false)),
        };
        let run = |sv: &str| -> Result<Vec<Vec<vsv::Bv>>, vsv::Unsupported> {
            // selects of scalars (a known C01 finding of the emitter) are read as `[0:0]`
            let parsed = vsv::parse::parse(sv)?;
            let mut sim = Sim::from_parsed_opts(&[parsed], "prj_Top", true)?;
            c01::run_sv(&mut sim, &pins, &stim)
        };
        match (run(&v.base_sv), run(&v.var_sv)) {
            (Ok(a), Ok(b)) => {
                classes.push("expand_inside_simulated".into());
                for (si, (ra, rb)) in a.iter().zip(&b).enumerate() {
                    for (oi, (x, y)) in ra.iter().zip(rb).enumerate() {
                        if x != y {
                            if x.has_xz() || y.has_xz() {
                                classes.push("expand_inside_x_involved".into());
                                continue;
                            }
                            return Outcome::fail(
                                if k6 { "expand-inside/exclusive-range-bound-widens-comparison" } else { "expand-inside/behaviour" },
                                format!("output {} after step {si}: {} with `inside`, {} with the expansion", stim.outputs[oi].name, x, y),
                                json!({"veryl": text, "variant": var.describe(), "sv_default": v.base_sv, "sv_variant": v.var_sv,
                                       "stimulus": stim.steps.iter().map(|s| json!({"reset": s.reset, "inputs": s.values.iter().map(|v| format!("{v:x}")).collect::<Vec<_>>()})).collect::<Vec<_>>()}),
                            );
                        }
                    }
                }
            }
            (Err(u), _) | (_, Err(u)) => classes.push(format!("vsv_unsupported:{}", u.class())),
        }
    }
    classes.sort();
    classes.dedup();
    let nontrivial = v.has_comments && v.has_inside;
    let sample = format!("// {}\n{}", var.describe(), text);
    Outcome::pass(hash_str(&sample), nontrivial, classes, sample)
}

/// Small hand-templated modules around `inside` / `outside` / `case` with
/// ranges, over 2–5 bit inputs, compared on *every* input vector with and
/// without `expand_inside_operation`.  The selector is a plain input when an
/// exclusive range is present (the exclusive bound on an operator selector is
/// a listed finding).
fn range_template_case(d: &mut Draw) -> Outcome {
    let w = 2 + d.below(4) as usize;
    let max = (1u64 << w) - 1;
    let n_items = 1 + d.below(3);
    let mut items = vec![];
    let mut has_excl = false;
    for _ in 0..n_items {
        let a = d.below(max as u32 + 1) as u64;
        let b = a + d.below((max - a) as u32 + 1) as u64;
        match d.below(3) {
            0 => items.push(format!("{w}'d{a}")),
            1 => items.push(format!("{w}'d{a}..={w}'d{b}")),
            _ => {
                // `x..0` is the listed exclusive-bound finding in another guise ((0)-1 wraps at 32 bits)
                let b = b.max(1);
                has_excl = true;
                items.push(format!("{w}'d{}..{w}'d{b}", a.min(b)))
            }
        }
    }
    let sel = if has_excl || d.bool() { "a".to_string() } else { ["~a", "a + b", "a ^ b", "a - b"][d.below(4) as usize].to_string() };
    let body = match d.below(4) {
        0 => format!("    assign o = if inside {sel} {{{}}} ? 4'd1 : 4'd2;", items.join(", ")),
        1 => format!("    assign o = if outside {sel} {{{}}} ? 4'd1 : 4'd2;", items.join(", ")),
        2 => format!("    assign o = case {sel} {{ {}: 4'd1, {w}'d0: 4'd3, default: 4'd2, }};", items.join(", ")),
        _ => format!(
            "    always_comb {{\n        case {sel} {{\n            {}: o = 4'd1;\n            {w}'d1: o = 4'd3;\n            default: o = 4'd2;\n        }}\n    }}",
            items.join(", ")
        ),
    };
    let text = format!("module Top (\n    a: input logic<{w}>,\n    b: input logic<{w}>,\n    o: output logic<4>,\n) {{\n{body}\n}}\n");
    let var = Opts {
        expand_inside: true,
        ..Opts::default()
    };
    let v = match judge(&text, &var) {
        Err(why) => return Outcome::skip(why),
        Ok(Err((sig, msg, input))) => return Outcome::fail(sig, msg, input),
        Ok(Ok(v)) => v,
    };
    let run = |sv: &str| -> Result<Vec<vsv::Bv>, vsv::Unsupported> {
        let mut sim = Sim::from_sv(&[sv], "prj_Top")?;
        let mut out = vec![];
        for a in 0..=max {
            for b in 0..=max {
                sim.set("a", &vsv::Bv::from_u64(a, w, false))?;
                sim.set("b", &vsv::Bv::from_u64(b, w, false))?;
                sim.settle()?;
                out.push(sim.get("o").unwrap());
            }
        }
        Ok(out)
    };
    match (run(&v.base_sv), run(&v.var_sv)) {
        (Ok(x), Ok(y)) => {
            if let Some(k) = (0..x.len()).find(|&k| x[k] != y[k]) {
                return Outcome::fail(
                    "expand-inside/behaviour",
                    format!("a={} b={}: o = {} with `inside`, {} with the expansion", k as u64 / (max + 1), k as u64 % (max + 1), x[k], y[k]),
                    json!({"veryl": text, "sv_default": v.base_sv, "sv_variant": v.var_sv}),
                );
            }
        }
        (Err(u), _) | (_, Err(u)) => return Outcome::skip(format!("vsv unsupported: {}", u.class())),
    }
    let mut classes = vec!["input:range-template".to_string(), format!("template_width:{w}")];
    if has_excl {
        classes.push("template_exclusive_range".into());
    }
    Outcome::pass(hash_str(&text), true, classes, text)
}

fn corpus_case(d: &mut Draw, files: &[(String, String)]) -> Outcome {
    let (name, text) = &files[d.below_usize(files.len())];
    let var = Opts::draw(d);
    if var == Opts::default() {
        return Outcome::skip("variant equals the default options");
    }
    match judge(text, &var) {
        Err(why) => Outcome::skip(why),
        Ok(Err((sig, msg, mut input))) => {
            input["file"] = json!(name);
            Outcome::fail(sig, format!("{name}: {msg}"), input)
        }
        Ok(Ok(v)) => {
            let mut classes = v.classes.clone();
            classes.push("input:corpus".into());
            classes.sort();
            classes.dedup();
            let key = hash_str(&format!("{name} {}", var.describe()));
            Outcome::pass(key, v.has_comments, classes, format!("{name}: {}", var.describe()))
        }
    }
}

/// Reproducer of a listed finding: `{veryl, strip_comments, newline, indent_width, max_width, vertical_align, expand_inside}`.
fn reproducer(payload: &serde_json::Value) -> Outcome {
    let text = payload.get("veryl").and_then(|v| v.as_str()).unwrap_or("").to_string();
    let b = |k: &str, d: bool| payload.get(k).and_then(|v| v.as_bool()).unwrap_or(d);
    let n = |k: &str, d: u64| payload.get(k).and_then(|v| v.as_u64()).unwrap_or(d);
    let var = Opts {
        strip_comments: b("strip_comments", false),
        newline: n("newline", 0) as u8,
        indent_width: n("indent_width", 4) as usize,
        max_width: n("max_width", 120) as usize,
        vertical_align: b("vertical_align", true),
        expand_inside: b("expand_inside", false),
    };
    match judge(&text, &var) {
        Err(why) => Outcome::skip(why),
        Ok(Err((sig, msg, input))) => Outcome::fail(sig, msg, input),
        Ok(Ok(v)) => {
            if var.expand_inside {
                // behaviour of the two texts on a fixed pseudo-random stimulus
                let run = |sv: &str| -> Result<(Vec<String>, Vec<Vec<vsv::Bv>>), vsv::Unsupported> {
                    let mut sim = Sim::from_sv(&[sv], "prj_Top")?;
                    let ins: Vec<(String, usize)> = sim.ports().iter().filter(|p| p.dir == vsv::ast::Dir::Input).map(|p| (p.name.clone(), p.width)).collect();
                    let outs: Vec<String> = sim.ports().iter().filter(|p| p.dir == vsv::ast::Dir::Output).map(|p| p.name.clone()).collect();
                    let mut rows = vec![];
                    let mut s = 99u64;
                    for _ in 0..64 {
                        for (n, w) in &ins {
                            s = s.wrapping_mul(6364136223846793005).wrapping_add(1442695040888963407);
                            sim.set(n, &vsv::Bv::from_u64(s >> 20, (*w).min(64), false))?;
                        }
                        sim.settle()?;
                        rows.push(outs.iter().map(|o| sim.get(o).unwrap()).collect());
                    }
                    Ok((outs, rows))
                };
                if let (Ok((outs, a)), Ok((_, b))) = (run(&v.base_sv), run(&v.var_sv)) {
                    for (si, (ra, rb)) in a.iter().zip(&b).enumerate() {
                        for (oi, (x, y)) in ra.iter().zip(rb).enumerate() {
                            if x != y && !x.has_xz() && !y.has_xz() {
                                let key = payload.get("key").and_then(|k| k.as_str()).unwrap_or("expand-inside/behaviour");
                                return Outcome::fail(
                                    key,
                                    format!("output {} at vector {si}: {x} with `inside`, {y} with the expansion", outs[oi]),
                                    json!({"veryl": text, "sv_default": v.base_sv, "sv_variant": v.var_sv}),
                                );
                            }
                        }
                    }
                }
            }
            Outcome::pass(hash_str(&text), false, vec!["reproducer".into()], text)
        }
    }
}

pub fn run(ctx: &Ctx) {
    ctx.run_payloads("reproducer", reproducer);
    // corpus files that analyse cleanly on their own (each on a fresh thread)
    let mut files: Vec<(String, String)> = vec![];
    let mut rejected: BTreeMap<String, u64> = BTreeMap::new();
    let all: Vec<(String, String)> = vcore::util::corpus_files()
        .into_iter()
        .filter(|f| f.to_string_lossy().contains("testcases/veryl"))
        .filter_map(|f| {
            let text = std::fs::read_to_string(&f).ok()?;
            Some((f.file_name().map(|s| s.to_string_lossy().to_string()).unwrap_or_default(), text))
        })
        .collect();
    let verdicts: Vec<Option<&'static str>> = std::thread::scope(|s| {
        let hs: Vec<_> = all
            .chunks(all.len().div_ceil(16).max(1))
            .map(|chunk| {
                s.spawn(move || {
                    chunk
                        .iter()
                        .map(|(_, text)| match emit_with(text, &Opts::default()) {
                            Ok(_) => None,
                            Err(BuildErr::Parse(_)) => Some("parse"),
                            Err(BuildErr::Analyze(_)) => Some("needs other files"),
                        })
                        .collect::<Vec<_>>()
                })
            })
            .collect();
        hs.into_iter().flat_map(|h| h.join().unwrap_or_default()).collect()
    });
    for ((name, text), v) in all.into_iter().zip(verdicts) {
        match v {
            None => files.push((name, text)),
            Some(why) => *rejected.entry(why.into()).or_default() += 1,
        }
    }
    ctx.note("corpus_files_usable", json!(files.len()));
    ctx.note("corpus_files_rejected", json!(rejected));
    let n_corpus = ctx.scale(250, 8000);
    let n_design = ctx.scale(300, 12_000);
    if !files.is_empty() {
        let files = std::sync::Arc::new(files);
        ctx.run("corpus", CaseCfg::cases(n_corpus).choices(64).stack_mb(16), move |d: &mut Draw| corpus_case(d, &files));
    }
    let cfg = GenCfg {
        max_width: 64,
        unguarded_per_mille: 0,
        ..GenCfg::default()
    };
    let cycles = if ctx.is_quick() { 16 } else { 60 };
    ctx.run("range-template", CaseCfg::cases(ctx.scale(250, 6000)).choices(64).stack_mb(16), range_template_case);
    ctx.run("design", CaseCfg::cases(n_design).choices(14_000).stack_mb(16), move |d: &mut Draw| design_case(d, &cfg, cycles));
    ctx.assume("every emission is a separate analysis + emission on its own thread, as separate `veryl build` runs would be");
    ctx.assume("behaviour of expanded vs unexpanded `inside` is compared with vsv (no external SystemVerilog simulator in the sandbox)");
    ctx.finish(
        "exploration",
        "corpus files that analyse on their own and vdesign designs with injected comments x drawn option variants; non-trivial = the source has comments (and, for designs, an `inside`)",
    );
}
