//! Shared by C01 / C26: analysis + emission with a chosen `Metadata`, exactly
//! the calls the CLI makes (`cmd_build`), keeping the analyzer IR so that
//! veryl's own simulator can be built from the *same* analysis.
//! Must run on a fresh thread per case (thread-local analyzer tables).

use std::path::PathBuf;
use veryl_analyzer::ir as air;
use veryl_analyzer::{Analyzer, Context, symbol_table};
use veryl_emitter::Emitter;
use veryl_metadata::Metadata;
use veryl_parser::Parser;

pub struct Built {
    pub ir: air::Ir,
    pub sv: String,
    pub warnings: Vec<String>,
    pub parser: Parser,
}

#[derive(Debug)]
pub enum BuildErr {
    Parse(String),
    /// (is_error, text)
    Analyze(Vec<String>),
}

pub fn project_metadata() -> Metadata {
    Metadata::create_default("prj").expect("default metadata")
}

/// parse → pass1 → post_pass1 → pass2 → post_pass2 → emit (one file, project `prj`).
pub fn build(text: &str, md: &Metadata) -> Result<Built, BuildErr> {
    symbol_table::clear();
    let parser = Parser::parse(text, &"").map_err(|e| BuildErr::Parse(e.to_string()))?;
    let analyzer = Analyzer::new(md);
    let prj = md.project.name.clone();
    let mut context = Context::default();
    let mut ir = air::Ir::default();
    let mut errors = vec![];
    errors.append(&mut analyzer.analyze_pass1(&prj, &parser.veryl));
    errors.append(&mut Analyzer::analyze_post_pass1());
    errors.append(&mut analyzer.analyze_pass2(&parser.veryl, &mut context, Some(&mut ir)));
    errors.append(&mut Analyzer::analyze_post_pass2(&ir));
    let errs: Vec<String> = errors.iter().filter(|e| e.is_error()).map(|e| e.to_string()).collect();
    let warnings: Vec<String> = errors.iter().filter(|e| !e.is_error()).map(|e| e.to_string()).collect();
    if !errs.is_empty() {
        return Err(BuildErr::Analyze(errs));
    }
    let sv = emit(&parser, text, md);
    Ok(Built { ir, sv, warnings, parser })
}

/// Emit an already analysed file again under (possibly different) options.
pub fn emit(parser: &Parser, text: &str, md: &Metadata) -> String {
    let prj = md.project.name.clone();
    let src = PathBuf::from("top.veryl");
    let dst = PathBuf::from("top.sv");
    let map = PathBuf::from("top.sv.map");
    let mut emitter = Emitter::new(md, &prj, &src, &dst, &map);
    emitter.emit(&parser.veryl, text);
    emitter.as_str().to_string()
}
