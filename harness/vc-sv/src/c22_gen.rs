//! C22 generator: SystemVerilog modules written the way a person writes them,
//! inside the subset `crates/translator/src/convert.rs` handles (ANSI ports
//! and parameters, logic/bit vectors, localparams, assign, always_comb,
//! always_ff with the reset idiom, if/else, case, for, generate, functions,
//! named-connection instances) and inside what `vsv` simulates.
//!
//! Every shape of a *confirmed finding* is a [`Hz`]: the generator reaches it
//! only when it is allowed (the low-rate per-finding runs); otherwise the
//! opportunity is counted as excluded and a safe alternative is written, so
//! the main search goes on in what is left.

use super::pipe::ClockCfg;
use std::collections::{BTreeMap, BTreeSet};
use vcore::Draw;

/// Shapes of confirmed findings (root causes in the translator).
#[derive(Clone, Copy, Debug, PartialEq, Eq, PartialOrd, Ord)]
pub enum Hz {
    /// `a < b`, `a > b` copied verbatim (Veryl: `<:` `>:`)
    LtGt,
    /// `c ? x : y` copied verbatim (Veryl: `if c ? x : y`)
    Cond,
    /// `{n{x}}` copied verbatim (Veryl: `{x repeat n}`)
    Repl,
    /// `x inside {…}` copied verbatim (Veryl: `inside x {…}`)
    Inside,
    /// `===` / `!==` copied verbatim (no Veryl operator)
    CaseEq,
    /// `N'(x)` rewritten to `(x) as logic<N>`, which Veryl does not accept
    Cast,
    /// clock / reset ports of an always_ff become plain `logic`
    Ff,
    /// only the first statement of an always block body is translated
    /// (none when the body is not a begin / end block)
    AlwaysBody,
    /// `for (...; i <= N; ...)` becomes `0..N`
    ForLe,
    /// `for (...; ...; i = i + 2)` loses its step
    ForStep,
    /// `y += e` loses its operator
    CompoundAssign,
    /// function with a 1-bit (`logic`) return type loses the return type
    Func1Bit,
    /// local variable of a function is dropped
    FuncLocal,
    /// untyped `parameter` / `localparam` becomes `u32`
    UntypedParam,
    /// `input logic [7:0] a, b` — `b` loses direction / type
    PortInherit,
    /// `wire [7:0] w = expr;` loses the expression
    WireInit,
    /// `wire signed [7:0] w;` loses `signed`
    WireSigned,
    /// packed dimension not of the form `[N:0]` loses the dimension
    DimNonZero,
    /// unpacked dimension dropped
    Unpacked,
    /// `casez` item with `?` digits
    Casez,
    /// `begin … end` with more than one statement as a case arm
    CaseArmBlock,
    /// identifier that is a Veryl keyword
    Keyword,
    /// `#(.P(v))` of an instance dropped
    InstParam,
    /// positional port connections dropped
    InstOrdered,
    /// generate block label dropped (Veryl requires one)
    GenLabel,
    /// `//` comment between the last port name and `)`
    TrailingComment,
    /// the xnor operator spelled `^~` is split into `^` and `~`
    XnorCaretTilde,
}

impl Hz {
    pub const ALL: &'static [Hz] = &[
        Hz::LtGt,
        Hz::Cond,
        Hz::Repl,
        Hz::Inside,
        Hz::CaseEq,
        Hz::Cast,
        Hz::Ff,
        Hz::AlwaysBody,
        Hz::ForLe,
        Hz::ForStep,
        Hz::CompoundAssign,
        Hz::Func1Bit,
        Hz::FuncLocal,
        Hz::UntypedParam,
        Hz::PortInherit,
        Hz::WireInit,
        Hz::WireSigned,
        Hz::DimNonZero,
        Hz::Unpacked,
        Hz::Casez,
        Hz::CaseArmBlock,
        Hz::Keyword,
        Hz::InstParam,
        Hz::InstOrdered,
        Hz::GenLabel,
        Hz::TrailingComment,
        Hz::XnorCaretTilde,
    ];
    pub fn key(self) -> &'static str {
        match self {
            Hz::LtGt => "relational-lt-gt",
            Hz::Cond => "conditional-operator",
            Hz::Repl => "replication",
            Hz::Inside => "inside-operator",
            Hz::CaseEq => "case-equality",
            Hz::Cast => "size-cast",
            Hz::Ff => "ff-clock-port-type",
            Hz::AlwaysBody => "always-body-first-statement-only",
            Hz::ForLe => "for-inclusive-bound",
            Hz::ForStep => "for-step",
            Hz::CompoundAssign => "compound-assignment",
            Hz::Func1Bit => "function-scalar-return",
            Hz::FuncLocal => "function-local-variable",
            Hz::UntypedParam => "untyped-parameter",
            Hz::PortInherit => "port-inherits-header",
            Hz::WireInit => "net-declaration-assignment",
            Hz::WireSigned => "net-signed",
            Hz::DimNonZero => "packed-dimension-not-n-to-0",
            Hz::Unpacked => "unpacked-dimension",
            Hz::Casez => "casez-question-mark",
            Hz::CaseArmBlock => "case-arm-block",
            Hz::Keyword => "keyword-identifier",
            Hz::InstParam => "instance-parameter-override",
            Hz::InstOrdered => "instance-ordered-ports",
            Hz::GenLabel => "generate-label",
            Hz::TrailingComment => "comment-after-last-port",
            Hz::XnorCaretTilde => "xnor-caret-tilde",
        }
    }
    pub fn from_key(k: &str) -> Option<Hz> {
        Hz::ALL.iter().copied().find(|h| h.key() == k)
    }
}

#[derive(Clone, Debug)]
pub struct Sig {
    pub name: String,
    pub w: u32,
    pub signed: bool,
}

#[derive(Clone, Debug)]
struct ModInfo {
    name: String,
    /// (signal, is_input)
    ports: Vec<(Sig, bool)>,
    /// int parameter (name, default) usable in `#(.P(v))`
    param: Option<(String, u32)>,
}

pub struct Case {
    /// the text given to the translator
    pub sv: String,
    /// the same design for the simulation of the original: identical except
    /// that `wire w = e;` is written `wire w; assign w = e;` (1800 10.3.1)
    /// and positional connections are written by name (23.3.2.1) — two
    /// forms `vsv` does not read
    pub sv_sim: String,
    pub top: String,
    pub clock: ClockCfg,
    pub classes: BTreeSet<String>,
    pub hazards: BTreeSet<Hz>,
    pub excluded: BTreeMap<&'static str, u32>,
    pub ops: usize,
    /// always_comb + always_ff + functions
    pub procs: usize,
}

struct Style {
    ind: &'static str,
    /// spaces around binary operators
    sp: bool,
    /// per-mille of places that get a comment
    comments: u32,
    /// `begin` on its own line
    begin_nl: bool,
    /// parenthesise every nested binary operation
    full_parens: bool,
    /// wrap generate constructs in generate / endgenerate
    gen_kw: bool,
    /// `endmodule : name`
    end_label: bool,
    /// one port per line
    port_lines: bool,
    /// align declarations a little
    align: bool,
}

struct G<'a> {
    d: &'a mut Draw,
    allow: BTreeSet<Hz>,
    used: BTreeSet<Hz>,
    excluded: BTreeMap<&'static str, u32>,
    classes: BTreeSet<String>,
    ops: usize,
    procs: usize,
    st: Style,
    uniq: u32,
    clock: ClockCfg,
    /// (text for the translator, equivalent text for the simulator)
    sim_rewrites: Vec<(String, String)>,
}

const KEYWORD_IDENTS: &[&str] = &["in", "reset", "clock", "step", "msb", "lsb", "gen", "rev", "same", "switch", "block", "inst", "param"];

const WORDS: &[&str] = &[
    "data", "din", "val", "acc", "sum", "cnt", "idx", "sel", "mask", "flag", "tmp", "nxt", "res", "opa", "opb", "key", "lhs", "rhs", "word", "byte_v", "hi", "lo", "mid", "carry",
    "par", "enc", "dec", "mux", "addr", "tag",
];

fn push(out: &mut Vec<String>, ind: &str, level: usize, text: &str) {
    let mut s = String::new();
    for _ in 0..level {
        s.push_str(ind);
    }
    s.push_str(text);
    out.push(s);
}

#[derive(Clone, Debug)]
pub struct FuncInfo {
    name: String,
    args: usize,
}

impl<'a> G<'a> {
    fn class(&mut self, c: &str) {
        self.classes.insert(c.to_string());
    }

    /// An opportunity for a finding's shape with natural probability
    /// `num/den`; when the shape is the one being shown, it is taken more
    /// than half of the time.
    fn hz(&mut self, h: Hz, num: u32, den: u32) -> bool {
        if self.allow.contains(&h) {
            if self.d.chance(3, 5) {
                self.used.insert(h);
                return true;
            }
            return false;
        }
        if self.d.chance(num, den) {
            *self.excluded.entry(h.key()).or_insert(0) += 1;
        }
        false
    }

    fn fresh(&mut self, base: &str) -> String {
        self.uniq += 1;
        format!("{base}_{}", self.uniq)
    }

    fn word(&mut self) -> String {
        let w = *self.d.pick(WORDS);
        self.fresh(w)
    }

    fn width(&mut self) -> u32 {
        match self.d.weighted(&[6, 3, 3, 2, 1, 1]) {
            0 => 8,
            1 => self.d.range(2, 7) as u32,
            2 => self.d.range(9, 16) as u32,
            3 => 1,
            4 => *self.d.pick(&[24u32, 32, 33]),
            _ => *self.d.pick(&[48u32, 64, 65]),
        }
    }

    /// `// …` after a complete statement or after a separator.
    fn comment(&mut self) -> String {
        if self.d.chance(self.st.comments, 1000) {
            let texts = ["TODO check", "see spec 3.2", "width: 8", "a < b ? x : y", "FIXME {2{x}}", "next state", "default", "begin end"];
            let t = *self.d.pick(&texts);
            format!(" // {t}")
        } else {
            String::new()
        }
    }

    fn inline_comment(&mut self) -> String {
        if self.d.chance(self.st.comments / 4, 1000) {
            let texts = ["/* lhs */", "/* +1 */", "/*x*/", "/* a ? b : c */"];
            format!(" {}", self.d.pick(&texts))
        } else {
            String::new()
        }
    }

    // ----- literals ------------------------------------------------------------------

    fn value_below(&mut self, w: u32) -> u128 {
        let w = w.min(64);
        let bits = self.d.corner_bits(w as usize);
        bits[0] as u128
    }

    fn lit(&mut self, w: u32) -> String {
        let w = w.clamp(1, 64);
        let v = self.value_below(w);
        let us = |s: String, on: bool| -> String {
            if !on || s.len() <= 4 {
                return s;
            }
            let mut out = String::new();
            let n = s.len();
            for (i, c) in s.chars().enumerate() {
                if i > 0 && (n - i) % 4 == 0 {
                    out.push('_');
                }
                out.push(c);
            }
            out
        };
        let under = self.d.chance(1, 4);
        match self.d.weighted(&[4, 4, 2, 1]) {
            0 => format!("{w}'d{v}"),
            1 => {
                let upper = self.d.chance(1, 3);
                let h = if upper { format!("{v:X}") } else { format!("{v:x}") };
                format!("{w}'h{}", us(h, under))
            }
            2 => {
                let b = format!("{v:0width$b}", width = w as usize);
                format!("{w}'b{}", us(b, under))
            }
            _ => format!("{w}'o{v:o}"),
        }
    }

    // ----- expressions ---------------------------------------------------------------

    fn pick_sig<'s>(&mut self, av: &'s [Sig]) -> &'s Sig {
        &av[self.d.below_usize(av.len())]
    }

    fn leaf(&mut self, av: &[Sig]) -> String {
        if av.is_empty() {
            return self.lit(8);
        }
        match self.d.weighted(&[10, 3, 3, 1, 4]) {
            0 => self.pick_sig(av).name.clone(),
            1 => {
                let s = self.pick_sig(av).clone();
                if s.w < 2 {
                    return s.name;
                }
                self.class("expr:bit-select");
                let i = self.d.below(s.w);
                format!("{}[{}]", s.name, i)
            }
            2 => {
                let s = self.pick_sig(av).clone();
                if s.w < 3 {
                    return s.name;
                }
                self.class("expr:part-select");
                let lo = self.d.below(s.w - 1);
                let hi = lo + self.d.below(s.w - lo);
                if self.d.chance(1, 4) && hi > lo {
                    format!("{}[{} +: {}]", s.name, lo, hi - lo + 1)
                } else {
                    format!("{}[{}:{}]", s.name, hi, lo)
                }
            }
            3 => {
                // variable index: a plain k-bit signal indexes a vector of >= 2^k bits
                let s = self.pick_sig(av).clone();
                let idx = self.pick_sig(av).clone();
                if s.w < 2 || idx.w > 4 || (1u32 << idx.w) > s.w {
                    return s.name;
                }
                self.class("expr:variable-index");
                format!("{}[{}]", s.name, idx.name)
            }
            _ => {
                let w = if self.d.chance(2, 3) { self.pick_sig(av).w } else { self.width() };
                if self.d.chance(1, 8) {
                    self.class("expr:unsized-literal");
                    format!("{}", self.d.below(20))
                } else {
                    self.lit(w)
                }
            }
        }
    }

    fn wrap(&mut self, s: String, prec: u8, need: u8) -> String {
        if prec < need || (self.st.full_parens && prec < 13) { format!("({s})") } else { s }
    }

    fn bin(&mut self, op: &str, a: String, b: String) -> String {
        let ic = self.inline_comment();
        if self.st.sp {
            if self.d.chance(1, 25) && a.len() + b.len() > 30 {
                format!("{a}{ic} {op}\n            {b}")
            } else {
                format!("{a}{ic} {op} {b}")
            }
        } else if op.ends_with('^') && b.starts_with('~') {
            format!("{a}{ic}{op} {b}")
        } else {
            format!("{a}{ic}{op}{b}")
        }
    }

    /// (text, precedence of the outermost operator; 13 = primary)
    fn expr(&mut self, av: &[Sig], funcs: &[FuncInfo], depth: u32) -> (String, u8) {
        if depth == 0 || self.d.chance(1, 5) {
            return (self.leaf(av), 13);
        }
        let mut kind = self.d.weighted(&[14, 4, 2, 2, 2, 2, 1, 1]);
        // the shape being shown is reached more often than it would be naturally
        let mut forced_op: Option<&str> = None;
        if !self.allow.is_empty() && self.d.chance(1, 3) {
            if self.allow.contains(&Hz::LtGt) {
                kind = 0;
                forced_op = Some(if self.d.bool() { "<" } else { ">" });
            } else if self.allow.contains(&Hz::CaseEq) {
                kind = 0;
                forced_op = Some(if self.d.bool() { "===" } else { "!==" });
            } else if self.allow.contains(&Hz::XnorCaretTilde) {
                kind = 0;
                forced_op = Some("^~");
            } else if self.allow.contains(&Hz::Cond) {
                kind = 5;
            } else if self.allow.contains(&Hz::Repl) {
                kind = 6;
            } else if self.allow.contains(&Hz::Cast) || self.allow.contains(&Hz::Inside) {
                kind = 7;
            }
        }
        match kind {
            0 => {
                #[rustfmt::skip]
                let table: &[(&str, u8, u32)] = &[
                    ("+", 10, 8), ("-", 10, 8), ("*", 11, 3), ("&", 6, 6), ("|", 4, 6), ("^", 5, 6), ("~^", 5, 1),
                    ("<<", 9, 2), (">>", 9, 2), (">>>", 9, 2), ("<<<", 9, 1),
                    ("==", 7, 2), ("!=", 7, 2), ("<=", 8, 2), (">=", 8, 2), ("<", 8, 2), (">", 8, 2),
                    ("&&", 3, 2), ("||", 2, 2), ("/", 11, 1), ("%", 11, 1), ("**", 12, 1), ("===", 7, 1), ("!==", 7, 1),
                    ("==?", 7, 1), ("^~", 5, 1),
                ];
                let weights: Vec<u32> = table.iter().map(|t| t.2).collect();
                let mut k = self.d.weighted(&weights);
                if let Some(f) = forced_op {
                    k = table.iter().position(|t| t.0 == f).unwrap_or(k);
                }
                let mut op = table[k].0;
                if op == "<" || op == ">" {
                    if !self.hz(Hz::LtGt, 1, 1) {
                        k = if op == "<" { 13 } else { 14 };
                        op = table[k].0;
                    }
                } else if (op == "===" || op == "!==") && !self.hz(Hz::CaseEq, 1, 1) {
                    k = if op == "===" { 11 } else { 12 };
                    op = table[k].0;
                } else if op == "^~" && !self.hz(Hz::XnorCaretTilde, 1, 1) {
                    k = 6;
                    op = table[k].0;
                }
                let prec = table[k].1;
                self.ops += 1;
                self.class(&format!("op:{op}"));
                let (a, pa) = self.expr(av, funcs, depth - 1);
                let a = self.wrap(a, pa, prec);
                let (b, pb) = match op {
                    "<<" | ">>" | ">>>" | "<<<" => {
                        if self.d.chance(1, 2) || av.is_empty() {
                            (format!("{}", self.d.below(9)), 13)
                        } else {
                            let s = self.pick_sig(av).clone();
                            if s.w > 3 { (format!("{}[2:0]", s.name), 13) } else { (s.name, 13) }
                        }
                    }
                    "/" | "%" => {
                        // divisor never zero: x would only remove bits from the comparison
                        let (b, _) = self.expr(av, funcs, depth - 1);
                        (format!("({b} | 1'b1)"), 13)
                    }
                    "**" => (format!("{}", self.d.below(4)), 13),
                    "^~" if !av.is_empty() => {
                        let x = self.pick_sig(av).name.clone();
                        let y = self.pick_sig(av).name.clone();
                        self.ops += 1;
                        (self.bin("+", x, y), 10)
                    }
                    "==?" => {
                        // wildcard pattern on the right
                        let w = self.d.range(2, 6) as usize;
                        let mut b = String::new();
                        for _ in 0..w {
                            b.push(*self.d.pick(&['0', '1', 'x', '1', '0']));
                        }
                        (format!("{w}'b{b}"), 13)
                    }
                    _ => self.expr(av, funcs, depth - 1),
                };
                let b = self.wrap(b, pb, prec + 1);
                (self.bin(op, a, b), prec)
            }
            1 => {
                let ops = ["~", "-", "!", "&", "|", "^", "~&", "~|", "~^"];
                let op = ops[self.d.weighted(&[6, 3, 3, 1, 2, 2, 1, 1, 1])];
                self.ops += 1;
                self.class(&format!("unary:{op}"));
                let (a, pa) = self.expr(av, funcs, depth - 1);
                let a = if pa < 13 { format!("({a})") } else { a };
                if op == "~" || op == "!" { (format!("{op}{a}"), 12) } else { (format!("({op}{a})"), 13) }
            }
            2 => {
                self.ops += 1;
                self.class("expr:concat");
                let n = self.d.range(2, 3);
                let mut parts = vec![];
                for _ in 0..n {
                    let p = if self.d.chance(2, 3) || av.is_empty() {
                        if av.is_empty() || self.d.chance(1, 4) {
                            let w = self.d.range(1, 8) as u32;
                            self.lit(w)
                        } else {
                            let s = self.pick_sig(av).clone();
                            if s.w >= 2 && self.d.chance(1, 3) { format!("{}[{}]", s.name, self.d.below(s.w)) } else { s.name }
                        }
                    } else {
                        let a = self.pick_sig(av).name.clone();
                        let b = self.pick_sig(av).name.clone();
                        self.ops += 1;
                        let op = *self.d.pick(&["&", "|", "^", "+"]);
                        self.class(&format!("op:{op}"));
                        self.bin(op, a, b)
                    };
                    parts.push(p);
                }
                let sep = if self.st.sp { ", " } else { "," };
                (format!("{{{}}}", parts.join(sep)), 13)
            }
            3 => {
                self.ops += 1;
                let f = if self.d.bool() { "$signed" } else { "$unsigned" };
                self.class(&format!("expr:{f}"));
                let (a, _) = self.expr(av, funcs, depth - 1);
                (format!("{f}({a})"), 13)
            }
            4 => {
                if funcs.is_empty() {
                    return (self.leaf(av), 13);
                }
                let f = funcs[self.d.below_usize(funcs.len())].clone();
                self.ops += 1;
                self.class("expr:call");
                let mut args = vec![];
                for _ in 0..f.args {
                    let (a, _) = self.expr(av, &[], depth.saturating_sub(2));
                    args.push(a);
                }
                (format!("{}({})", f.name, args.join(", ")), 13)
            }
            5 => {
                if !self.hz(Hz::Cond, 1, 1) {
                    return self.expr(av, funcs, depth - 1);
                }
                self.ops += 1;
                self.class("op:?:");
                let (c, pc) = self.expr(av, funcs, depth - 1);
                let c = self.wrap(c, pc, 2);
                let (a, pa) = self.expr(av, funcs, depth - 1);
                let a = self.wrap(a, pa, 2);
                let (b, pb) = self.expr(av, funcs, depth - 1);
                let b = self.wrap(b, pb, 1);
                (format!("{c} ? {a} : {b}"), 1)
            }
            6 => {
                if !self.hz(Hz::Repl, 1, 1) {
                    return self.expr(av, funcs, depth - 1);
                }
                self.ops += 1;
                self.class("expr:replication");
                let n = self.d.range(2, 4);
                let s = self.leaf(av);
                let s = if s.chars().next().is_some_and(|c| c.is_ascii_digit()) && !s.contains('\'') { self.lit(4) } else { s };
                (format!("{{{n}{{{s}}}}}"), 13)
            }
            _ => {
                let cast = if self.allow.contains(&Hz::Cast) { true } else if self.allow.contains(&Hz::Inside) { false } else { self.d.bool() };
                if cast {
                    if !self.hz(Hz::Cast, 1, 1) {
                        return self.expr(av, funcs, depth - 1);
                    }
                    self.ops += 1;
                    self.class("expr:size-cast");
                    let w = self.width();
                    let (a, _) = self.expr(av, funcs, depth - 1);
                    (format!("{w}'({a})"), 13)
                } else {
                    if av.is_empty() || !self.hz(Hz::Inside, 1, 1) {
                        return self.expr(av, funcs, depth - 1);
                    }
                    self.ops += 1;
                    self.class("expr:inside");
                    let s = self.pick_sig(av).clone();
                    let a = self.lit(s.w);
                    let b = self.lit(s.w);
                    (format!("({} inside {{{a}, {b}}})", s.name), 13)
                }
            }
        }
    }

    /// Right-hand side of an assignment (comparisons at the top get parentheses,
    /// as people write `y = (a <= b);`).
    fn rhs(&mut self, av: &[Sig], funcs: &[FuncInfo], depth: u32) -> String {
        let (e, p) = self.expr(av, funcs, depth);
        if (7..=8).contains(&p) || p == 1 && self.d.bool() { format!("({e})") } else { e }
    }

    /// 1-bit-ish condition.
    fn cond(&mut self, av: &[Sig], funcs: &[FuncInfo]) -> String {
        match self.d.weighted(&[3, 3, 2, 2]) {
            0 => {
                let s = self.pick_sig(av).clone();
                if s.w == 1 { s.name } else { format!("{}[{}]", s.name, self.d.below(s.w)) }
            }
            1 => {
                let s = self.pick_sig(av).clone();
                let l = self.lit(s.w);
                let mut op = *self.d.pick(&["==", "!=", "<=", ">=", "<", ">"]);
                if (op == "<" || op == ">") && !self.hz(Hz::LtGt, 1, 1) {
                    op = if op == "<" { "<=" } else { ">=" };
                }
                self.ops += 1;
                self.class(&format!("op:{op}"));
                self.bin(op, s.name, l)
            }
            2 => {
                let a = self.pick_sig(av).clone();
                let b = self.pick_sig(av).clone();
                let op = *self.d.pick(&["==", "!=", ">=", "<="]);
                self.ops += 1;
                self.class(&format!("op:{op}"));
                self.bin(op, a.name, b.name)
            }
            _ => {
                let (e, _) = self.expr(av, funcs, 2);
                e
            }
        }
    }

    // ----- statements ----------------------------------------------------------------

    fn block_open(&mut self, out: &mut Vec<String>, level: usize, head: &str) {
        if self.st.begin_nl {
            push(out, self.st.ind, level, head);
            push(out, self.st.ind, level, "begin");
        } else {
            push(out, self.st.ind, level, &format!("{head} begin"));
        }
    }

    /// `targets` have all been assigned before (no latch, no read of an
    /// unassigned value); statements may read `av` and the targets.
    #[allow(clippy::too_many_arguments)]
    fn stmts(&mut self, out: &mut Vec<String>, level: usize, targets: &[Sig], av: &[Sig], funcs: &[FuncInfo], depth: u32, nb: bool) {
        let n = self.d.range(0, 2);
        for _ in 0..n {
            self.stmt(out, level, targets, av, funcs, depth, nb);
        }
    }

    fn full_assign(&mut self, t: &Sig, av: &[Sig], funcs: &[FuncInfo], nb: bool) -> String {
        let op = if nb { "<=" } else { "=" };
        let e = if self.d.chance(1, 4) {
            if self.d.bool() { "'0".to_string() } else { self.lit(t.w) }
        } else {
            self.rhs(av, funcs, 2)
        };
        format!("{} {op} {e};", t.name)
    }

    fn assign_stmt(&mut self, targets: &[Sig], av: &[Sig], funcs: &[FuncInfo], nb: bool) -> String {
        let t = targets[self.d.below_usize(targets.len())].clone();
        let mut all: Vec<Sig> = av.to_vec();
        all.extend(targets.iter().cloned());
        let op = if nb { "<=" } else { "=" };
        let lhs = if t.w >= 2 && self.d.chance(1, 5) {
            self.class("stmt:partial-assign");
            if self.d.bool() {
                format!("{}[{}]", t.name, self.d.below(t.w))
            } else {
                let lo = self.d.below(t.w - 1);
                let hi = lo + self.d.below(t.w - lo);
                format!("{}[{}:{}]", t.name, hi, lo)
            }
        } else {
            t.name.clone()
        };
        if !nb && self.hz(Hz::CompoundAssign, 1, 12) {
            let cop = *self.d.pick(&["+=", "-=", "^=", "|=", "&="]);
            self.class("stmt:compound-assign");
            let r = self.rhs(&all, funcs, 1);
            return format!("{} {cop} {r};", t.name);
        }
        let r = self.rhs(&all, funcs, 2);
        let c = self.comment();
        format!("{lhs} {op} {r};{c}")
    }

    #[allow(clippy::too_many_arguments)]
    fn stmt(&mut self, out: &mut Vec<String>, level: usize, targets: &[Sig], av: &[Sig], funcs: &[FuncInfo], depth: u32, nb: bool) {
        let mut kind = if depth == 0 { 0 } else { self.d.weighted(&[5, 4, 3, 2]) };
        if depth > 0 && !self.allow.is_empty() && self.d.chance(1, 2) {
            if self.allow.contains(&Hz::ForLe) || self.allow.contains(&Hz::ForStep) {
                kind = 3;
            } else if self.allow.contains(&Hz::Casez) || self.allow.contains(&Hz::CaseArmBlock) {
                kind = 2;
            }
        }
        match kind {
            0 => {
                let s = self.assign_stmt(targets, av, funcs, nb);
                push(out, self.st.ind, level, &s);
            }
            1 => {
                self.class("stmt:if");
                let arms = self.d.range(1, 3);
                let has_else = self.d.chance(2, 3);
                for i in 0..arms {
                    let c = self.cond(av, funcs);
                    let head = if i == 0 { format!("if ({c})") } else { format!("else if ({c})") };
                    if i > 0 {
                        self.class("stmt:else-if");
                    }
                    self.arm(out, level, &head, targets, &[], av, funcs, depth - 1, nb);
                }
                if has_else {
                    self.class("stmt:else");
                    self.arm(out, level, "else", targets, &[], av, funcs, depth - 1, nb);
                }
            }
            2 => self.case_stmt(out, level, targets, &[], av, funcs, depth, nb),
            _ => self.for_stmt(out, level, targets, av, nb),
        }
    }

    /// `full`: targets that every arm must assign completely (the statement
    /// is the only driver on this path).
    #[allow(clippy::too_many_arguments)]
    fn case_stmt(&mut self, out: &mut Vec<String>, level: usize, targets: &[Sig], full: &[Sig], av: &[Sig], funcs: &[FuncInfo], depth: u32, nb: bool) {
        self.class("stmt:case");
        let s = self.pick_sig(av).clone();
        let sw = s.w.min(3);
        let sel = if s.w == sw {
            s.name.clone()
        } else if sw == 1 {
            format!("{}[0]", s.name)
        } else {
            format!("{}[{}:0]", s.name, sw - 1)
        };
        let q = sw >= 2 && self.hz(Hz::Casez, 1, 15);
        let wild = !q && sw >= 2 && self.d.chance(1, 8);
        let kw = if q {
            "casez"
        } else if wild {
            self.class("stmt:casex-casez-wildcard");
            if self.d.bool() { "casex" } else { "casez" }
        } else if self.d.chance(1, 6) {
            self.class("stmt:unique-case");
            *self.d.pick(&["unique case", "priority case", "unique0 case"])
        } else {
            "case"
        };
        push(out, self.st.ind, level, &format!("{kw} ({sel})"));
        let nvals = 1u32 << sw;
        let mut vals: Vec<u32> = (0..nvals).collect();
        let keep = self.d.range(1, nvals.min(4) as i64) as usize;
        while vals.len() > keep {
            let i = self.d.below_usize(vals.len());
            vals.remove(i);
        }
        let mut i = 0;
        while i < vals.len() {
            let mut label = if (q || wild) && i == 0 {
                // wildcard in the least significant digit
                let ch = if q {
                    '?'
                } else if kw == "casex" {
                    'x'
                } else {
                    'z'
                };
                let mut b = format!("{:0w$b}", vals[i], w = sw as usize);
                b.replace_range(b.len() - 1.., &ch.to_string());
                format!("{sw}'b{b}")
            } else {
                format!("{sw}'d{}", vals[i])
            };
            if i + 1 < vals.len() && self.d.chance(1, 4) {
                self.class("stmt:case-multi-item");
                label = format!("{label}, {sw}'d{}", vals[i + 1]);
                i += 1;
            }
            self.case_arm(out, level + 1, &format!("{label}:"), targets, full, av, funcs, depth.saturating_sub(1), nb);
            i += 1;
        }
        self.case_arm(out, level + 1, "default:", targets, full, av, funcs, depth.saturating_sub(1), nb);
        push(out, self.st.ind, level, "endcase");
    }

    fn for_stmt(&mut self, out: &mut Vec<String>, level: usize, targets: &[Sig], av: &[Sig], nb: bool) {
        let t = targets[self.d.below_usize(targets.len())].clone();
        let srcs: Vec<Sig> = av.iter().filter(|s| s.w >= t.w).cloned().collect();
        if t.w < 2 || srcs.is_empty() {
            let s = format!("{} {} {};", t.name, if nb { "<=" } else { "=" }, self.lit(t.w));
            push(out, self.st.ind, level, &s);
            return;
        }
        self.class("stmt:for");
        let a = srcs[self.d.below_usize(srcs.len())].clone();
        let b = srcs[self.d.below_usize(srcs.len())].clone();
        let n = t.w;
        let v = *self.d.pick(&["i", "k", "j", "n"]);
        let op = if nb { "<=" } else { "=" };
        let mut head = format!("for (int {v} = 0; {v} < {n}; {v}++)");
        if self.hz(Hz::ForLe, 1, 6) {
            head = format!("for (int {v} = 0; {v} <= {}; {v}++)", n - 1);
        } else if self.hz(Hz::ForStep, 1, 8) {
            head = format!("for (int {v} = 0; {v} < {n}; {v} = {v} + 2)");
        } else if self.d.chance(1, 3) {
            head = format!("for (int {v} = 0; {v} < {n}; {v} = {v} + 1)");
        } else if self.d.chance(1, 4) {
            self.class("stmt:for-integer-var");
            head = format!("for (integer {v} = 0; {v} < {n}; {v}++)");
        }
        let body = match self.d.below(3) {
            0 => format!("{}[{v}] {op} {}[{v}] ^ {}[{} - {v}];", t.name, a.name, b.name, n - 1),
            1 => format!("{}[{v}] {op} {}[{} - {v}];", t.name, a.name, n - 1),
            _ => format!("{}[{v}] {op} {}[{v}] & ~{}[{v}];", t.name, a.name, b.name),
        };
        self.ops += 2;
        if self.d.chance(3, 4) {
            self.block_open(out, level, &head);
            push(out, self.st.ind, level + 1, &body);
            push(out, self.st.ind, level, "end");
        } else {
            push(out, self.st.ind, level, &head);
            push(out, self.st.ind, level + 1, &body);
        }
    }

    /// Body of an if / else arm.  `full` targets are assigned completely first.
    #[allow(clippy::too_many_arguments)]
    fn arm(&mut self, out: &mut Vec<String>, level: usize, head: &str, targets: &[Sig], full: &[Sig], av: &[Sig], funcs: &[FuncInfo], depth: u32, nb: bool) {
        let single = full.len() <= 1 && self.d.chance(1, 3);
        if single {
            let s = if full.len() == 1 { self.full_assign(&full[0], av, funcs, nb) } else { self.assign_stmt(targets, av, funcs, nb) };
            if self.d.bool() {
                push(out, self.st.ind, level, &format!("{head} {s}"));
            } else {
                push(out, self.st.ind, level, head);
                push(out, self.st.ind, level + 1, &s);
            }
            return;
        }
        let joined = !self.st.begin_nl && head.starts_with("else") && out.last().is_some_and(|l| l.trim() == "end") && self.d.bool();
        if joined {
            let last = out.pop().unwrap();
            out.push(format!("{last} {head} begin"));
        } else {
            self.block_open(out, level, head);
        }
        for t in full {
            let s = self.full_assign(t, av, funcs, nb);
            push(out, self.st.ind, level + 1, &s);
        }
        if full.is_empty() {
            self.stmt(out, level + 1, targets, av, funcs, depth, nb);
        }
        self.stmts(out, level + 1, targets, av, funcs, depth, nb);
        push(out, self.st.ind, level, "end");
    }

    #[allow(clippy::too_many_arguments)]
    fn case_arm(&mut self, out: &mut Vec<String>, level: usize, label: &str, targets: &[Sig], full: &[Sig], av: &[Sig], funcs: &[FuncInfo], depth: u32, nb: bool) {
        let _ = depth;
        if full.len() <= 1 && self.hz(Hz::CaseArmBlock, 1, 3) {
            self.class("stmt:case-arm-block");
            self.block_open(out, level, label);
            let a = if full.len() == 1 { self.full_assign(&full[0], av, funcs, nb) } else { self.assign_stmt(targets, av, funcs, nb) };
            push(out, self.st.ind, level + 1, &a);
            let b = self.assign_stmt(targets, av, funcs, nb);
            push(out, self.st.ind, level + 1, &b);
            push(out, self.st.ind, level, "end");
            return;
        }
        // one statement per arm
        let one = |g: &mut Self| -> String { if full.len() == 1 { g.full_assign(&full[0], av, funcs, nb) } else { g.assign_stmt(targets, av, funcs, nb) } };
        match self.d.weighted(&[5, 2, 2]) {
            0 => {
                let s = one(self);
                push(out, self.st.ind, level, &format!("{label} {s}"));
            }
            1 => {
                self.class("stmt:case-arm-begin-end");
                self.block_open(out, level, label);
                let s = one(self);
                push(out, self.st.ind, level + 1, &s);
                push(out, self.st.ind, level, "end");
            }
            _ => {
                self.class("stmt:case-arm-if");
                let c = self.cond(av, funcs);
                push(out, self.st.ind, level, label);
                let s1 = one(self);
                let s2 = one(self);
                push(out, self.st.ind, level + 1, &format!("if ({c}) {s1}"));
                push(out, self.st.ind, level + 1, &format!("else {s2}"));
            }
        }
    }

    /// A single statement that assigns every target on every path
    /// (the whole body of an always block).
    fn full_statement(&mut self, out: &mut Vec<String>, level: usize, targets: &[Sig], av: &[Sig], funcs: &[FuncInfo], nb: bool) {
        let single = targets.len() == 1;
        let t0 = targets[0].clone();
        let can_for = single && t0.w >= 2 && av.iter().any(|s| s.w >= t0.w);
        match self.d.weighted(&[5, if single { 4 } else { 0 }, if can_for { 2 } else { 0 }, if single { 2 } else { 0 }]) {
            0 => {
                self.class("stmt:if");
                let arms = self.d.range(1, 3);
                for i in 0..arms {
                    let c = self.cond(av, funcs);
                    let head = if i == 0 { format!("if ({c})") } else { format!("else if ({c})") };
                    if i > 0 {
                        self.class("stmt:else-if");
                    }
                    self.arm(out, level, &head, targets, targets, av, funcs, 2, nb);
                }
                self.class("stmt:else");
                self.arm(out, level, "else", targets, targets, av, funcs, 2, nb);
            }
            1 => self.case_stmt(out, level, targets, targets, av, funcs, 2, nb),
            2 => {
                // the loop covers every bit (only with the plain `< n; ++` header)
                let save = self.allow.clone();
                self.allow.remove(&Hz::ForLe);
                self.allow.remove(&Hz::ForStep);
                self.for_stmt(out, level, targets, av, nb);
                self.allow = save;
            }
            _ => {
                let s = self.full_assign(&t0, av, funcs, nb);
                push(out, self.st.ind, level, &s);
            }
        }
    }

    // ----- declarations --------------------------------------------------------------

    fn dim(&mut self, w: u32, wparam: Option<(&str, u32)>) -> String {
        if let Some((p, pw)) = wparam
            && pw == w
        {
            return if self.d.chance(1, 4) { format!("[{p} - 1:0] ") } else { format!("[{p}-1:0] ") };
        }
        if w == 1 {
            return String::new();
        }
        match self.d.weighted(&[12, 1, 1]) {
            0 => format!("[{}:0] ", w - 1),
            1 => format!("[{w}-1:0] "),
            _ => format!("[ {} : 0 ] ", w - 1),
        }
    }

    fn type_text(&mut self, kw: &str, s: &Sig, wparam: Option<(&str, u32)>) -> String {
        let d = self.dim(s.w, wparam);
        let sg = if s.signed { "signed " } else { "" };
        if kw.is_empty() { format!("{sg}{d}") } else { format!("{kw} {sg}{d}") }
    }

    // ----- functions -----------------------------------------------------------------

    fn function(&mut self, out: &mut Vec<String>, wparam: Option<(&str, u32)>) -> FuncInfo {
        self.procs += 1;
        self.class("item:function");
        let base = *self.d.pick(&["calc", "mix", "fold", "pick_v", "enc", "f"]);
        let name = self.fresh(base);
        let nargs = self.d.range(1, 3) as usize;
        let mut args = vec![];
        for i in 0..nargs {
            let w = self.width().min(32);
            args.push(Sig {
                name: format!("{}{}", ["x", "y", "z"][i], self.uniq),
                w,
                signed: self.d.chance(1, 6),
            });
        }
        let mut rw = self.width().clamp(2, 32);
        if self.hz(Hz::Func1Bit, 1, 8) {
            rw = 1;
        }
        let ret = Sig {
            name: name.clone(),
            w: rw,
            signed: false,
        };
        let rt = self.type_text("logic", &ret, wparam);
        let auto = if self.d.chance(3, 4) { "automatic " } else { "" };
        let mut arg_txt: Vec<String> = vec![];
        for a in &args {
            let t = self.type_text("logic", a, None);
            arg_txt.push(format!("input {t}{}", a.name));
        }
        push(out, self.st.ind, 1, &format!("function {auto}{rt}{name}({});", arg_txt.join(", ")));
        let style = self.d.weighted(&[5, 3, 2, 2]);
        if self.hz(Hz::FuncLocal, 1, 6) {
            let t = Sig {
                name: format!("t{}", self.uniq),
                w: rw.max(2),
                signed: false,
            };
            let tt = self.type_text("logic", &t, None);
            push(out, self.st.ind, 2, &format!("{tt}{};", t.name));
            let e = self.rhs(&args, &[], 2);
            push(out, self.st.ind, 2, &format!("{} = {e};", t.name));
            let mut av2 = args.clone();
            av2.push(t);
            let e2 = self.rhs(&av2, &[], 1);
            push(out, self.st.ind, 2, &format!("return {e2};"));
        } else if style == 0 {
            let e = self.rhs(&args, &[], 3);
            let c = self.comment();
            push(out, self.st.ind, 2, &format!("return {e};{c}"));
        } else if style == 1 {
            self.class("func:if-return");
            let c = self.cond(&args, &[]);
            let e1 = self.rhs(&args, &[], 2);
            let e2 = self.rhs(&args, &[], 2);
            self.block_open(out, 2, &format!("if ({c})"));
            push(out, self.st.ind, 3, &format!("return {e1};"));
            push(out, self.st.ind, 2, "end else begin");
            push(out, self.st.ind, 3, &format!("return {e2};"));
            push(out, self.st.ind, 2, "end");
        } else if style == 2 {
            self.class("func:case-return");
            let s = args[0].clone();
            let sel = if s.w == 1 { s.name.clone() } else { format!("{}[1:0]", s.name) };
            let sw = s.w.min(2);
            push(out, self.st.ind, 2, &format!("case ({sel})"));
            for v in 0..(1u32 << sw) - 1 {
                let e = self.rhs(&args, &[], 2);
                push(out, self.st.ind, 3, &format!("{sw}'d{v}: return {e};"));
            }
            let e = self.rhs(&args, &[], 1);
            push(out, self.st.ind, 3, &format!("default: return {e};"));
            push(out, self.st.ind, 2, "endcase");
        } else {
            // result through the function's name, refined by an if
            self.class("func:name-assignment");
            let e = self.rhs(&args, &[], 2);
            push(out, self.st.ind, 2, &format!("{name} = {e};"));
            if self.d.bool() {
                let c = self.cond(&args, &[]);
                let e2 = self.rhs(&args, &[], 2);
                push(out, self.st.ind, 2, &format!("if ({c}) {name} = {e2};"));
            }
        }
        push(out, self.st.ind, 1, "endfunction");
        out.push(String::new());
        FuncInfo { name, args: nargs }
    }

    // ----- modules -------------------------------------------------------------------

    /// One module; `children` may be instantiated.
    fn module(&mut self, name: &str, children: &[ModInfo], is_top: bool, size: u32, with_ff: bool) -> (Vec<String>, ModInfo) {
        let mut out: Vec<String> = vec![];
        // ---- parameters
        let mut wparam: Option<(String, u32)> = None;
        let mut cparam: Option<(String, u32, u32)> = None;
        let mut iparam: Option<(String, u32)> = None;
        let mut params_txt: Vec<String> = vec![];
        if self.d.chance(1, 3) {
            let w = *self.d.pick(&[8u32, 4, 16, 6, 12]);
            let n = *self.d.pick(&["WIDTH", "W", "DW", "N"]);
            wparam = Some((n.to_string(), w));
            self.class("param:width");
            let ty = *self.d.pick(&["int", "int unsigned", "int"]);
            params_txt.push(format!("parameter {ty} {n} = {w}"));
        }
        if self.d.chance(1, 4) {
            let w = self.d.range(2, 8) as u32;
            let v = self.value_below(w) as u32;
            let n = *self.d.pick(&["INIT", "MASK", "K0", "SEED"]);
            cparam = Some((n.to_string(), w, v));
            self.class("param:typed-vector");
            params_txt.push(format!("parameter logic [{}:0] {n} = {w}'d{v}", w - 1));
        }
        let force_iparam = !is_top && self.allow.contains(&Hz::InstParam);
        if self.d.chance(1, 4) || force_iparam {
            let v = self.d.range(0, 9) as u32;
            let n = *self.d.pick(&["OFFSET", "MODE", "STEP_N", "P"]);
            iparam = Some((n.to_string(), v));
            self.class("param:int");
            if self.hz(Hz::UntypedParam, 1, 3) {
                params_txt.push(format!("parameter {n} = {v}"));
            } else {
                params_txt.push(format!("parameter int {n} = {v}"));
            }
        }
        let wp = wparam.as_ref().map(|(n, w)| (n.as_str(), *w));

        // ---- ports
        let mut n_in = self.d.range(1, 4) as usize;
        if self.allow.contains(&Hz::PortInherit) {
            n_in = n_in.max(2);
        }
        let n_out = self.d.range(1, 3) as usize;
        let mut inputs: Vec<Sig> = vec![];
        let mut outputs: Vec<Sig> = vec![];
        let kw_ident = self.hz(Hz::Keyword, 1, 10);
        for i in 0..n_in {
            let mut w = self.width();
            if let Some((_, pw)) = wp
                && self.d.chance(1, 2)
            {
                w = pw;
            }
            let nm = if kw_ident && i == 0 {
                (*self.d.pick(KEYWORD_IDENTS)).to_string()
            } else if is_top {
                format!("{}{}", ["a", "b", "c", "d"][i], if self.d.chance(1, 3) { "_i" } else { "" })
            } else {
                format!("{}_{}", ["p", "q", "r", "s"][i], name)
            };
            let mut signed = self.d.chance(1, 4);
            if i > 0 && self.allow.contains(&Hz::PortInherit) {
                w = inputs[i - 1].w;
                signed = inputs[i - 1].signed;
            }
            if i == 0 && self.allow.contains(&Hz::Unpacked) {
                w = 2;
            }
            if signed {
                self.class("port:signed-input");
            }
            inputs.push(Sig { name: nm, w, signed });
        }
        for i in 0..n_out {
            let mut w = self.width();
            if let Some((_, pw)) = wp
                && self.d.chance(1, 2)
            {
                w = pw;
            }
            let nm = if is_top { format!("{}{}", ["y", "z", "v"][i], if self.d.chance(1, 3) { "_o" } else { "" }) } else { format!("{}_{}", ["o", "u", "t"][i], name) };
            let signed = self.d.chance(1, 6);
            if signed {
                self.class("port:signed-output");
            }
            outputs.push(Sig { name: nm, w, signed });
        }
        let (clk, rst) = if with_ff {
            let clk = (*self.d.pick(&["clk", "clk_i", "clock_in"])).to_string();
            let posedge = self.d.chance(5, 6);
            let rst = match self.d.weighted(&[5, 2, 2, 1, 1]) {
                0 => Some(("rst_n".to_string(), false, false)),
                1 => Some(("rst".to_string(), true, false)),
                2 => Some(("rst".to_string(), true, true)),
                3 => Some(("rst_n".to_string(), false, true)),
                _ => None,
            };
            (Some((clk, posedge)), rst)
        } else {
            (None, None)
        };
        if is_top {
            self.clock = ClockCfg {
                clock: clk.clone(),
                reset: rst.clone(),
            };
        }

        // header
        let mut port_txt: Vec<String> = vec![];
        if let Some((c, _)) = &clk {
            port_txt.push(format!("input  logic {c}"));
        }
        if let Some((r, _, _)) = &rst {
            port_txt.push(format!("input  logic {r}"));
        }
        let in_kw = *self.d.pick(&["logic", "logic", "logic", "wire", "", "wire logic"]);
        if in_kw != "logic" {
            self.class(&format!("port-style:input {in_kw}"));
        }
        let mut prev: Option<(u32, bool)> = None;
        for s in &inputs {
            if let Some((pw, ps)) = prev
                && pw == s.w
                && ps == s.signed
                && self.hz(Hz::PortInherit, 1, 4)
            {
                port_txt.push(s.name.clone());
                continue;
            }
            let kw = if self.d.chance(1, 12) { "bit" } else { in_kw };
            if kw == "bit" {
                self.class("port-style:input bit");
            }
            let mut t = self.type_text(kw, s, wp);
            if s.w >= 2 && self.hz(Hz::DimNonZero, 1, 25) {
                let sg = if s.signed { "signed " } else { "" };
                t = if kw.is_empty() { format!("{sg}[{}:1] ", s.w) } else { format!("{kw} {sg}[{}:1] ", s.w) };
            }
            let pad = if self.st.align { " " } else { "" };
            port_txt.push(format!("input {pad}{t}{}", s.name));
            prev = Some((s.w, s.signed));
        }
        // 0 = continuous assignment / instance / generate (may be a net), 1 = procedural
        let mut out_kind: Vec<u32> = vec![0; outputs.len()];
        let mut port_out_idx = vec![];
        for s in &outputs {
            port_out_idx.push(port_txt.len());
            port_txt.push(s.name.clone());
        }

        // ---- body: a chain of items, each defining new signals from earlier ones
        let mut decls: Vec<String> = vec![];
        let mut lps: Vec<String> = vec![];
        let mut funcs_txt: Vec<String> = vec![];
        let mut items: Vec<String> = vec![];
        let mut av: Vec<Sig> = inputs.clone();
        let mut funcs: Vec<FuncInfo> = vec![];

        let mut n_lp = self.d.weighted(&[3, 3, 1]);
        if self.allow.contains(&Hz::UntypedParam) {
            n_lp = n_lp.max(1);
        }
        for _ in 0..n_lp {
            let w = self.d.range(2, 12) as u32;
            let base = *self.d.pick(&["K", "MAGIC", "C", "LIM"]);
            let n = self.fresh(base);
            let l = self.lit(w);
            if self.hz(Hz::UntypedParam, 1, 3) {
                lps.push(format!("localparam {n} = {l};"));
            } else if self.d.chance(1, 3) {
                self.class("localparam:int");
                let v = self.d.below(100);
                lps.push(format!("localparam int {n} = {v};"));
                av.push(Sig {
                    name: n,
                    w: 32,
                    signed: true,
                });
                continue;
            } else {
                self.class("localparam:typed-vector");
                lps.push(format!("localparam logic [{}:0] {n} = {l};", w - 1));
            }
            av.push(Sig {
                name: n,
                w,
                signed: false,
            });
        }
        if let Some((n, w, _)) = &cparam {
            av.push(Sig {
                name: n.clone(),
                w: *w,
                signed: false,
            });
        }
        if let Some((n, _)) = &iparam {
            av.push(Sig {
                name: n.clone(),
                w: 32,
                signed: true,
            });
        }

        let mut n_f = self.d.weighted(&[3, 3, 1]);
        if self.allow.contains(&Hz::Func1Bit) || self.allow.contains(&Hz::FuncLocal) {
            n_f = n_f.max(1);
        }
        for _ in 0..n_f {
            let f = self.function(&mut funcs_txt, wp);
            funcs.push(f);
        }

        // sequential state (finding Ff): registers updated from the inputs
        if with_ff {
            self.class("item:always_ff");
            self.procs += 1;
            let nreg = self.d.range(1, 2);
            let mut regs = vec![];
            for _ in 0..nreg {
                let s = Sig {
                    name: self.fresh("r"),
                    w: self.width(),
                    signed: self.d.chance(1, 6),
                };
                let t = self.type_text("logic", &s, wp);
                decls.push(format!("{t}{};", s.name));
                regs.push(s);
            }
            let (c, pos) = clk.clone().unwrap();
            let mut ev = format!("{} {c}", if pos { "posedge" } else { "negedge" });
            if let Some((r, high, sync)) = &rst
                && !*sync
            {
                ev = format!("{ev} or {} {r}", if *high { "posedge" } else { "negedge" });
            }
            let mut b: Vec<String> = vec![];
            self.block_open(&mut b, 1, &format!("always_ff @({ev})"));
            let mut all = av.clone();
            all.extend(regs.iter().cloned());
            if let Some((r, high, _)) = &rst {
                let c = if *high { r.clone() } else { format!("!{r}") };
                self.block_open(&mut b, 2, &format!("if ({c})"));
                for s in &regs {
                    let v = if self.d.bool() { "'0".to_string() } else { self.lit(s.w) };
                    push(&mut b, self.st.ind, 3, &format!("{} <= {v};", s.name));
                }
                push(&mut b, self.st.ind, 2, "end else begin");
                for s in &regs {
                    let a = self.full_assign(s, &all, &funcs, true);
                    push(&mut b, self.st.ind, 3, &a);
                }
                self.stmts(&mut b, 3, &regs, &all, &funcs, 2, true);
                push(&mut b, self.st.ind, 2, "end");
            } else {
                self.full_statement(&mut b, 2, &regs, &all, &funcs, true);
            }
            push(&mut b, self.st.ind, 1, "end");
            b.push(String::new());
            items.extend(b);
            av.extend(regs);
        }

        let n_items = self.d.range(1, size as i64) as usize;
        let total = n_items + outputs.len();
        for step in 0..total {
            let drive_out = step >= n_items;
            let out_index = if drive_out { Some(step - n_items) } else { None };
            let target: Sig = match out_index {
                Some(oi) => outputs[oi].clone(),
                None => Sig {
                    name: self.word(),
                    w: self.width(),
                    signed: self.d.chance(1, 5) || (self.allow.contains(&Hz::WireSigned) && self.d.chance(2, 3)),
                },
            };
            let real: Vec<Sig> = av.clone();
            let mut kind = self.d.weighted(&[12, 12, 4, 4, if children.is_empty() { 0 } else { 6 }, 2, 1]);
            if !self.allow.is_empty() && self.d.chance(1, 2) {
                let a = &self.allow;
                if a.contains(&Hz::AlwaysBody) || a.contains(&Hz::ForLe) || a.contains(&Hz::ForStep) || a.contains(&Hz::Casez) || a.contains(&Hz::CaseArmBlock) || a.contains(&Hz::CompoundAssign) {
                    kind = 1;
                } else if a.contains(&Hz::GenLabel) {
                    kind = 2;
                } else if (a.contains(&Hz::InstParam) || a.contains(&Hz::InstOrdered)) && !children.is_empty() {
                    kind = 4;
                } else if a.contains(&Hz::Unpacked) {
                    kind = 5;
                } else if a.contains(&Hz::WireInit) || a.contains(&Hz::WireSigned) {
                    kind = 0;
                }
            }
            let mut decl_kw = "logic";
            match kind {
                0 => {
                    self.class("item:assign");
                    decl_kw = *self.d.pick(&["logic", "logic", "wire", "wire"]);
                    if self.allow.contains(&Hz::WireInit) || self.allow.contains(&Hz::WireSigned) {
                        decl_kw = "wire";
                    }
                    let e = self.rhs(&real, &funcs, 3);
                    let c = self.comment();
                    if !drive_out && decl_kw == "wire" && self.hz(Hz::WireInit, 1, 4) {
                        let d = self.dim(target.w, wp);
                        let one = format!("wire {d}{} = {e};", target.name);
                        let two = format!("wire {d}{}; assign {} = {e};", target.name, target.name);
                        self.sim_rewrites.push((one.clone(), two));
                        decls.push(format!("{one}{c}"));
                        let mut t = target.clone();
                        t.signed = false;
                        av.push(t);
                        continue;
                    }
                    if !drive_out && self.d.chance(1, 10) {
                        self.class("item:assign-list");
                        let t2 = Sig {
                            name: self.word(),
                            w: self.width(),
                            signed: false,
                        };
                        let tt = self.type_text("logic", &t2, wp);
                        decls.push(format!("{tt}{};", t2.name));
                        let e2 = self.rhs(&real, &funcs, 2);
                        items.push(format!("{}assign {} = {e}, {} = {e2};", self.st.ind, target.name, t2.name));
                        av.push(t2);
                    } else {
                        items.push(format!("{}assign {} = {e};{c}", self.st.ind, target.name));
                    }
                }
                1 => {
                    self.class("item:always_comb");
                    self.procs += 1;
                    decl_kw = *self.d.pick(&["logic", "logic", "reg"]);
                    let mut targets = vec![target.clone()];
                    if !drive_out && self.d.chance(1, 3) {
                        let t2 = Sig {
                            name: self.word(),
                            w: self.width(),
                            signed: false,
                        };
                        let tt = self.type_text("logic", &t2, wp);
                        decls.push(format!("{tt}{};", t2.name));
                        targets.push(t2);
                    }
                    let mut b: Vec<String> = vec![];
                    if self.hz(Hz::AlwaysBody, 2, 3) {
                        // the usual style: defaults first, then the decisions — or a bare statement
                        if targets.len() == 1 && self.d.chance(1, 4) {
                            self.class("always_comb:bare-statement");
                            let e = self.rhs(&real, &funcs, 3);
                            push(&mut b, self.st.ind, 1, &format!("always_comb {} = {e};", target.name));
                        } else {
                            self.class("always_comb:defaults-then-decisions");
                            self.block_open(&mut b, 1, "always_comb");
                            for t in &targets {
                                let s = self.full_assign(t, &real, &funcs, false);
                                push(&mut b, self.st.ind, 2, &s);
                            }
                            self.stmt(&mut b, 2, &targets, &real, &funcs, 2, false);
                            self.stmts(&mut b, 2, &targets, &real, &funcs, 2, false);
                            push(&mut b, self.st.ind, 1, "end");
                        }
                    } else {
                        if self.d.chance(1, 6) {
                            let l = self.fresh("p_blk");
                            push(&mut b, self.st.ind, 1, &format!("always_comb begin : {l}"));
                        } else {
                            self.block_open(&mut b, 1, "always_comb");
                        }
                        self.full_statement(&mut b, 2, &targets, &real, &funcs, false);
                        push(&mut b, self.st.ind, 1, "end");
                    }
                    b.push(String::new());
                    items.extend(b);
                    for t in targets.iter().skip(1) {
                        av.push(t.clone());
                    }
                    if let Some(oi) = out_index {
                        out_kind[oi] = 1;
                    }
                }
                2 => {
                    // generate for: one continuous assignment per bit
                    let srcs: Vec<Sig> = real.iter().filter(|s| s.w >= target.w).cloned().collect();
                    if target.w < 2 || srcs.is_empty() || !self.hz(Hz::GenLabel, 1, 1) {
                        self.class("item:assign");
                        let e = self.rhs(&real, &funcs, 2);
                        items.push(format!("{}assign {} = {e};", self.st.ind, target.name));
                    } else {
                        self.class("item:generate-for");
                        let a = srcs[self.d.below_usize(srcs.len())].clone();
                        let b2 = srcs[self.d.below_usize(srcs.len())].clone();
                        let gv = self.fresh("gi");
                        let label = self.fresh("g_bit");
                        let n = target.w;
                        let mut b: Vec<String> = vec![];
                        let lvl = if self.st.gen_kw { 2 } else { 1 };
                        let inline_genvar = self.d.bool();
                        if !inline_genvar {
                            push(&mut b, self.st.ind, 1, &format!("genvar {gv};"));
                        }
                        if self.st.gen_kw {
                            push(&mut b, self.st.ind, 1, "generate");
                        }
                        let gvd = if inline_genvar { format!("genvar {gv}") } else { gv.clone() };
                        let step = if self.d.bool() { format!("{gv}++") } else { format!("{gv} = {gv} + 1") };
                        push(&mut b, self.st.ind, lvl, &format!("for ({gvd} = 0; {gv} < {n}; {step}) begin : {label}"));
                        let body = match self.d.below(3) {
                            0 => format!("assign {}[{gv}] = {}[{gv}] ^ {}[{} - {gv}];", target.name, a.name, b2.name, n - 1),
                            1 => format!("assign {}[{gv}] = {}[{} - {gv}];", target.name, a.name, n - 1),
                            _ => format!("assign {}[{gv}] = {}[{gv}] | ~{}[{gv}];", target.name, a.name, b2.name),
                        };
                        self.ops += 2;
                        push(&mut b, self.st.ind, lvl + 1, &body);
                        push(&mut b, self.st.ind, lvl, "end");
                        if self.st.gen_kw {
                            push(&mut b, self.st.ind, 1, "endgenerate");
                        }
                        b.push(String::new());
                        items.extend(b);
                    }
                }
                3 => {
                    // generate if on a parameter
                    let pname = iparam.as_ref().map(|p| (p.0.clone(), p.1)).or(wparam.as_ref().map(|p| (p.0.clone(), p.1)));
                    if pname.is_none() || !self.hz(Hz::GenLabel, 1, 1) {
                        self.class("item:assign");
                        let e = self.rhs(&real, &funcs, 2);
                        items.push(format!("{}assign {} = {e};", self.st.ind, target.name));
                    } else {
                        let (p, pv) = pname.unwrap();
                        self.class("item:generate-if");
                        let cmpv = if self.d.bool() { pv } else { pv + 1 };
                        let op = *self.d.pick(&["==", "!=", ">="]);
                        let l1 = self.fresh("g_a");
                        let l2 = self.fresh("g_b");
                        let e1 = self.rhs(&real, &funcs, 2);
                        let e2 = self.rhs(&real, &funcs, 2);
                        let mut b: Vec<String> = vec![];
                        let lvl = if self.st.gen_kw { 2 } else { 1 };
                        if self.st.gen_kw {
                            push(&mut b, self.st.ind, 1, "generate");
                        }
                        push(&mut b, self.st.ind, lvl, &format!("if ({p} {op} {cmpv}) begin : {l1}"));
                        push(&mut b, self.st.ind, lvl + 1, &format!("assign {} = {e1};", target.name));
                        push(&mut b, self.st.ind, lvl, &format!("end else begin : {l2}"));
                        push(&mut b, self.st.ind, lvl + 1, &format!("assign {} = {e2};", target.name));
                        push(&mut b, self.st.ind, lvl, "end");
                        if self.st.gen_kw {
                            push(&mut b, self.st.ind, 1, "endgenerate");
                        }
                        b.push(String::new());
                        items.extend(b);
                    }
                }
                4 => {
                    // instance of a child: its first output drives `target`
                    self.class("item:instance");
                    let ch = children[self.d.below_usize(children.len())].clone();
                    let iname = self.fresh(&format!("u_{}", ch.name));
                    let mut conns: Vec<String> = vec![];
                    let mut first_out = true;
                    let mut ordered: Vec<String> = vec![];
                    for (p, is_in) in &ch.ports {
                        if *is_in {
                            let e = if self.d.chance(1, 2) {
                                self.pick_sig(&real).name.clone()
                            } else {
                                let (e, _) = self.expr(&real, &funcs, 2);
                                e
                            };
                            ordered.push(e.clone());
                            conns.push(format!(".{}({e})", p.name));
                        } else if first_out {
                            first_out = false;
                            ordered.push(target.name.clone());
                            conns.push(format!(".{}({})", p.name, target.name));
                        } else {
                            let t2 = Sig {
                                name: self.word(),
                                w: p.w,
                                signed: false,
                            };
                            let tt = self.type_text("logic", &t2, None);
                            decls.push(format!("{tt}{};", t2.name));
                            ordered.push(t2.name.clone());
                            conns.push(format!(".{}({})", p.name, t2.name));
                            av.push(t2);
                        }
                    }
                    let mut ptxt = String::new();
                    if let Some((pn, pv)) = &ch.param
                        && self.hz(Hz::InstParam, 1, 3)
                    {
                        ptxt = format!(" #(.{pn}({}))", pv + 1 + self.d.below(3));
                    }
                    let named = format!("{}{}{ptxt} {iname} ({});", self.st.ind, ch.name, conns.join(", "));
                    if self.hz(Hz::InstOrdered, 1, 8) {
                        let pos = format!("{}{}{ptxt} {iname} ({});", self.st.ind, ch.name, ordered.join(", "));
                        self.sim_rewrites.push((pos.clone(), named));
                        items.push(pos);
                    } else if self.d.bool() {
                        items.push(named);
                    } else {
                        items.push(format!("{}{}{ptxt} {iname} (", self.st.ind, ch.name));
                        let n = conns.len();
                        for (i, c) in conns.iter().enumerate() {
                            items.push(format!("{}{}{c}{}", self.st.ind, self.st.ind, if i + 1 < n { "," } else { "" }));
                        }
                        items.push(format!("{});", self.st.ind));
                    }
                    items.push(String::new());
                    decl_kw = *self.d.pick(&["logic", "wire"]);
                }
                6 => {
                    // constructs the translator reports as unsupported: the case then lies
                    // outside the property's domain (this measures the unsupported rate)
                    decl_kw = "logic";
                    let e = self.rhs(&real, &funcs, 2);
                    match self.d.below(4) {
                        0 => {
                            self.class("reported:always @(*)");
                            let star = if self.d.bool() { "@(*)" } else { "@*" };
                            items.push(format!("{}always {star} {} = {e};", self.st.ind, target.name));
                            if let Some(oi) = out_index {
                                out_kind[oi] = 1;
                            }
                        }
                        1 => {
                            self.class("reported:initial");
                            items.push(format!("{}assign {} = {e};", self.st.ind, target.name));
                            items.push(format!("{}initial $display(\"{}\");", self.st.ind, name));
                        }
                        2 => {
                            self.class("reported:always_latch");
                            let c = self.cond(&real, &funcs);
                            items.push(format!("{}always_latch if ({c}) {} = {e};", self.st.ind, target.name));
                            if let Some(oi) = out_index {
                                out_kind[oi] = 1;
                            }
                        }
                        _ => {
                            self.class("reported:descending-for");
                            let n = target.w;
                            let mut b: Vec<String> = vec![];
                            self.block_open(&mut b, 1, "always_comb");
                            self.block_open(&mut b, 2, &format!("for (int i = {}; i >= 0; i--)", n - 1));
                            push(&mut b, self.st.ind, 3, &format!("{}[i] = i[0];", target.name));
                            push(&mut b, self.st.ind, 2, "end");
                            push(&mut b, self.st.ind, 1, "end");
                            items.extend(b);
                            if let Some(oi) = out_index {
                                out_kind[oi] = 1;
                            }
                        }
                    }
                }
                _ => {
                    // small memory read through an index (finding Unpacked) — otherwise an assignment
                    let idx: Vec<Sig> = real.iter().filter(|s| s.w == 2).cloned().collect();
                    if idx.is_empty() || !self.hz(Hz::Unpacked, 1, 1) {
                        self.class("item:assign");
                        let e = self.rhs(&real, &funcs, 2);
                        items.push(format!("{}assign {} = {e};", self.st.ind, target.name));
                    } else {
                        self.class("item:unpacked-array");
                        let m = self.fresh("mem");
                        let d = self.dim(target.w, wp);
                        let rng = if self.d.bool() { "[0:3]" } else { "[4]" };
                        decls.push(format!("logic {d}{m} {rng};"));
                        for k in 0..4 {
                            let e = self.rhs(&real, &funcs, 2);
                            items.push(format!("{}assign {m}[{k}] = {e};", self.st.ind));
                        }
                        let i = idx[self.d.below_usize(idx.len())].name.clone();
                        items.push(format!("{}assign {} = {m}[{i}];", self.st.ind, target.name));
                    }
                }
            }
            if drive_out {
                continue;
            }
            let mut t = target.clone();
            if decl_kw == "wire" && t.signed && !self.hz(Hz::WireSigned, 1, 1) {
                t.signed = false;
            }
            let two_state = decl_kw == "logic" && self.d.chance(1, 12);
            let kw = if two_state { "bit" } else { decl_kw };
            if kw != "logic" {
                self.class(&format!("decl:{kw}"));
            }
            let tt = self.type_text(kw, &t, wp);
            decls.push(format!("{tt}{};", t.name));
            av.push(t);
        }

        // ---- now the header text of the outputs
        for (i, s) in outputs.iter().enumerate() {
            let kw = match out_kind[i] {
                1 => *self.d.pick(&["logic", "logic", "reg"]),
                _ => *self.d.pick(&["logic", "logic", "wire", ""]),
            };
            if kw != "logic" {
                self.class(&format!("port-style:output {kw}"));
            }
            let t = self.type_text(kw, s, wp);
            port_txt[port_out_idx[i]] = format!("output {t}{}", s.name);
        }

        // ---- print
        if self.d.chance(self.st.comments, 1000) {
            out.push(format!("// {name}: generated block"));
        }
        let mut head = format!("module {name}");
        if !params_txt.is_empty() {
            if params_txt.len() == 1 && self.d.bool() {
                head.push_str(&format!(" #({})", params_txt[0]));
            } else {
                head.push_str(" #(\n");
                let n = params_txt.len();
                for (i, p) in params_txt.iter().enumerate() {
                    head.push_str(&format!("{}{p}{}\n", self.st.ind, if i + 1 < n { "," } else { "" }));
                }
                head.push(')');
            }
        }
        if self.st.port_lines {
            head.push_str(" (\n");
            let n = port_txt.len();
            for (i, p) in port_txt.iter().enumerate() {
                // a comment after the separator is harmless; after the last port name
                // there is no separator (finding TrailingComment)
                let c = if i + 1 < n {
                    self.comment()
                } else if self.st.comments > 0 && self.hz(Hz::TrailingComment, 1, 3) {
                    " // last port".to_string()
                } else {
                    String::new()
                };
                head.push_str(&format!("{}{p}{}{c}\n", self.st.ind, if i + 1 < n { "," } else { "" }));
            }
            head.push_str(");");
        } else {
            head.push_str(&format!(" ({});", port_txt.join(", ")));
        }
        out.push(head);
        for l in &lps {
            push(&mut out, self.st.ind, 1, l);
        }
        for l in &decls {
            push(&mut out, self.st.ind, 1, l);
        }
        if !decls.is_empty() || !lps.is_empty() {
            out.push(String::new());
        }
        out.extend(funcs_txt);
        out.extend(items);
        if self.st.end_label {
            out.push(format!("endmodule : {name}"));
        } else {
            out.push("endmodule".to_string());
        }
        out.push(String::new());

        let mut ports: Vec<(Sig, bool)> = vec![];
        for s in &inputs {
            ports.push((s.clone(), true));
        }
        for s in &outputs {
            ports.push((s.clone(), false));
        }
        let info = ModInfo {
            name: name.to_string(),
            ports,
            param: iparam.clone(),
        };
        (out, info)
    }
}

/// One case.  `allow` = the finding shapes that may appear (empty for the
/// main search).
pub fn gen_case(d: &mut Draw, allow: &BTreeSet<Hz>) -> Case {
    let st = Style {
        ind: *d.pick(&["    ", "  ", "\t", "   "]),
        sp: d.chance(4, 5),
        comments: *d.pick(&[0u32, 60, 200]),
        begin_nl: d.chance(1, 5),
        full_parens: d.chance(1, 3),
        gen_kw: d.bool(),
        end_label: d.chance(1, 5),
        port_lines: d.chance(3, 4),
        align: d.bool(),
    };
    let mut g = G {
        d,
        allow: allow.clone(),
        used: BTreeSet::new(),
        excluded: BTreeMap::new(),
        classes: BTreeSet::new(),
        ops: 0,
        procs: 0,
        st,
        uniq: 0,
        clock: ClockCfg::default(),
        sim_rewrites: vec![],
    };
    if allow.contains(&Hz::TrailingComment) {
        g.st.comments = 200;
        g.st.port_lines = true;
    }
    let with_ff = g.hz(Hz::Ff, 2, 5);
    let mut n_children = g.d.weighted(&[5, 3, 1]);
    if allow.contains(&Hz::InstParam) || allow.contains(&Hz::InstOrdered) {
        n_children = n_children.max(1);
    }
    let mut children: Vec<ModInfo> = vec![];
    let mut texts: Vec<Vec<String>> = vec![];
    for i in 0..n_children {
        let name = format!("{}{}", *g.d.pick(&["sub", "leaf", "cell_m", "blk"]), i);
        let (t, info) = g.module(&name, &[], false, 2, false);
        children.push(info);
        texts.push(t);
    }
    let top = (*g.d.pick(&["top", "dut", "core", "alu_unit"])).to_string();
    let (t, _) = g.module(&top, &children, true, 5, with_ff);
    if g.d.chance(1, 4) {
        texts.insert(0, t);
    } else {
        texts.push(t);
    }
    let mut sv = String::new();
    if g.st.comments > 0 {
        sv.push_str("// Generated test design\n// (c) nobody\n\n");
    }
    for t in texts {
        sv.push_str(&t.join("\n"));
        sv.push('\n');
    }
    let mut sv_sim = sv.clone();
    for (from, to) in &g.sim_rewrites {
        sv_sim = sv_sim.replace(from, to);
    }
    if g.st.sp {
        g.class("style:spaced-operators");
    } else {
        g.class("style:dense-operators");
    }
    if g.st.full_parens {
        g.class("style:full-parentheses");
    } else {
        g.class("style:minimal-parentheses");
    }
    if g.st.comments > 0 {
        g.class("style:comments");
    }
    if g.st.begin_nl {
        g.class("style:begin-on-own-line");
    }
    if g.st.ind == "\t" {
        g.class("style:tabs");
    }
    if n_children > 0 {
        g.class("hierarchy");
    }
    Case {
        sv,
        sv_sim,
        top,
        clock: g.clock.clone(),
        classes: g.classes,
        hazards: g.used,
        excluded: g.excluded,
        ops: g.ops,
        procs: g.procs,
    }
}
