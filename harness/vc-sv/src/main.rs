mod c01;
mod c22;
mod c26;
mod common;
mod dev;
mod suspects;

fn main() {
    let args: Vec<String> = std::env::args().skip(1).collect();
    let id = args.first().cloned().unwrap_or_default();
    if id == "DEV" {
        // developer entry point (not a check): see dev.rs
        dev::main(&args[1..]);
        return;
    }
    vcore::quiet_panics();
    let ctx = vcore::Ctx::new(&id, &args[1.min(args.len())..]);
    match id.as_str() {
        "C01" => c01::run(&ctx),
        "C22" => c22::run(&ctx),
        "C26" => c26::run(&ctx),
        _ => {
            eprintln!("unknown property id {id:?}");
            std::process::exit(2);
        }
    }
}
