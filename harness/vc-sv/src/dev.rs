//! Developer tool (not a check): `vc-sv DEV dump N DIR [SEED]` writes N
//! generated designs (Veryl + emitted SV) to DIR; `vc-sv DEV run N [SEED]`
//! runs N C01 cases from a private PRNG and prints every outcome that is not
//! a pass.
use crate::c01;
use crate::common;
use vcore::{Draw, Outcome};

fn splitmix(s: &mut u64) -> u64 {
    *s = s.wrapping_add(0x9E3779B97F4A7C15);
    let mut z = *s;
    z = (z ^ (z >> 30)).wrapping_mul(0xBF58476D1CE4E5B9);
    z = (z ^ (z >> 27)).wrapping_mul(0x94D049BB133111EB);
    z ^ (z >> 31)
}

fn choices(seed: u64, i: usize) -> Vec<u32> {
    let mut s = seed.wrapping_mul(1_000_003).wrapping_add(i as u64);
    (0..12000).map(|_| splitmix(&mut s) as u32).collect()
}

pub fn main(args: &[String]) {
    let mode = args.first().map(|s| s.as_str()).unwrap_or("");
    let n: usize = args.get(1).and_then(|s| s.parse().ok()).unwrap_or(10);
    match mode {
        "dump" => {
            let dir = args.get(2).cloned().unwrap_or_else(|| ".".into());
            let seed: u64 = args.get(3).and_then(|s| s.parse().ok()).unwrap_or(1);
            std::fs::create_dir_all(&dir).unwrap();
            for i in 0..n {
                let ch = choices(seed, i);
                let dir = dir.clone();
                std::thread::Builder::new()
                    .stack_size(16 << 20)
                    .spawn(move || {
                        let mut d = Draw::new(ch);
                        let cfg = vdesign::GenCfg {
                            max_width: 80,
                            unguarded_per_mille: 0,
                            ..Default::default()
                        };
                        let g = vdesign::gen_design(&mut d, &cfg);
                        let combo = c01::draw_combo(&mut d);
                        let text = c01::retype(&vdesign::print_design(&g.design), &combo);
                        let mut md = common::project_metadata();
                        combo.apply(&mut md);
                        std::fs::write(format!("{dir}/d{i}.veryl"), &text).unwrap();
                        match common::build(&text, &md) {
                            Ok(b) => std::fs::write(format!("{dir}/d{i}.sv"), &b.sv).unwrap(),
                            Err(e) => println!("d{i}: {e:?}"),
                        }
                    })
                    .unwrap()
                    .join()
                    .unwrap();
            }
        }
        "run" => {
            let seed: u64 = args.get(2).and_then(|s| s.parse().ok()).unwrap_or(1);
            let verbose = args.iter().any(|a| a == "-v");
            let small = args.iter().any(|a| a == "--small");
            let mut pass = 0;
            let mut nt = 0;
            let mut skips: std::collections::BTreeMap<String, usize> = Default::default();
            let mut fails: std::collections::BTreeMap<String, usize> = Default::default();
            for i in 0..n {
                let ch = choices(seed, i);
                let out = std::thread::Builder::new()
                    .stack_size(16 << 20)
                    .spawn(move || {
                        let mut d = Draw::new(ch);
                        let mut cfg = vdesign::GenCfg {
                            max_width: 80,
                            unguarded_per_mille: 0,
                            ..Default::default()
                        };
                        if let Ok(off) = std::env::var("VC_OFF") {
                            let v: Vec<&str> = off.split(',').collect();
                            c01::apply_off(&mut cfg, &v);
                        }
                        if small {
                            cfg.max_width = 12;
                            cfg.max_items = 2;
                            cfg.max_inputs = 2;
                            cfg.max_outputs = 2;
                            cfg.expr_depth = 2;
                            cfg.insts = false;
                            cfg.functions = false;
                        }
                        let stats = c01::Stats::default();
                        c01::one_case(&mut d, &cfg, 24, &stats, true)
                    })
                    .unwrap()
                    .join();
                match out {
                    Ok(Outcome::Pass(ci)) => {
                        pass += 1;
                        if ci.nontrivial {
                            nt += 1;
                        }
                    }
                    Ok(Outcome::Skip(reason)) => *skips.entry(reason).or_default() += 1,
                    Ok(Outcome::Fail(f)) => {
                        let first = *fails.entry(f.signature.clone()).or_default() == 0;
                        *fails.entry(f.signature.clone()).or_default() += 1;
                        if first || verbose {
                            println!("==== case {i}: FAIL {}\n{}", f.signature, f.message);
                            if let Some(v) = f.input.get("veryl").and_then(|v| v.as_str()) {
                                println!("{v}");
                            }
                            if let Some(v) = f.input.get("sv").and_then(|v| v.as_str()) {
                                println!("{v}");
                            }
                            println!("{}", f.input.get("detail").cloned().unwrap_or_default());
                        }
                    }
                    Err(_) => *fails.entry("panic".into()).or_default() += 1,
                }
            }
            println!("pass {pass} (nontrivial {nt}) of {n}");
            for (k, v) in skips {
                println!("  skip {v:4} {k}");
            }
            for (k, v) in fails {
                println!("  FAIL {v:4} {k}");
            }
        }
        "file" => {
            // DEV file N F.veryl [clock_type] [reset_type] [-q]
            let path = args.get(2).cloned().unwrap_or_default();
            let ct = args.get(3).cloned().unwrap_or_else(|| "posedge".into());
            let rt = args.get(4).cloned().unwrap_or_else(|| "async_low".into());
            let text = std::fs::read_to_string(&path).unwrap();
            let combo = c01::combo_from(&text, &ct, &rt);
            match c01::run_text(&text, &combo, n, 12345) {
                Err(e) => println!("{e}"),
                Ok(r) => {
                    if !args.iter().any(|a| a == "-q") {
                        println!("{}", r.sv);
                    }
                    if let Some(w) = &r.scalar_select {
                        println!("note: {w}");
                    }
                    for (i, (row, v)) in r.sv_rows.iter().zip(&r.veryl.steps).enumerate() {
                        let ins: Vec<String> = r.stim.inputs.iter().zip(&r.stim.steps[i].values).map(|(p, v)| format!("{}={:x}", p.name, v)).collect();
                        println!("step {i} {}", ins.join(" "));
                        for (k, o) in r.stim.outputs.iter().enumerate() {
                            let vb = vsv::Bv::from_biguint(&v[k].value, o.width, false);
                            let same = row[k].bits() == vb.bits();
                            println!("   {:8} sv {}   veryl {}'h{:x} {}", o.name, row[k], o.width, v[k].value, if same { "" } else { "  <<<< differs" });
                        }
                    }
                }
            }
        }
        _ => eprintln!("usage: vc-sv DEV dump N DIR [SEED] | run N [SEED] [-v] | file F.veryl N [clock_type] [reset_type]"),
    }
}
