//! C22 pipeline: SystemVerilog text → `veryl_translator::translate_str` (the
//! call `cmd_translate.rs` makes: format = true unless `--no-format`,
//! `NewlineStyle::Auto` outside a project) → Veryl parse → analysis (the four
//! passes of `cmd_build`) → emission → `vsv` simulation of the original text
//! against the re-emitted text on one stimulus.
//! Must run on a fresh thread per case (thread-local analyzer tables).

use std::path::PathBuf;
use veryl_analyzer::ir as air;
use veryl_analyzer::{Analyzer, Context, symbol_table};
use veryl_emitter::Emitter;
use veryl_metadata::{ClockType, Metadata, NewlineStyle, ResetType};
use veryl_parser::Parser;
use vsv::ast::Dir;
use vsv::{Bit, Bv, Pins, Sim};

/// How the clock / reset of the generated SystemVerilog are meant; the
/// project settings (`[build] clock_type / reset_type`) a user would choose
/// for the translated file follow from it.
#[derive(Clone, Debug, Default)]
pub struct ClockCfg {
    /// (port, posedge)
    pub clock: Option<(String, bool)>,
    /// (port, active high, synchronous)
    pub reset: Option<(String, bool, bool)>,
}

impl ClockCfg {
    pub fn metadata(&self) -> Metadata {
        let mut md = Metadata::create_default("prj").expect("default metadata");
        if let Some((_, pos)) = &self.clock {
            md.build.clock_type = if *pos { ClockType::PosEdge } else { ClockType::NegEdge };
        }
        if let Some((_, high, sync)) = &self.reset {
            md.build.reset_type = match (*high, *sync) {
                (false, false) => ResetType::AsyncLow,
                (true, false) => ResetType::AsyncHigh,
                (false, true) => ResetType::SyncLow,
                (true, true) => ResetType::SyncHigh,
            };
        }
        md
    }
    pub fn toml(&self) -> String {
        let md = self.metadata();
        format!(
            "[build]\nclock_type = \"{}\"\nreset_type = \"{}\"\n",
            match md.build.clock_type {
                ClockType::PosEdge => "posedge",
                ClockType::NegEdge => "negedge",
            },
            match md.build.reset_type {
                ResetType::AsyncLow => "async_low",
                ResetType::AsyncHigh => "async_high",
                ResetType::SyncLow => "sync_low",
                ResetType::SyncHigh => "sync_high",
            }
        )
    }
    pub fn pins(&self) -> Pins {
        Pins {
            clock: self.clock.clone(),
            reset: self.reset.as_ref().map(|(n, h, _)| (n.clone(), *h)),
        }
    }
}

pub struct Translated {
    pub veryl: String,
    /// `kind` of every reported unsupported construct
    pub unsupported: Vec<String>,
}

/// `Err` = sv-parser rejected the text (the generator wrote something that is
/// not SystemVerilog: never the translator's fault).
pub fn translate(sv: &str) -> Result<Translated, String> {
    let out = veryl_translator::translate_str(sv, "top.sv", true, NewlineStyle::Auto).map_err(|e| e.to_string())?;
    Ok(Translated {
        veryl: out.veryl,
        unsupported: out.unsupported.iter().map(|u| u.kind.clone()).collect(),
    })
}

#[derive(Debug)]
pub enum BuildErr {
    Parse(String),
    /// (variant name of the AnalyzerError, message)
    Analyze(Vec<(String, String)>),
}

pub struct Built {
    pub sv: String,
    pub warnings: Vec<(String, String)>,
}

fn variant_name<T: std::fmt::Debug>(e: &T) -> String {
    let s = format!("{e:?}");
    s.chars().take_while(|c| c.is_ascii_alphanumeric() || *c == '_').collect()
}

/// parse → pass1 → post_pass1 → pass2 → post_pass2 → emit (one file, project `prj`).
pub fn build(text: &str, md: &Metadata) -> Result<Built, BuildErr> {
    symbol_table::clear();
    let parser = Parser::parse(text, &"top.veryl").map_err(|e| BuildErr::Parse(e.to_string()))?;
    let analyzer = Analyzer::new(md);
    let prj = md.project.name.clone();
    let mut context = Context::default();
    let mut ir = air::Ir::default();
    let mut errors = vec![];
    errors.append(&mut analyzer.analyze_pass1(&prj, &parser.veryl));
    errors.append(&mut Analyzer::analyze_post_pass1());
    errors.append(&mut analyzer.analyze_pass2(&parser.veryl, &mut context, Some(&mut ir)));
    errors.append(&mut Analyzer::analyze_post_pass2(&ir));
    let errs: Vec<(String, String)> = errors.iter().filter(|e| e.is_error()).map(|e| (variant_name(e), e.to_string())).collect();
    let warnings: Vec<(String, String)> = errors.iter().filter(|e| !e.is_error()).map(|e| (variant_name(e), e.to_string())).collect();
    if !errs.is_empty() {
        return Err(BuildErr::Analyze(errs));
    }
    let src = PathBuf::from("top.veryl");
    let dst = PathBuf::from("top.sv");
    let map = PathBuf::from("top.sv.map");
    let mut emitter = Emitter::new(md, &prj, &src, &dst, &map);
    emitter.emit(&parser.veryl, text);
    Ok(Built {
        sv: emitter.as_str().to_string(),
        warnings,
    })
}

#[derive(Clone, Debug)]
pub struct PortSpec {
    pub name: String,
    pub width: usize,
    pub signed: bool,
    pub input: bool,
}

#[derive(Clone, Debug, Default)]
pub struct Stim {
    /// data inputs (clock / reset excluded), in port order
    pub inputs: Vec<PortSpec>,
    pub outputs: Vec<PortSpec>,
    /// per cycle: (reset asserted, one value per data input)
    pub steps: Vec<(bool, Vec<Bv>)>,
}

pub fn port_specs(sim: &Sim) -> Vec<PortSpec> {
    sim.ports()
        .iter()
        .map(|p| PortSpec {
            name: p.name.clone(),
            width: p.width,
            signed: p.signed,
            input: p.dir == Dir::Input,
        })
        .collect()
}

/// One row of outputs per step.
pub fn run_sim(sim: &mut Sim, pins: &Pins, stim: &Stim) -> Result<Vec<Vec<Bv>>, vsv::Unsupported> {
    let zero: Vec<(String, Bv)> = stim.inputs.iter().map(|p| (p.name.clone(), Bv::zeros(p.width, false))).collect();
    sim.tb_init(pins, &zero)?;
    let mut rows = vec![];
    for (reset, values) in &stim.steps {
        let ins: Vec<(String, Bv)> = stim.inputs.iter().zip(values).map(|(p, v)| (p.name.clone(), v.clone())).collect();
        let junk: Vec<(String, Bv)> = stim.inputs.iter().zip(values).map(|(p, v)| (p.name.clone(), v.not())).collect();
        sim.tb_cycle(pins, &junk, &ins, *reset)?;
        let mut row = vec![];
        for o in &stim.outputs {
            let Some(v) = sim.get(&o.name) else {
                return Err(vsv::Unsupported::new(format!("no port {}", o.name)));
            };
            row.push(v);
        }
        rows.push(row);
    }
    Ok(rows)
}

#[derive(Debug)]
pub struct Mismatch {
    pub step: usize,
    pub output: String,
    pub orig: Bv,
    pub emitted: Bv,
}

#[derive(Debug, Default)]
pub struct CmpStats {
    pub compared_bits: u64,
    /// bits unknown in the original simulation (not compared)
    pub x_bits: u64,
    /// some output took >= 3 distinct fully known values
    pub lively: bool,
}

/// Bits that are 0/1 in the simulation of the original text must be equal in
/// the simulation of the re-emitted text; unknown bits of the original are a
/// don't-care (the original itself does not define them).
pub fn compare(orig: &[Vec<Bv>], emitted: &[Vec<Bv>], outputs: &[PortSpec]) -> (CmpStats, Option<Mismatch>) {
    let mut st = CmpStats::default();
    let mut distinct: Vec<std::collections::BTreeSet<String>> = vec![Default::default(); outputs.len()];
    let mut mm = None;
    for (si, (ro, re)) in orig.iter().zip(emitted).enumerate() {
        for (oi, (o, e)) in ro.iter().zip(re).enumerate() {
            if !o.has_xz() {
                distinct[oi].insert(o.to_string());
            }
            for k in 0..o.width() {
                match o.bit(k) {
                    Bit::X | Bit::Z => st.x_bits += 1,
                    b => {
                        st.compared_bits += 1;
                        if (k >= e.width() || e.bit(k) != b) && mm.is_none() {
                            mm = Some(Mismatch {
                                step: si,
                                output: outputs[oi].name.clone(),
                                orig: o.clone(),
                                emitted: e.clone(),
                            });
                        }
                    }
                }
            }
        }
    }
    st.lively = distinct.iter().any(|s| s.len() >= 3);
    (st, mm)
}
