//! C01 — the emitted SystemVerilog behaves like the Veryl design, under every
//! `[build] clock_type` × `reset_type` and every explicit clock / reset type.
//!
//! Per generated case: a `vdesign` design (vsv dialect) × stimulus × one
//! configuration.  (a) analyze + emit with that `Metadata`, parse / elaborate
//! the text with `vsv` and drive the raw pins the way the configuration
//! prescribes; (b) veryl's own simulator built from the same analysis with
//! the `Config` fields `cmd_test` derives from the metadata.  Oracle 1: every
//! output equal after every cycle.  Oracle 2 (structural): every `always_ff`
//! header and `if_reset` condition of the emitted text matches the table
//! written from the documented meaning of the type keywords and settings.

use crate::common::{self, BuildErr};
use serde_json::json;
use std::collections::{BTreeMap, BTreeSet};
use vcore::{CaseCfg, Ctx, Draw, Outcome, hash_str};
use vdesign::{Analyzed, Design, GenCfg, Item, Stimulus, gen_design, gen_stimulus, print_design, reference_trace};
use veryl_metadata::{ClockType, Metadata, ResetType};
use veryl_simulator::Config;
use vsv::ast as sva;
use vsv::{Bit, Bv, Pins, Sim};

// ----- configuration space ------------------------------------------------------

#[derive(Clone, Copy, Debug, PartialEq, Eq)]
pub enum ClockKind {
    Abstract,
    Posedge,
    Negedge,
}

#[derive(Clone, Copy, Debug, PartialEq, Eq)]
pub enum ResetKind {
    Abstract,
    AsyncHigh,
    AsyncLow,
    SyncHigh,
    SyncLow,
}

#[derive(Clone, Copy, Debug)]
pub struct Combo {
    pub clock_type: ClockType,
    pub reset_type: ResetType,
    pub clock_kind: ClockKind,
    pub reset_kind: ResetKind,
}

/// What the documentation says a configuration means
/// (book, "Clock / Reset": `clock` takes its edge from `clock_type`,
/// `clock_posedge` / `clock_negedge` fix it; `reset` takes polarity and
/// synchronicity from `reset_type`, `reset_{async,sync}_{high,low}` fix both).
#[derive(Clone, Copy, Debug, PartialEq, Eq)]
pub struct Meaning {
    pub clock_posedge: bool,
    pub reset_high: bool,
    pub reset_sync: bool,
}

impl Combo {
    pub fn meaning(&self) -> Meaning {
        let clock_posedge = match self.clock_kind {
            ClockKind::Abstract => self.clock_type == ClockType::PosEdge,
            ClockKind::Posedge => true,
            ClockKind::Negedge => false,
        };
        let (reset_high, reset_sync) = match self.reset_kind {
            ResetKind::Abstract => match self.reset_type {
                ResetType::AsyncLow => (false, false),
                ResetType::AsyncHigh => (true, false),
                ResetType::SyncLow => (false, true),
                ResetType::SyncHigh => (true, true),
            },
            ResetKind::AsyncHigh => (true, false),
            ResetKind::AsyncLow => (false, false),
            ResetKind::SyncHigh => (true, true),
            ResetKind::SyncLow => (false, true),
        };
        Meaning {
            clock_posedge,
            reset_high,
            reset_sync,
        }
    }
    pub fn clock_kw(&self) -> &'static str {
        match self.clock_kind {
            ClockKind::Abstract => "clock",
            ClockKind::Posedge => "clock_posedge",
            ClockKind::Negedge => "clock_negedge",
        }
    }
    pub fn reset_kw(&self) -> &'static str {
        match self.reset_kind {
            ResetKind::Abstract => "reset",
            ResetKind::AsyncHigh => "reset_async_high",
            ResetKind::AsyncLow => "reset_async_low",
            ResetKind::SyncHigh => "reset_sync_high",
            ResetKind::SyncLow => "reset_sync_low",
        }
    }
    pub fn toml(&self) -> String {
        format!(
            "[build]\nclock_type = \"{}\"\nreset_type = \"{}\"\n",
            match self.clock_type {
                ClockType::PosEdge => "posedge",
                ClockType::NegEdge => "negedge",
            },
            match self.reset_type {
                ResetType::AsyncLow => "async_low",
                ResetType::AsyncHigh => "async_high",
                ResetType::SyncLow => "sync_low",
                ResetType::SyncHigh => "sync_high",
            }
        )
    }
    pub fn label(&self) -> String {
        format!(
            "{}/{}",
            match self.clock_type {
                ClockType::PosEdge => "posedge",
                ClockType::NegEdge => "negedge",
            },
            match self.reset_type {
                ResetType::AsyncLow => "async_low",
                ResetType::AsyncHigh => "async_high",
                ResetType::SyncLow => "sync_low",
                ResetType::SyncHigh => "sync_high",
            }
        )
    }
    pub fn apply(&self, md: &mut Metadata) {
        md.build.clock_type = self.clock_type;
        md.build.reset_type = self.reset_type;
    }
    /// The simulator `Config` exactly as `cmd_test.rs` derives it from the metadata.
    pub fn sim_config(&self, md: &Metadata) -> Config {
        Config {
            use_jit: false,
            use_4state: false,
            abstract_reset_active_high: matches!(md.build.reset_type, ResetType::AsyncHigh | ResetType::SyncHigh),
            abstract_reset_sync: matches!(md.build.reset_type, ResetType::SyncHigh | ResetType::SyncLow),
            ..Config::default()
        }
    }
}

pub fn draw_combo(d: &mut Draw) -> Combo {
    // simplest first: posedge / async_low / abstract types
    let clock_type = *d.pick(&[ClockType::PosEdge, ClockType::NegEdge]);
    let reset_type = *d.pick(&[ResetType::AsyncLow, ResetType::AsyncHigh, ResetType::SyncLow, ResetType::SyncHigh]);
    let clock_kind = [ClockKind::Abstract, ClockKind::Posedge, ClockKind::Negedge][d.weighted(&[4, 1, 1])];
    let reset_kind =
        [ResetKind::Abstract, ResetKind::AsyncHigh, ResetKind::AsyncLow, ResetKind::SyncHigh, ResetKind::SyncLow][d.weighted(&[4, 1, 1, 1, 1])];
    Combo {
        clock_type,
        reset_type,
        clock_kind,
        reset_kind,
    }
}

/// The printer writes `name: input clock,` / `name: input reset,`; explicit
/// kinds replace the keyword in every module of the design.
pub fn retype(text: &str, c: &Combo) -> String {
    text.replace(": input clock,", &format!(": input {},", c.clock_kw())).replace(": input reset,", &format!(": input {},", c.reset_kw()))
}

// ----- structural oracle ----------------------------------------------------------

fn collect_ff<'a>(items: &'a [sva::Item], out: &mut Vec<(&'a Vec<(sva::Edge, sva::Expr)>, &'a sva::Stmt, u32)>) {
    for it in items {
        match it {
            sva::Item::AlwaysFf { events, body, line } => out.push((events, body, *line)),
            sva::Item::GenFor { items, .. } | sva::Item::GenBlock { items, .. } => collect_ff(items, out),
            sva::Item::GenIf { then, els, .. } => {
                collect_ff(then, out);
                if let Some((_, e)) = els {
                    collect_ff(e, out);
                }
            }
            _ => {}
        }
    }
}

fn simple_name(e: &sva::Expr) -> Option<&str> {
    match e {
        sva::Expr::Name(p) if p.scope.is_empty() => Some(&p.name),
        _ => None,
    }
}

/// Every `always_ff` of every module: sensitivity list and `if_reset`
/// condition against the table.  Returns (number checked, first deviation).
pub fn structural(src: &sva::SourceText, design: &Design, m: &Meaning) -> (usize, Option<String>) {
    let mut n = 0;
    for module in &design.modules {
        let Some(unit) = src.units.iter().find(|u| u.name == format!("prj_{}", module.name)) else {
            continue;
        };
        let clk = module.clock().map(|c| module.decls[c].name.clone());
        let rst = module.reset().map(|c| module.decls[c].name.clone());
        let mut ffs = vec![];
        collect_ff(&unit.items, &mut ffs);
        let expected_ffs = module.items.iter().filter(|i| matches!(i, Item::AlwaysFf { .. })).count();
        if ffs.len() != expected_ffs {
            return (n, Some(format!("module {}: {} always_ff blocks emitted for {} in the source", module.name, ffs.len(), expected_ffs)));
        }
        for (events, body, line) in ffs {
            n += 1;
            let (Some(clk), Some(rst)) = (&clk, &rst) else {
                return (n, Some(format!("module {} has an always_ff but no clock/reset port", module.name)));
            };
            let want_clk = if m.clock_posedge { sva::Edge::Pos } else { sva::Edge::Neg };
            let ev_txt = |ev: &Vec<(sva::Edge, sva::Expr)>| {
                ev.iter()
                    .map(|(e, x)| format!("{} {}", match e {
                        sva::Edge::Pos => "posedge",
                        sva::Edge::Neg => "negedge",
                        sva::Edge::Any => "edge",
                    }, simple_name(x).unwrap_or("<expr>")))
                    .collect::<Vec<_>>()
                    .join(", ")
            };
            let mut want = vec![(want_clk, clk.as_str())];
            if !m.reset_sync {
                want.push((if m.reset_high { sva::Edge::Pos } else { sva::Edge::Neg }, rst.as_str()));
            }
            let got: Vec<(sva::Edge, Option<&str>)> = events.iter().map(|(e, x)| (*e, simple_name(x))).collect();
            let same = got.len() == want.len() && got.iter().zip(&want).all(|(g, w)| g.0 == w.0 && g.1 == Some(w.1));
            if !same {
                let wtxt = want
                    .iter()
                    .map(|(e, n)| format!("{} {n}", if *e == sva::Edge::Pos { "posedge" } else { "negedge" }))
                    .collect::<Vec<_>>()
                    .join(", ");
                return (n, Some(format!("line {line}: always_ff @({}) but the configuration means @({wtxt})", ev_txt(events))));
            }
            // first statement: `if (rst)` / `if (!rst)`
            let first = match body {
                sva::Stmt::Block { stmts, .. } => stmts.first(),
                s => Some(s),
            };
            let Some(sva::Stmt::If { cond, .. }) = first else {
                return (n, Some(format!("line {line}: always_ff does not start with the reset condition")));
            };
            let (neg, name) = match cond {
                sva::Expr::Unary(sva::UnOp::LogNot, x) => (true, simple_name(x)),
                x => (false, simple_name(x)),
            };
            if name != Some(rst.as_str()) || neg == m.reset_high {
                return (
                    n,
                    Some(format!(
                        "line {line}: reset condition is {}{} but the configuration means {}{rst}",
                        if neg { "!" } else { "" },
                        name.unwrap_or("<expr>"),
                        if m.reset_high { "" } else { "!" }
                    )),
                );
            }
        }
    }
    (n, None)
}

// ----- dynamic oracle ----------------------------------------------------------------

fn to_bv(v: &num_bigint::BigUint, w: usize) -> Bv {
    Bv::from_biguint(v, w, false)
}

fn junk_of(v: &num_bigint::BigUint, w: usize) -> Bv {
    to_bv(v, w).not()
}

/// Drive the emitted text with `stim`; one row of outputs per step.
pub fn run_sv(sim: &mut Sim, pins: &Pins, stim: &Stimulus) -> Result<Vec<Vec<Bv>>, vsv::Unsupported> {
    let zero: Vec<(String, Bv)> = stim.inputs.iter().map(|p| (p.name.clone(), Bv::zeros(p.width, false))).collect();
    sim.tb_init(pins, &zero)?;
    let mut rows = vec![];
    for st in &stim.steps {
        let ins: Vec<(String, Bv)> = stim.inputs.iter().zip(&st.values).map(|(p, v)| (p.name.clone(), to_bv(v, p.width))).collect();
        let junk: Vec<(String, Bv)> = stim.inputs.iter().zip(&st.values).map(|(p, v)| (p.name.clone(), junk_of(v, p.width))).collect();
        sim.tb_cycle(pins, &junk, &ins, st.reset)?;
        let mut row = vec![];
        for o in &stim.outputs {
            let Some(v) = sim.get(&o.name) else {
                return Err(vsv::Unsupported::new(format!("emitted top module has no port {}", o.name)));
            };
            row.push(v);
        }
        rows.push(row);
    }
    Ok(rows)
}

fn design_stats(design: &Design) -> (usize, usize) {
    // (always_ff blocks, operators) over all modules
    fn ops_expr(e: &vdesign::Expr) -> usize {
        use vdesign::Expr::*;
        match e {
            Un(_, a) => 1 + ops_expr(a),
            Bin(_, a, b) => 1 + ops_expr(a) + ops_expr(b),
            If(c, a, b) => 1 + ops_expr(c) + ops_expr(a) + ops_expr(b),
            Case(s, arms, d) => 1 + ops_expr(s) + arms.iter().map(|a| ops_expr(&a.1)).sum::<usize>() + ops_expr(d),
            Switch(arms, d) => 1 + arms.iter().map(|a| ops_expr(&a.1) + a.0.iter().map(ops_expr).sum::<usize>()).sum::<usize>() + ops_expr(d),
            Concat(v) => 1 + v.iter().map(|x| ops_expr(&x.0)).sum::<usize>(),
            Cast(a, _) | Signed(a) | Unsigned(a) | Clog2(a) => 1 + ops_expr(a),
            Inside(a, _, _) => 1 + ops_expr(a),
            Call(_, args) => 1 + args.iter().map(ops_expr).sum::<usize>(),
            _ => 0,
        }
    }
    fn ops_stmts(v: &[vdesign::Stmt]) -> usize {
        v.iter()
            .map(|s| match s {
                vdesign::Stmt::Assign { rhs, .. } | vdesign::Stmt::AssignConcat { rhs, .. } => ops_expr(rhs),
                vdesign::Stmt::If { cond, then, els } => ops_expr(cond) + ops_stmts(then) + ops_stmts(els),
                vdesign::Stmt::Case { sel, arms, default } => {
                    ops_expr(sel) + arms.iter().map(|a| ops_stmts(&a.1)).sum::<usize>() + default.as_ref().map(|d| ops_stmts(d)).unwrap_or(0)
                }
                vdesign::Stmt::Switch { arms, default } => {
                    arms.iter().map(|a| ops_stmts(&a.1) + a.0.iter().map(ops_expr).sum::<usize>()).sum::<usize>()
                        + default.as_ref().map(|d| ops_stmts(d)).unwrap_or(0)
                }
                vdesign::Stmt::For { body, .. } => ops_stmts(body),
                vdesign::Stmt::Return(e) => ops_expr(e),
                _ => 0,
            })
            .sum()
    }
    let mut ff = 0;
    let mut ops = 0;
    for m in &design.modules {
        for it in &m.items {
            match it {
                Item::AlwaysFf { reset, body, .. } => {
                    ff += 1;
                    ops += ops_stmts(reset) + ops_stmts(body);
                }
                Item::Assign { rhs, .. } | Item::Let { rhs, .. } => ops += ops_expr(rhs),
                Item::AlwaysComb(b) => ops += ops_stmts(b),
                Item::Inst { .. } => {}
            }
        }
        for f in &m.funcs {
            ops += ops_stmts(&f.body);
        }
    }
    (ff, ops)
}

pub fn gen_cfg(ctx: &Ctx) -> GenCfg {
    GenCfg {
        max_width: if ctx.is_quick() { 80 } else { 200 },
        // x would be compared against a 2-state simulator: keep divisors / indices guarded
        unguarded_per_mille: 0,
        display: false,
        ..GenCfg::default()
    }
}

fn hexrow(row: &[Bv]) -> Vec<String> {
    row.iter().map(|v| v.to_string()).collect()
}

pub fn one_case(d: &mut Draw, cfg: &GenCfg, cycles: usize, stats: &Stats) -> Outcome {
    let g = gen_design(d, cfg);
    let design = &g.design;
    let combo = draw_combo(d);
    let meaning = combo.meaning();
    let text = retype(&print_design(design), &combo);
    let stim = gen_stimulus(d, design, cycles);
    let mut md = common::project_metadata();
    combo.apply(&mut md);

    let built = match common::build(&text, &md) {
        Ok(b) => b,
        Err(BuildErr::Parse(e)) => return Outcome::skip(format!("generated design does not parse: {}", e.lines().next().unwrap_or(""))),
        Err(BuildErr::Analyze(e)) => {
            let first = e.first().cloned().unwrap_or_default();
            let code: String = first.split_whitespace().take(4).collect::<Vec<_>>().join(" ");
            return Outcome::skip(format!("generated design rejected by the analyzer: {code}"));
        }
    };
    let input = |extra: serde_json::Value| {
        json!({
            "veryl": text,
            "veryl_toml": combo.toml(),
            "clock_kind": combo.clock_kw(),
            "reset_kind": combo.reset_kw(),
            "sv": built.sv,
            "stimulus": stim.steps.iter().map(|s| json!({"reset": s.reset, "inputs": stim.inputs.iter().zip(&s.values).map(|(p, v)| format!("{}={}'h{:x}", p.name, p.width, v)).collect::<Vec<_>>()})).collect::<Vec<_>>(),
            "detail": extra,
        })
    };

    // ---- the emitted text: parse (also the structural oracle's input)
    let parsed = match vsv::parse::parse(&built.sv) {
        Ok(p) => p,
        Err(u) => {
            stats.unsupported(&u);
            return Outcome::skip(format!("vsv unsupported (parse): {}", u.class()));
        }
    };
    let (n_ff_checked, dev) = structural(&parsed, design, &meaning);
    if let Some(dev) = dev {
        let sig = if dev.contains("reset condition") {
            "structural/reset-condition"
        } else if dev.contains("always_ff @(") {
            "structural/sensitivity-list"
        } else {
            "structural/shape"
        };
        return Outcome::fail(sig, format!("{dev}\nconfiguration {} with `{}` / `{}`", combo.label(), combo.clock_kw(), combo.reset_kw()), input(json!({})));
    }

    // ---- (a) vsv on the emitted text
    let srcs = [parsed];
    let mut scalar_select = false;
    let mut sim = match Sim::from_parsed(&srcs, "prj_Top") {
        Ok(s) => s,
        Err(u) if u.reason.contains("select of a scalar") => {
            // The emitter copies `v[0]`, `v[0:0]`, `v[0+:1]` of a 1-bit `logic v`
            // verbatim; a scalar has no range in IEEE 1800 and standard tools
            // reject the select.  Known finding, shown at a low rate; otherwise
            // the text is read with the select meaning `[0:0]` so that the
            // search goes on.
            scalar_select = true;
            if d.chance(1, 60) {
                return Outcome::fail(
                    "emitted-sv/select-of-scalar",
                    format!("the emitted text selects from a scalar, which IEEE 1800 does not allow ({})", u.reason),
                    input(json!({})),
                );
            }
            match Sim::from_parsed_opts(&srcs, "prj_Top", true) {
                Ok(s) => s,
                Err(u) => {
                    stats.unsupported(&u);
                    return Outcome::skip(format!("vsv unsupported (elaborate): {}", u.class()));
                }
            }
        }
        Err(u) => {
            stats.unsupported(&u);
            return Outcome::skip(format!("vsv unsupported (elaborate): {}", u.class()));
        }
    };
    let pins = Pins {
        clock: stim.clock.clone().map(|c| (c, meaning.clock_posedge)),
        reset: stim.reset.clone().map(|r| (r, meaning.reset_high)),
    };
    let sv_rows = match run_sv(&mut sim, &pins, &stim) {
        Ok(r) => r,
        Err(u) => {
            stats.unsupported(&u);
            return Outcome::skip(format!("vsv unsupported (run): {}", u.class()));
        }
    };

    // ---- (b) veryl's simulator on the same analysis
    let analyzed = Analyzed {
        ir: built.ir,
        warnings: built.warnings,
    };
    let config = combo.sim_config(&md);
    let vt = match std::panic::catch_unwind(std::panic::AssertUnwindSafe(|| analyzed.run("Top", &config, &stim))) {
        Ok(Ok(t)) => t,
        Ok(Err(e)) => {
            let first = e.lines().next().unwrap_or("").to_string();
            return Outcome::skip(format!("veryl simulator cannot build the design: {}", first.split_whitespace().take(6).collect::<Vec<_>>().join(" ")));
        }
        Err(_) => return Outcome::skip("veryl simulator panicked (C11 / C02 domain)"),
    };

    // ---- compare
    let mut x_bits = 0u64;
    let mut compared = 0u64;
    let mut distinct: Vec<BTreeSet<String>> = vec![BTreeSet::new(); stim.outputs.len()];
    let mut mismatch: Option<(usize, usize)> = None;
    for (si, (srow, vrow)) in sv_rows.iter().zip(&vt.steps).enumerate() {
        for (oi, (s, v)) in srow.iter().zip(vrow).enumerate() {
            let vb = to_bv(&v.value, stim.outputs[oi].width);
            if s.width() != vb.width() {
                return Outcome::fail(
                    "port-width",
                    format!("output {} is {} bits wide in the emitted module, {} in the design", stim.outputs[oi].name, s.width(), vb.width()),
                    input(json!({})),
                );
            }
            if !s.has_xz() {
                distinct[oi].insert(s.to_string());
            }
            for k in 0..s.width() {
                match s.bit(k) {
                    Bit::X | Bit::Z => x_bits += 1,
                    b => {
                        compared += 1;
                        if b != vb.bit(k) && mismatch.is_none() {
                            mismatch = Some((si, oi));
                        }
                    }
                }
            }
        }
    }
    if let Some((si, oi)) = mismatch {
        // third opinion: the design generator's own reference evaluator
        let rt = reference_trace(design, &stim);
        let r = &rt.steps[si][oi];
        let s = &sv_rows[si][oi];
        let v = &vt.steps[si][oi];
        let w = stim.outputs[oi].width;
        let ref_bv = to_bv(&r.v, w);
        let veryl_bv = to_bv(&v.value, w);
        let agree = if r.x {
            "ref-unknown"
        } else if ref_bv.bits() == veryl_bv.bits() {
            "ref=veryl-sim"
        } else if ref_bv.bits() == s.bits() {
            "ref=sv"
        } else {
            "all-differ"
        };
        let sig = format!("trace/{agree}");
        let msg = format!(
            "output {} after step {si}: emitted SV (vsv) {} , veryl simulator {}'h{:x}, reference evaluator {}\nconfiguration {} with `{}` / `{}`",
            stim.outputs[oi].name,
            s,
            w,
            v.value,
            if r.x { "unknown".to_string() } else { format!("{w}'h{:x}", r.v) },
            combo.label(),
            combo.clock_kw(),
            combo.reset_kw()
        );
        return Outcome::fail(
            sig,
            msg,
            input(json!({
                "sv_trace": sv_rows.iter().map(|r| hexrow(r)).collect::<Vec<_>>(),
                "veryl_trace": vt.steps.iter().map(|r| r.iter().map(|s| format!("{:x}", s.value)).collect::<Vec<_>>()).collect::<Vec<_>>(),
                "outputs": stim.outputs.iter().map(|o| o.name.clone()).collect::<Vec<_>>(),
            })),
        );
    }

    // ---- classes / non-triviality
    let (n_ff, n_ops) = design_stats(design);
    let lively = distinct.iter().any(|s| s.len() >= 3);
    let nontrivial = n_ff >= 1 && n_ops >= 2 && lively;
    let mut classes: Vec<String> = vec![
        format!("cfg:{}", combo.label()),
        format!("clock_kind:{}", combo.clock_kw()),
        format!("reset_kind:{}", combo.reset_kw()),
        format!("means:{}+{}{}", if meaning.clock_posedge { "posedge" } else { "negedge" }, if meaning.reset_sync { "sync" } else { "async" }, if meaning.reset_high { "_high" } else { "_low" }),
        format!("ff_blocks:{}", match n_ff {
            0 => "0",
            1 => "1",
            2..=3 => "2-3",
            _ => "4+",
        }),
        format!("always_ff_checked:{}", if n_ff_checked > 0 { "yes" } else { "no" }),
    ];
    if x_bits > 0 {
        classes.push("sv_has_x_bits".into());
    }
    if scalar_select {
        classes.push("excluded_finding:select-of-scalar(read as [0:0])".into());
    }
    if design.modules.len() > 1 {
        classes.push("hierarchy".into());
    }
    if stim.steps.iter().skip(2).any(|s| s.reset) {
        classes.push("midrun_reset".into());
    }
    for c in &g.classes {
        if c.starts_with("item:") || c.starts_with("stmt:") || c.starts_with("feat:") {
            classes.push(c.clone());
        }
    }
    stats.add_compared(compared, x_bits);
    let sample = format!("// {} clock={} reset={}\n{}", combo.label(), combo.clock_kw(), combo.reset_kw(), text);
    Outcome::pass(hash_str(&sample), nontrivial, classes, sample)
}

#[derive(Default)]
pub struct Stats {
    inner: std::sync::Mutex<StatsInner>,
}

#[derive(Default)]
struct StatsInner {
    unsupported: BTreeMap<String, u64>,
    compared_bits: u64,
    x_bits: u64,
}

impl Stats {
    fn unsupported(&self, u: &vsv::Unsupported) {
        *self.inner.lock().unwrap().unsupported.entry(u.class()).or_default() += 1;
    }
    fn add_compared(&self, c: u64, x: u64) {
        let mut g = self.inner.lock().unwrap();
        g.compared_bits += c;
        g.x_bits += x;
    }
}

/// The 94 golden files of the emitter's own test suite: how many the front end reads.
fn golden_coverage(ctx: &Ctx) {
    let dir = format!("{}/testcases/sv", vcore::util::repo_root());
    let mut total = 0;
    let mut ok = 0;
    let mut reasons: BTreeMap<String, u64> = BTreeMap::new();
    if let Ok(rd) = std::fs::read_dir(&dir) {
        let mut files: Vec<_> = rd.flatten().map(|e| e.path()).filter(|p| p.extension().is_some_and(|x| x == "sv")).collect();
        files.sort();
        for f in files {
            let Ok(text) = std::fs::read_to_string(&f) else { continue };
            total += 1;
            match vsv::parse::parse(&text) {
                Ok(_) => ok += 1,
                Err(u) => *reasons.entry(u.class()).or_default() += 1,
            }
        }
    }
    ctx.note("golden_sv_files", json!(total));
    ctx.note("golden_sv_files_parsed", json!(ok));
    ctx.note("golden_sv_unsupported", json!(reasons));
}

pub fn run(ctx: &Ctx) {
    let n = ctx.scale(400, 20_000);
    let cycles = if ctx.is_quick() { 24 } else { 100 };
    let cfg = gen_cfg(ctx);
    let stats = std::sync::Arc::new(Stats::default());
    golden_coverage(ctx);
    {
        let stats = stats.clone();
        ctx.run("design-config", CaseCfg::cases(n).choices(12_000).stack_mb(16), move |d: &mut Draw| one_case(d, &cfg, cycles, &stats));
    }
    {
        let g = stats.inner.lock().unwrap();
        ctx.note("vsv_unsupported", json!(g.unsupported));
        ctx.note("compared_bits", json!(g.compared_bits));
        ctx.note("sv_x_bits_not_compared", json!(g.x_bits));
    }
    ctx.assume("vsv (this harness' IEEE 1800 simulator built on vbv) is the \"standard SystemVerilog simulator\": no external one exists in the sandbox");
    ctx.assume("bits that are x/z in the SystemVerilog simulation are not compared with the 2-state veryl simulator");
    ctx.assume("the reset is held across at least one active clock edge (the simulator API has no reset pulse between edges)");
    ctx.finish(
        "translation_validation",
        "vdesign designs (vsv dialect) x stimulus x clock_type x reset_type x explicit clock/reset kinds; non-trivial = >= 1 always_ff, >= 2 operators, some output takes >= 3 distinct fully known values",
    );
}
