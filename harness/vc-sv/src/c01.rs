//! C01 — the emitted SystemVerilog behaves like the Veryl design, under every
//! `[build] clock_type` × `reset_type` and every explicit clock / reset type.
//!
//! Per generated case: a `vdesign` design (vsv dialect) × stimulus × one
//! configuration.  (a) analyze + emit with that `Metadata`, parse / elaborate
//! the text with `vsv` and drive the raw pins the way the configuration
//! prescribes; (b) veryl's own simulator built from the same analysis with
//! the `Config` fields `cmd_test` derives from the metadata.  Oracle 1: every
//! output equal after every cycle.  Oracle 2 (structural): every `always_ff`
//! header and `if_reset` condition of the emitted text matches the table
//! written from the documented meaning of the type keywords and settings.

use crate::common::{self, BuildErr};
use serde_json::json;
use std::collections::{BTreeMap, BTreeSet};
use vcore::{CaseCfg, Ctx, Draw, Outcome, hash_str};
use vdesign::{Analyzed, Design, GenCfg, Item, Stimulus, gen_design, gen_stimulus, print_design, reference_trace};
use veryl_metadata::{ClockType, Metadata, ResetType};
use veryl_simulator::Config;
use vsv::ast as sva;
use vsv::{Bit, Bv, Pins, Sim};

// ----- configuration space ------------------------------------------------------

#[derive(Clone, Copy, Debug, PartialEq, Eq)]
pub enum ClockKind {
    Abstract,
    Posedge,
    Negedge,
}

#[derive(Clone, Copy, Debug, PartialEq, Eq)]
pub enum ResetKind {
    Abstract,
    AsyncHigh,
    AsyncLow,
    SyncHigh,
    SyncLow,
}

#[derive(Clone, Copy, Debug)]
pub struct Combo {
    pub clock_type: ClockType,
    pub reset_type: ResetType,
    pub clock_kind: ClockKind,
    pub reset_kind: ResetKind,
}

/// What the documentation says a configuration means
/// (book, "Clock / Reset": `clock` takes its edge from `clock_type`,
/// `clock_posedge` / `clock_negedge` fix it; `reset` takes polarity and
/// synchronicity from `reset_type`, `reset_{async,sync}_{high,low}` fix both).
#[derive(Clone, Copy, Debug, PartialEq, Eq)]
pub struct Meaning {
    pub clock_posedge: bool,
    pub reset_high: bool,
    pub reset_sync: bool,
}

impl Combo {
    pub fn meaning(&self) -> Meaning {
        let clock_posedge = match self.clock_kind {
            ClockKind::Abstract => self.clock_type == ClockType::PosEdge,
            ClockKind::Posedge => true,
            ClockKind::Negedge => false,
        };
        let (reset_high, reset_sync) = match self.reset_kind {
            ResetKind::Abstract => match self.reset_type {
                ResetType::AsyncLow => (false, false),
                ResetType::AsyncHigh => (true, false),
                ResetType::SyncLow => (false, true),
                ResetType::SyncHigh => (true, true),
            },
            ResetKind::AsyncHigh => (true, false),
            ResetKind::AsyncLow => (false, false),
            ResetKind::SyncHigh => (true, true),
            ResetKind::SyncLow => (false, true),
        };
        Meaning {
            clock_posedge,
            reset_high,
            reset_sync,
        }
    }
    pub fn clock_kw(&self) -> &'static str {
        match self.clock_kind {
            ClockKind::Abstract => "clock",
            ClockKind::Posedge => "clock_posedge",
            ClockKind::Negedge => "clock_negedge",
        }
    }
    pub fn reset_kw(&self) -> &'static str {
        match self.reset_kind {
            ResetKind::Abstract => "reset",
            ResetKind::AsyncHigh => "reset_async_high",
            ResetKind::AsyncLow => "reset_async_low",
            ResetKind::SyncHigh => "reset_sync_high",
            ResetKind::SyncLow => "reset_sync_low",
        }
    }
    pub fn toml(&self) -> String {
        format!(
            "[build]\nclock_type = \"{}\"\nreset_type = \"{}\"\n",
            match self.clock_type {
                ClockType::PosEdge => "posedge",
                ClockType::NegEdge => "negedge",
            },
            match self.reset_type {
                ResetType::AsyncLow => "async_low",
                ResetType::AsyncHigh => "async_high",
                ResetType::SyncLow => "sync_low",
                ResetType::SyncHigh => "sync_high",
            }
        )
    }
    pub fn label(&self) -> String {
        format!(
            "{}/{}",
            match self.clock_type {
                ClockType::PosEdge => "posedge",
                ClockType::NegEdge => "negedge",
            },
            match self.reset_type {
                ResetType::AsyncLow => "async_low",
                ResetType::AsyncHigh => "async_high",
                ResetType::SyncLow => "sync_low",
                ResetType::SyncHigh => "sync_high",
            }
        )
    }
    pub fn apply(&self, md: &mut Metadata) {
        md.build.clock_type = self.clock_type;
        md.build.reset_type = self.reset_type;
    }
    /// The simulator `Config` exactly as `cmd_test.rs` derives it from the metadata.
    pub fn sim_config(&self, md: &Metadata) -> Config {
        Config {
            use_jit: false,
            use_4state: false,
            abstract_reset_active_high: matches!(md.build.reset_type, ResetType::AsyncHigh | ResetType::SyncHigh),
            abstract_reset_sync: matches!(md.build.reset_type, ResetType::SyncHigh | ResetType::SyncLow),
            ..Config::default()
        }
    }
}

pub fn draw_combo(d: &mut Draw) -> Combo {
    // simplest first: posedge / async_low / abstract types
    let clock_type = *d.pick(&[ClockType::PosEdge, ClockType::NegEdge]);
    let reset_type = *d.pick(&[ResetType::AsyncLow, ResetType::AsyncHigh, ResetType::SyncLow, ResetType::SyncHigh]);
    let clock_kind = [ClockKind::Abstract, ClockKind::Posedge, ClockKind::Negedge][d.weighted(&[4, 1, 1])];
    let reset_kind =
        [ResetKind::Abstract, ResetKind::AsyncHigh, ResetKind::AsyncLow, ResetKind::SyncHigh, ResetKind::SyncLow][d.weighted(&[4, 1, 1, 1, 1])];
    Combo {
        clock_type,
        reset_type,
        clock_kind,
        reset_kind,
    }
}

/// The printer writes `name: input clock,` / `name: input reset,`; explicit
/// kinds replace the keyword in every module of the design.
pub fn retype(text: &str, c: &Combo) -> String {
    text.replace(": input clock,", &format!(": input {},", c.clock_kw())).replace(": input reset,", &format!(": input {},", c.reset_kw()))
}

// ----- structural oracle ----------------------------------------------------------

fn collect_ff<'a>(items: &'a [sva::Item], out: &mut Vec<(&'a Vec<(sva::Edge, sva::Expr)>, &'a sva::Stmt, u32)>) {
    for it in items {
        match it {
            sva::Item::AlwaysFf { events, body, line } => out.push((events, body, *line)),
            sva::Item::GenFor { items, .. } | sva::Item::GenBlock { items, .. } => collect_ff(items, out),
            sva::Item::GenIf { then, els, .. } => {
                collect_ff(then, out);
                if let Some((_, e)) = els {
                    collect_ff(e, out);
                }
            }
            _ => {}
        }
    }
}

fn simple_name(e: &sva::Expr) -> Option<&str> {
    match e {
        sva::Expr::Name(p) if p.scope.is_empty() => Some(&p.name),
        _ => None,
    }
}

/// Every `always_ff` of every module: sensitivity list and `if_reset`
/// condition against the table.  Returns (number checked, first deviation).
pub fn structural(src: &sva::SourceText, design: &Design, m: &Meaning) -> (usize, Option<String>) {
    let mut n = 0;
    for module in &design.modules {
        let Some(unit) = src.units.iter().find(|u| u.name == format!("prj_{}", module.name)) else {
            continue;
        };
        let clk = module.clock().map(|c| module.decls[c].name.clone());
        let rst = module.reset().map(|c| module.decls[c].name.clone());
        let mut ffs = vec![];
        collect_ff(&unit.items, &mut ffs);
        let expected_ffs = module.items.iter().filter(|i| matches!(i, Item::AlwaysFf { .. })).count();
        if ffs.len() != expected_ffs {
            return (n, Some(format!("module {}: {} always_ff blocks emitted for {} in the source", module.name, ffs.len(), expected_ffs)));
        }
        for (events, body, line) in ffs {
            n += 1;
            let (Some(clk), Some(rst)) = (&clk, &rst) else {
                return (n, Some(format!("module {} has an always_ff but no clock/reset port", module.name)));
            };
            let want_clk = if m.clock_posedge { sva::Edge::Pos } else { sva::Edge::Neg };
            let ev_txt = |ev: &Vec<(sva::Edge, sva::Expr)>| {
                ev.iter()
                    .map(|(e, x)| format!("{} {}", match e {
                        sva::Edge::Pos => "posedge",
                        sva::Edge::Neg => "negedge",
                        sva::Edge::Any => "edge",
                    }, simple_name(x).unwrap_or("<expr>")))
                    .collect::<Vec<_>>()
                    .join(", ")
            };
            let mut want = vec![(want_clk, clk.as_str())];
            if !m.reset_sync {
                want.push((if m.reset_high { sva::Edge::Pos } else { sva::Edge::Neg }, rst.as_str()));
            }
            let got: Vec<(sva::Edge, Option<&str>)> = events.iter().map(|(e, x)| (*e, simple_name(x))).collect();
            let same = got.len() == want.len() && got.iter().zip(&want).all(|(g, w)| g.0 == w.0 && g.1 == Some(w.1));
            if !same {
                let wtxt = want
                    .iter()
                    .map(|(e, n)| format!("{} {n}", if *e == sva::Edge::Pos { "posedge" } else { "negedge" }))
                    .collect::<Vec<_>>()
                    .join(", ");
                return (n, Some(format!("line {line}: always_ff @({}) but the configuration means @({wtxt})", ev_txt(events))));
            }
            // first statement: `if (rst)` / `if (!rst)`
            let first = match body {
                sva::Stmt::Block { stmts, .. } => stmts.first(),
                s => Some(s),
            };
            let Some(sva::Stmt::If { cond, .. }) = first else {
                return (n, Some(format!("line {line}: always_ff does not start with the reset condition")));
            };
            let (neg, name) = match cond {
                sva::Expr::Unary(sva::UnOp::LogNot, x) => (true, simple_name(x)),
                x => (false, simple_name(x)),
            };
            if name != Some(rst.as_str()) || neg == m.reset_high {
                return (
                    n,
                    Some(format!(
                        "line {line}: reset condition is {}{} but the configuration means {}{rst}",
                        if neg { "!" } else { "" },
                        name.unwrap_or("<expr>"),
                        if m.reset_high { "" } else { "!" }
                    )),
                );
            }
        }
    }
    (n, None)
}

// ----- dynamic oracle ----------------------------------------------------------------

fn to_bv(v: &num_bigint::BigUint, w: usize) -> Bv {
    Bv::from_biguint(v, w, false)
}

fn junk_of(v: &num_bigint::BigUint, w: usize) -> Bv {
    to_bv(v, w).not()
}

/// Drive the emitted text with `stim`; one row of outputs per step.
pub fn run_sv(sim: &mut Sim, pins: &Pins, stim: &Stimulus) -> Result<Vec<Vec<Bv>>, vsv::Unsupported> {
    let zero: Vec<(String, Bv)> = stim.inputs.iter().map(|p| (p.name.clone(), Bv::zeros(p.width, false))).collect();
    sim.tb_init(pins, &zero)?;
    let mut rows = vec![];
    for st in &stim.steps {
        let ins: Vec<(String, Bv)> = stim.inputs.iter().zip(&st.values).map(|(p, v)| (p.name.clone(), to_bv(v, p.width))).collect();
        let junk: Vec<(String, Bv)> = stim.inputs.iter().zip(&st.values).map(|(p, v)| (p.name.clone(), junk_of(v, p.width))).collect();
        sim.tb_cycle(pins, &junk, &ins, st.reset)?;
        let mut row = vec![];
        for o in &stim.outputs {
            let Some(v) = sim.get(&o.name) else {
                return Err(vsv::Unsupported::new(format!("emitted top module has no port {}", o.name)));
            };
            row.push(v);
        }
        rows.push(row);
    }
    Ok(rows)
}

fn design_stats(design: &Design) -> (usize, usize) {
    // (always_ff blocks, operators) over all modules
    fn ops_expr(e: &vdesign::Expr) -> usize {
        use vdesign::Expr::*;
        match e {
            Un(_, a) => 1 + ops_expr(a),
            Bin(_, a, b) => 1 + ops_expr(a) + ops_expr(b),
            If(c, a, b) => 1 + ops_expr(c) + ops_expr(a) + ops_expr(b),
            Case(s, arms, d) => 1 + ops_expr(s) + arms.iter().map(|a| ops_expr(&a.1)).sum::<usize>() + ops_expr(d),
            Switch(arms, d) => 1 + arms.iter().map(|a| ops_expr(&a.1) + a.0.iter().map(ops_expr).sum::<usize>()).sum::<usize>() + ops_expr(d),
            Concat(v) => 1 + v.iter().map(|x| ops_expr(&x.0)).sum::<usize>(),
            Cast(a, _) | Signed(a) | Unsigned(a) | Clog2(a) => 1 + ops_expr(a),
            Inside(a, _, _) => 1 + ops_expr(a),
            Call(_, args) => 1 + args.iter().map(ops_expr).sum::<usize>(),
            _ => 0,
        }
    }
    fn ops_stmts(v: &[vdesign::Stmt]) -> usize {
        v.iter()
            .map(|s| match s {
                vdesign::Stmt::Assign { rhs, .. } | vdesign::Stmt::AssignConcat { rhs, .. } => ops_expr(rhs),
                vdesign::Stmt::If { cond, then, els } => ops_expr(cond) + ops_stmts(then) + ops_stmts(els),
                vdesign::Stmt::Case { sel, arms, default } => {
                    ops_expr(sel) + arms.iter().map(|a| ops_stmts(&a.1)).sum::<usize>() + default.as_ref().map(|d| ops_stmts(d)).unwrap_or(0)
                }
                vdesign::Stmt::Switch { arms, default } => {
                    arms.iter().map(|a| ops_stmts(&a.1) + a.0.iter().map(ops_expr).sum::<usize>()).sum::<usize>()
                        + default.as_ref().map(|d| ops_stmts(d)).unwrap_or(0)
                }
                vdesign::Stmt::For { body, .. } => ops_stmts(body),
                vdesign::Stmt::Return(e) => ops_expr(e),
                _ => 0,
            })
            .sum()
    }
    let mut ff = 0;
    let mut ops = 0;
    for m in &design.modules {
        for it in &m.items {
            match it {
                Item::AlwaysFf { reset, body, .. } => {
                    ff += 1;
                    ops += ops_stmts(reset) + ops_stmts(body);
                }
                Item::Assign { rhs, .. } | Item::Let { rhs, .. } => ops += ops_expr(rhs),
                Item::AlwaysComb(b) => ops += ops_stmts(b),
                Item::Inst { .. } => {}
            }
        }
        for f in &m.funcs {
            ops += ops_stmts(&f.body);
        }
    }
    (ff, ops)
}

/// Statement-level features left out of the C01 dialect (see `run`): each is
/// a place where veryl's simulator deviates from the emitted text for reasons
/// that belong to the simulator checks (C02 / C03 / C18), not to translation.
pub const DIALECT_OFF: &[&str] = &[];

/// The protocol dialect: flip-flops with `if_reset`, `if` statements, `let`,
/// hierarchy, and plain operators (arithmetic, bitwise, shifts, comparisons,
/// reductions, `?:`, concatenation, constant selects) over
/// unsigned variables up to 64 bits.  veryl's simulator agrees with IEEE 1800 on this
/// sub-language, so here *every* disagreement between the emitted text and the
/// simulator is a violation — in particular any difference in what a clock
/// edge, a reset polarity or a reset synchronicity means.
pub fn protocol_cfg(base: &GenCfg) -> GenCfg {
    GenCfg {
        max_width: 64,
        // the simulator's signedness propagation has its own catalogue of defects (C18)
        signed: false,
        // `<<<` / `>>>` need `$signed(…)` operands, selects of 1-bit variables are a known emitter finding
        shifts: false,
        selects: false,
        div: false,
        pow: false,
        case_expr: false,
        switch_expr: false,
        dyn_selects: false,
        casts: false,
        sign_casts: false,
        inside: false,
        msb_lsb: false,
        unsized_lits: false,
        fill_lits: false,
        case_stmt: false,
        switch_stmt: false,
        for_stmt: false,
        op_assign: false,
        partial_assign: false,
        functions: false,
        structs: false,
        enums: false,
        arrays: false,
        consts: false,
        params: false,
        two_state_types: false,
        ..base.clone()
    }
}

pub fn apply_off(cfg: &mut GenCfg, off: &[&str]) {
    for k in off {
        match *k {
            "for_stmt" => cfg.for_stmt = false,
            "functions" => cfg.functions = false,
            "op_assign" => cfg.op_assign = false,
            "partial_assign" => cfg.partial_assign = false,
            "switch_stmt" => cfg.switch_stmt = false,
            "case_stmt" => cfg.case_stmt = false,
            "switch_expr" => cfg.switch_expr = false,
            "case_expr" => cfg.case_expr = false,
            "inside" => cfg.inside = false,
            "arrays" => cfg.arrays = false,
            "structs" => cfg.structs = false,
            "enums" => cfg.enums = false,
            "consts" => cfg.consts = false,
            "params" => cfg.params = false,
            "insts" => cfg.insts = false,
            "lets" => cfg.lets = false,
            "dyn_selects" => cfg.dyn_selects = false,
            "two_state_types" => cfg.two_state_types = false,
            "pow" => cfg.pow = false,
            "always_comb" => cfg.always_comb = false,
            _ => {}
        }
    }
}

pub fn gen_cfg(ctx: &Ctx) -> GenCfg {
    let mut c = GenCfg {
        max_width: if ctx.is_quick() { 80 } else { 200 },
        // x would be compared against a 2-state simulator: keep divisors / indices guarded
        unguarded_per_mille: 0,
        display: false,
        ..GenCfg::default()
    };
    apply_off(&mut c, DIALECT_OFF);
    c
}

fn hexrow(row: &[Bv]) -> Vec<String> {
    row.iter().map(|v| v.to_string()).collect()
}

pub fn one_case(d: &mut Draw, cfg: &GenCfg, cycles: usize, stats: &Stats, strict: bool) -> Outcome {
    // most designs stay within 64 bits (one known finding needs wider right-hand sides,
    // and designs containing its shape are excluded); the rest go up to the tier's maximum
    let mut cfg = cfg.clone();
    cfg.max_width = [32u32, 64, 48, cfg.max_width][d.weighted(&[3, 3, 2, 2])];
    let cfg = &cfg;
    let g = gen_design(d, cfg);
    let design = &g.design;
    let combo = draw_combo(d);
    let meaning = combo.meaning();
    let text = retype(&print_design(design), &combo);
    let stim = gen_stimulus(d, design, cycles);
    let mut md = common::project_metadata();
    combo.apply(&mut md);
    // shapes of confirmed findings: kept out of the main search, shown at a low rate
    let sus = crate::suspects::suspects(design);
    let show_known = d.chance(1, 12);
    if !sus.is_empty() && !show_known {
        return Outcome::skip(format!("excluded: design contains the shape of known finding {}", sus.join("+")));
    }

    let built = match common::build(&text, &md) {
        Ok(b) => b,
        Err(BuildErr::Parse(e)) => return Outcome::skip(format!("generated design does not parse: {}", e.lines().next().unwrap_or(""))),
        Err(BuildErr::Analyze(e)) => {
            let first = e.first().cloned().unwrap_or_default();
            let code: String = first.split_whitespace().take(4).collect::<Vec<_>>().join(" ");
            return Outcome::skip(format!("generated design rejected by the analyzer: {code}"));
        }
    };
    let input = |extra: serde_json::Value| {
        json!({
            "veryl": text,
            "veryl_toml": combo.toml(),
            "clock_kind": combo.clock_kw(),
            "reset_kind": combo.reset_kw(),
            "sv": built.sv,
            "stimulus": stim.steps.iter().map(|s| json!({"reset": s.reset, "inputs": stim.inputs.iter().zip(&s.values).map(|(p, v)| format!("{}={}'h{:x}", p.name, p.width, v)).collect::<Vec<_>>()})).collect::<Vec<_>>(),
            "detail": extra,
        })
    };

    // ---- the emitted text: parse (also the structural oracle's input)
    let parsed = match vsv::parse::parse(&built.sv) {
        Ok(p) => p,
        Err(u) => {
            stats.unsupported(&u);
            return Outcome::skip(format!("vsv unsupported (parse): {}", u.class()));
        }
    };
    let (n_ff_checked, dev) = structural(&parsed, design, &meaning);
    if let Some(dev) = dev {
        let sig = if dev.contains("reset condition") {
            "structural/reset-condition"
        } else if dev.contains("always_ff @(") {
            "structural/sensitivity-list"
        } else {
            "structural/shape"
        };
        return Outcome::fail(sig, format!("{dev}\nconfiguration {} with `{}` / `{}`", combo.label(), combo.clock_kw(), combo.reset_kw()), input(json!({})));
    }

    // ---- (a) vsv on the emitted text
    let srcs = [parsed];
    let mut scalar_select = false;
    let mut sim = match Sim::from_parsed(&srcs, "prj_Top") {
        Ok(s) => s,
        Err(u) if u.reason.contains("select of a scalar") => {
            // The emitter copies `v[0]`, `v[0:0]`, `v[0+:1]` of a 1-bit `logic v`
            // verbatim; a scalar has no range in IEEE 1800 and standard tools
            // reject the select.  Known finding, shown at a low rate; otherwise
            // the text is read with the select meaning `[0:0]` so that the
            // search goes on.
            scalar_select = true;
            if d.chance(1, 60) {
                return Outcome::fail(
                    "emitted-sv/select-of-scalar",
                    format!("the emitted text selects from a scalar, which IEEE 1800 does not allow ({})", u.reason),
                    input(json!({})),
                );
            }
            match Sim::from_parsed_opts(&srcs, "prj_Top", true) {
                Ok(s) => s,
                Err(u) => {
                    stats.unsupported(&u);
                    return Outcome::skip(format!("vsv unsupported (elaborate): {}", u.class()));
                }
            }
        }
        Err(u) => {
            stats.unsupported(&u);
            return Outcome::skip(format!("vsv unsupported (elaborate): {}", u.class()));
        }
    };
    let pins = Pins {
        clock: stim.clock.clone().map(|c| (c, meaning.clock_posedge)),
        reset: stim.reset.clone().map(|r| (r, meaning.reset_high)),
    };
    let sv_rows = match run_sv(&mut sim, &pins, &stim) {
        Ok(r) => r,
        Err(u) => {
            stats.unsupported(&u);
            return Outcome::skip(format!("vsv unsupported (run): {}", u.class()));
        }
    };

    // ---- (b) veryl's simulator on the same analysis
    let analyzed = Analyzed {
        ir: built.ir,
        warnings: built.warnings,
    };
    let config = combo.sim_config(&md);
    let vt = match std::panic::catch_unwind(std::panic::AssertUnwindSafe(|| analyzed.run("Top", &config, &stim))) {
        Ok(Ok(t)) => t,
        Ok(Err(e)) => {
            let first = e.lines().next().unwrap_or("").to_string();
            return Outcome::skip(format!("veryl simulator cannot build the design: {}", first.split_whitespace().take(6).collect::<Vec<_>>().join(" ")));
        }
        Err(_) => return Outcome::skip("veryl simulator panicked (C11 / C02 domain)"),
    };

    // ---- compare
    let mut x_bits = 0u64;
    let mut compared = 0u64;
    let mut distinct: Vec<BTreeSet<String>> = vec![BTreeSet::new(); stim.outputs.len()];
    let mut mismatch: Option<(usize, usize)> = None;
    for (si, (srow, vrow)) in sv_rows.iter().zip(&vt.steps).enumerate() {
        for (oi, (s, v)) in srow.iter().zip(vrow).enumerate() {
            let vb = to_bv(&v.value, stim.outputs[oi].width);
            if s.width() != vb.width() {
                return Outcome::fail(
                    "port-width",
                    format!("output {} is {} bits wide in the emitted module, {} in the design", stim.outputs[oi].name, s.width(), vb.width()),
                    input(json!({})),
                );
            }
            if !s.has_xz() {
                distinct[oi].insert(s.to_string());
            }
            for k in 0..s.width() {
                match s.bit(k) {
                    Bit::X | Bit::Z => x_bits += 1,
                    b => {
                        compared += 1;
                        if b != vb.bit(k) && mismatch.is_none() {
                            mismatch = Some((si, oi));
                        }
                    }
                }
            }
        }
    }
    if let Some((si, oi)) = mismatch {
        // third opinion: the design generator's own reference evaluator
        let rt = reference_trace(design, &stim);
        let r = &rt.steps[si][oi];
        let s = &sv_rows[si][oi];
        let v = &vt.steps[si][oi];
        let w = stim.outputs[oi].width;
        let ref_bv = to_bv(&r.v, w);
        let veryl_bv = to_bv(&v.value, w);
        let agree = if r.x {
            "ref-unknown"
        } else if ref_bv.bits() == veryl_bv.bits() {
            "ref=veryl-sim"
        } else if ref_bv.bits() == s.bits() {
            "ref=sv"
        } else {
            "all-differ"
        };
        let sig = match sus.first() {
            Some(k) => format!("trace/{k}"),
            None => format!("trace/unclassified/{agree}"),
        };
        // Outside the core dialect a disagreement in which the *emitted text* agrees
        // with the independent reference evaluator (or the reference cannot tell) is a
        // deviation of veryl's simulator from IEEE 1800 on statement-level features
        // (the domain of C02 / C03 / C18).  It cannot be explained from the emitted
        // text, so it is recorded, not reported (soundness: only explained
        // disagreements are violations).  The text being the odd one out always is.
        if !strict && sus.is_empty() && agree != "ref=veryl-sim" && agree != "all-differ" {
            stats.unexplained(&format!("{agree}: output {} after step {si}", stim.outputs[oi].name), &text, &combo);
            return Outcome::skip(format!("unexplained disagreement outside the core dialect ({agree}): recorded for the simulator checks"));
        }
        let msg = format!(
            "output {} after step {si}: emitted SV (vsv) {} , veryl simulator {}'h{:x}, reference evaluator {}\nconfiguration {} with `{}` / `{}`",
            stim.outputs[oi].name,
            s,
            w,
            v.value,
            if r.x { "unknown".to_string() } else { format!("{w}'h{:x}", r.v) },
            combo.label(),
            combo.clock_kw(),
            combo.reset_kw()
        );
        return Outcome::fail(
            sig,
            msg,
            input(json!({
                "sv_trace": sv_rows.iter().map(|r| hexrow(r)).collect::<Vec<_>>(),
                "veryl_trace": vt.steps.iter().map(|r| r.iter().map(|s| format!("{:x}", s.value)).collect::<Vec<_>>()).collect::<Vec<_>>(),
                "outputs": stim.outputs.iter().map(|o| o.name.clone()).collect::<Vec<_>>(),
            })),
        );
    }

    // ---- classes / non-triviality
    let (n_ff, n_ops) = design_stats(design);
    let lively = distinct.iter().any(|s| s.len() >= 3);
    let nontrivial = n_ff >= 1 && n_ops >= 2 && lively;
    let mut classes: Vec<String> = vec![
        format!("cfg:{}", combo.label()),
        format!("clock_kind:{}", combo.clock_kw()),
        format!("reset_kind:{}", combo.reset_kw()),
        format!("means:{}+{}{}", if meaning.clock_posedge { "posedge" } else { "negedge" }, if meaning.reset_sync { "sync" } else { "async" }, if meaning.reset_high { "_high" } else { "_low" }),
        format!("ff_blocks:{}", match n_ff {
            0 => "0",
            1 => "1",
            2..=3 => "2-3",
            _ => "4+",
        }),
        format!("always_ff_checked:{}", if n_ff_checked > 0 { "yes" } else { "no" }),
    ];
    if x_bits > 0 {
        classes.push("sv_has_x_bits".into());
    }
    if scalar_select {
        classes.push("excluded_finding:select-of-scalar(read as [0:0])".into());
    }
    if design.modules.len() > 1 {
        classes.push("hierarchy".into());
    }
    if stim.steps.iter().skip(2).any(|s| s.reset) {
        classes.push("midrun_reset".into());
    }
    for c in &g.classes {
        if c.starts_with("item:") || c.starts_with("stmt:") || c.starts_with("feat:") {
            classes.push(c.clone());
        }
    }
    stats.add_compared(compared, x_bits);
    let sample = format!("// {} clock={} reset={}\n{}", combo.label(), combo.clock_kw(), combo.reset_kw(), text);
    Outcome::pass(hash_str(&sample), nontrivial, classes, sample)
}

// ----- hand-written texts (reproducers of listed findings, developer probes) --------

fn splitmix(s: &mut u64) -> u64 {
    *s = s.wrapping_add(0x9E3779B97F4A7C15);
    let mut z = *s;
    z = (z ^ (z >> 30)).wrapping_mul(0xBF58476D1CE4E5B9);
    z = (z ^ (z >> 27)).wrapping_mul(0x94D049BB133111EB);
    z ^ (z >> 31)
}

pub fn combo_from(text: &str, clock_type: &str, reset_type: &str) -> Combo {
    Combo {
        clock_type: if clock_type == "negedge" { ClockType::NegEdge } else { ClockType::PosEdge },
        reset_type: match reset_type {
            "async_high" => ResetType::AsyncHigh,
            "sync_low" => ResetType::SyncLow,
            "sync_high" => ResetType::SyncHigh,
            _ => ResetType::AsyncLow,
        },
        clock_kind: if text.contains("input clock_posedge") {
            ClockKind::Posedge
        } else if text.contains("input clock_negedge") {
            ClockKind::Negedge
        } else {
            ClockKind::Abstract
        },
        reset_kind: if text.contains("input reset_async_high") {
            ResetKind::AsyncHigh
        } else if text.contains("input reset_async_low") {
            ResetKind::AsyncLow
        } else if text.contains("input reset_sync_high") {
            ResetKind::SyncHigh
        } else if text.contains("input reset_sync_low") {
            ResetKind::SyncLow
        } else {
            ResetKind::Abstract
        },
    }
}

pub struct TextRun {
    pub sv: String,
    pub stim: Stimulus,
    pub sv_rows: Vec<Vec<Bv>>,
    pub veryl: vdesign::Trace,
    /// the emitted text needed the select-of-scalar leniency
    pub scalar_select: Option<String>,
}

/// Both simulators on a hand-written module `Top` (ports `clk` / `rst` are
/// the clock / reset, every other input is data driven from a fixed PRNG;
/// step 0 is a reset step when there is a reset).
pub fn run_text(text: &str, combo: &Combo, steps: usize, seed: u64) -> Result<TextRun, String> {
    let mut md = common::project_metadata();
    combo.apply(&mut md);
    let b = common::build(text, &md).map_err(|e| format!("{e:?}"))?;
    let parsed = vsv::parse::parse(&b.sv).map_err(|e| e.to_string())?;
    let srcs = [parsed];
    let mut scalar_select = None;
    let mut sim = match Sim::from_parsed(&srcs, "prj_Top") {
        Ok(s) => s,
        Err(u) if u.reason.contains("select of a scalar") => {
            scalar_select = Some(u.reason.clone());
            Sim::from_parsed_opts(&srcs, "prj_Top", true).map_err(|e| e.to_string())?
        }
        Err(u) => return Err(u.to_string()),
    };
    let mut stim = Stimulus::default();
    for p in sim.ports() {
        let spec = vdesign::PortSpec {
            name: p.name.clone(),
            width: p.width,
        };
        match (p.name.as_str(), p.dir) {
            ("clk", _) => stim.clock = Some(p.name.clone()),
            ("rst", _) => stim.reset = Some(p.name.clone()),
            (_, sva::Dir::Input) => stim.inputs.push(spec),
            _ => stim.outputs.push(spec),
        }
    }
    let mut s = seed;
    for i in 0..steps.max(2) {
        let values = stim
            .inputs
            .iter()
            .map(|p| {
                let mut v = num_bigint::BigUint::from(0u32);
                for _ in 0..p.width.div_ceil(64) {
                    v = (v << 64) | num_bigint::BigUint::from(splitmix(&mut s));
                }
                v & ((num_bigint::BigUint::from(1u32) << p.width) - 1u32)
            })
            .collect();
        stim.steps.push(vdesign::StimStep {
            reset: i == 0 && stim.reset.is_some(),
            values,
        });
    }
    let m = combo.meaning();
    let pins = Pins {
        clock: stim.clock.clone().map(|c| (c, m.clock_posedge)),
        reset: stim.reset.clone().map(|r| (r, m.reset_high)),
    };
    let sv_rows = run_sv(&mut sim, &pins, &stim).map_err(|e| e.to_string())?;
    let a = Analyzed {
        ir: b.ir,
        warnings: b.warnings,
    };
    let veryl = a.run("Top", &combo.sim_config(&md), &stim)?;
    Ok(TextRun {
        sv: b.sv,
        stim,
        sv_rows,
        veryl,
        scalar_select,
    })
}

/// Reproducer of a listed finding: `{veryl, clock_type, reset_type, steps, seed, key}`.
pub fn reproducer(payload: &serde_json::Value) -> Outcome {
    let s = |k: &str| payload.get(k).and_then(|v| v.as_str()).unwrap_or("").to_string();
    let text = s("veryl");
    let key = s("key");
    let combo = combo_from(&text, &s("clock_type"), &s("reset_type"));
    let steps = payload.get("steps").and_then(|v| v.as_u64()).unwrap_or(6) as usize;
    let seed = payload.get("seed").and_then(|v| v.as_u64()).unwrap_or(1);
    let r = match run_text(&text, &combo, steps, seed) {
        Ok(r) => r,
        Err(e) => return Outcome::skip(format!("reproducer cannot run: {}", e.lines().next().unwrap_or(""))),
    };
    if key == "emitted-sv/select-of-scalar" {
        return match r.scalar_select {
            Some(why) => Outcome::fail(key, format!("the emitted text selects from a scalar ({why})"), json!({"veryl": text, "sv": r.sv})),
            None => Outcome::pass(hash_str(&text), false, vec!["reproducer".into()], text),
        };
    }
    for (si, (srow, vrow)) in r.sv_rows.iter().zip(&r.veryl.steps).enumerate() {
        for (oi, (sv, v)) in srow.iter().zip(vrow).enumerate() {
            let vb = to_bv(&v.value, r.stim.outputs[oi].width);
            let differs = (0..sv.width()).any(|k| !sv.bit(k).is_xz() && sv.bit(k) != vb.bit(k));
            if differs {
                return Outcome::fail(
                    key,
                    format!("output {} after step {si}: emitted SV (vsv) {sv}, veryl simulator {}'h{:x}", r.stim.outputs[oi].name, sv.width(), v.value),
                    json!({
                        "veryl": text, "veryl_toml": combo.toml(), "sv": r.sv,
                        "stimulus": r.stim.steps.iter().map(|s| json!({"reset": s.reset, "inputs": r.stim.inputs.iter().zip(&s.values).map(|(p, v)| format!("{}={}'h{:x}", p.name, p.width, v)).collect::<Vec<_>>()})).collect::<Vec<_>>(),
                        "sv_trace": r.sv_rows.iter().map(|x| hexrow(x)).collect::<Vec<_>>(),
                        "veryl_trace": r.veryl.steps.iter().map(|x| x.iter().map(|s| format!("{:x}", s.value)).collect::<Vec<_>>()).collect::<Vec<_>>(),
                    }),
                );
            }
        }
    }
    Outcome::pass(hash_str(&text), false, vec!["reproducer".into()], text)
}

#[derive(Default)]
pub struct Stats {
    inner: std::sync::Mutex<StatsInner>,
}

#[derive(Default)]
struct StatsInner {
    unsupported: BTreeMap<String, u64>,
    compared_bits: u64,
    x_bits: u64,
    unexplained: u64,
    unexplained_samples: Vec<String>,
}

impl Stats {
    fn unsupported(&self, u: &vsv::Unsupported) {
        *self.inner.lock().unwrap().unsupported.entry(u.class()).or_default() += 1;
    }
    fn unexplained(&self, what: &str, text: &str, combo: &Combo) {
        let mut g = self.inner.lock().unwrap();
        g.unexplained += 1;
        if g.unexplained_samples.len() < 3 {
            g.unexplained_samples.push(format!("// {what}; {} clock={} reset={}\n{text}", combo.label(), combo.clock_kw(), combo.reset_kw()));
        }
    }
    fn add_compared(&self, c: u64, x: u64) {
        let mut g = self.inner.lock().unwrap();
        g.compared_bits += c;
        g.x_bits += x;
    }
}

/// The 94 golden files of the emitter's own test suite: how many the front end reads.
fn golden_coverage(ctx: &Ctx) {
    let dir = format!("{}/testcases/sv", vcore::util::repo_root());
    let mut total = 0;
    let mut ok = 0;
    let mut reasons: BTreeMap<String, u64> = BTreeMap::new();
    if let Ok(rd) = std::fs::read_dir(&dir) {
        let mut files: Vec<_> = rd.flatten().map(|e| e.path()).filter(|p| p.extension().is_some_and(|x| x == "sv")).collect();
        files.sort();
        for f in files {
            let Ok(text) = std::fs::read_to_string(&f) else { continue };
            total += 1;
            match vsv::parse::parse(&text) {
                Ok(_) => ok += 1,
                Err(u) => *reasons.entry(u.class()).or_default() += 1,
            }
        }
    }
    ctx.note("golden_sv_files", json!(total));
    ctx.note("golden_sv_files_parsed", json!(ok));
    ctx.note("golden_sv_unsupported", json!(reasons));
}

pub fn run(ctx: &Ctx) {
    let n = ctx.scale(1500, 40_000);
    let cycles = if ctx.is_quick() { 24 } else { 100 };
    let cfg = gen_cfg(ctx);
    let stats = std::sync::Arc::new(Stats::default());
    golden_coverage(ctx);
    ctx.run_payloads("reproducer", reproducer);
    {
        let stats = stats.clone();
        let proto = protocol_cfg(&cfg);
        ctx.run("protocol-dialect", CaseCfg::cases(n).choices(12_000).stack_mb(16), move |d: &mut Draw| one_case(d, &proto, cycles, &stats, true));
    }
    {
        let stats = stats.clone();
        ctx.run("wide-dialect", CaseCfg::cases(n).choices(12_000).stack_mb(16), move |d: &mut Draw| one_case(d, &cfg, cycles, &stats, false));
    }
    {
        let g = stats.inner.lock().unwrap();
        ctx.note("vsv_unsupported", json!(g.unsupported));
        ctx.note("compared_bits", json!(g.compared_bits));
        ctx.note("sv_x_bits_not_compared", json!(g.x_bits));
        ctx.note("unexplained_simulator_deviations_outside_core_dialect", json!(g.unexplained));
        ctx.note("unexplained_samples", json!(g.unexplained_samples));
    }
    ctx.assume("vsv (this harness' IEEE 1800 simulator built on vbv) is the \"standard SystemVerilog simulator\": no external one exists in the sandbox");
    ctx.assume("bits that are x/z in the SystemVerilog simulation are not compared with the 2-state veryl simulator");
    ctx.assume("the reset is held across at least one active clock edge (the simulator API has no reset pulse between edges)");
    ctx.finish(
        "translation_validation",
        "vdesign designs (vsv dialect) x stimulus x clock_type x reset_type x explicit clock/reset kinds; non-trivial = >= 1 always_ff, >= 2 operators, some output takes >= 3 distinct fully known values",
    );
}
