//! Shapes of the confirmed C01 findings as predicates over a `vdesign`
//! design.  A design that contains one is kept out of the main search (and
//! counted); at a low rate it is run anyway, and a trace mismatch is then
//! attributed to the shape (signature `trace/<key>`).

use vdesign::eval::ref_ty;
use vdesign::{Conn, DeclKind, Design, Expr, Item, Module, Ref, Sel, Stmt, Ty, ty_of};

pub struct Suspect {
    pub key: &'static str,
    pub what: &'static str,
}

pub const SUSPECTS: &[Suspect] = &[
    Suspect {
        key: "signed-constant-rhs-zero-extended",
        what: "simulator: a bare reference to a signed param / const as the whole right-hand side is zero-extended to a wider target (IEEE 1800 10.7 / the emitted SV: sign-extended)",
    },
    Suspect {
        key: "partial-assign-rhs-over-64-bits",
        what: "simulator: a bit/part/field-select target assigned from an expression wider than 64 bits receives 0 whenever the value does not fit 64 bits (IEEE 1800 / the emitted SV: truncation to the low bits)",
    },
    Suspect {
        key: "unsigned-cast-interior-evaluated-unsigned",
        what: "simulator: the operand expression of `$unsigned(…)` is evaluated as unsigned (signed operands inside are zero-extended); IEEE 1800 11.8.1 / the emitted SV: the operand is self-determined with its own signedness",
    },
    Suspect {
        key: "forwarded-variable-read-at-other-width",
        what: "simulator: after `assign x = y;` / `let x = y;` with x and y of different types, other reads of y in self-determined positions (concatenation) use x's width",
    },
    Suspect {
        key: "ff-statement-reads-own-pending-value",
        what: "simulator: inside an always_ff, `s = a; s = f(s);` (also `s op= e` after another assignment to s) evaluates f on the value just assigned; the emitted SV (`s <= a; s <= f(s);`, non-blocking) reads the registered value",
    },
    Suspect {
        key: "exclusive-range-bound-widens-comparison",
        what: "emitter: an exclusive range `a..b` of `inside` / `case` is emitted as `[a:(b)-1]`; the unsized `1` makes the upper-bound comparison 32 bits wide, so a selector whose value depends on its width (`~x`, `x ~^ y`, `-x`, a wrapping sum) is compared at 32 bits (IEEE 1800 11.4.13 / 11.4.4) instead of at its own width",
    },
    Suspect {
        key: "compare-of-1bit-operator-result-with-signed-constant",
        what: "simulator: a relational operator between the 1-bit (unsigned) result of another operator and a signed constant (literal, param or const) is evaluated as a signed comparison: `(a >= b) >: 64'shaaaa…` is 1; IEEE 1800 11.8.1 / the emitted SV: one operand unsigned makes the comparison unsigned, 0",
    },
    Suspect {
        key: "constant-not-normalised-to-declared-type",
        what: "simulator: a const / param whose initialiser is wider than, or of other signedness than, its declared type keeps the initialiser's value and signedness when referenced (`const C1: logic<6> = 64'h7fff…; const C2: logic<64> = C1;` gives 64'h7fff… instead of 64'h3f); the emitted `localparam logic [6-1:0] C1 = …` truncates / converts (IEEE 1800 6.20.2). Same root cause as C17 const-ref-signedness-from-initializer",
    },
];

/// One assignment-like site: type of the target (None when unknown) and
/// whether the target is a partial select; the right-hand side.
struct Site<'a> {
    dest: Ty,
    partial: bool,
    rhs: &'a Expr,
}

fn ref_partial(r: &Ref) -> bool {
    !matches!(r.sel, Sel::None) || r.field.is_some()
}

fn stmts<'a>(m: &'a Module, v: &'a [Stmt], ret: Option<Ty>, out: &mut Vec<Site<'a>>) {
    for s in v {
        match s {
            Stmt::Assign { lhs, rhs, .. } => out.push(Site {
                dest: ref_ty(m, lhs),
                partial: ref_partial(lhs),
                rhs,
            }),
            Stmt::AssignConcat { lhs, rhs } => out.push(Site {
                dest: Ty::u(lhs.iter().map(|r| ref_ty(m, r).w).sum()),
                partial: true,
                rhs,
            }),
            Stmt::If { then, els, .. } => {
                stmts(m, then, ret, out);
                stmts(m, els, ret, out);
            }
            Stmt::Case { arms, default, .. } => {
                for a in arms {
                    stmts(m, &a.1, ret, out);
                }
                if let Some(d) = default {
                    stmts(m, d, ret, out);
                }
            }
            Stmt::Switch { arms, default } => {
                for a in arms {
                    stmts(m, &a.1, ret, out);
                }
                if let Some(d) = default {
                    stmts(m, d, ret, out);
                }
            }
            Stmt::For { body, .. } => stmts(m, body, ret, out),
            Stmt::Return(e) => {
                if let Some(t) = ret {
                    out.push(Site {
                        dest: t,
                        partial: false,
                        rhs: e,
                    });
                }
            }
            Stmt::Display { .. } => {}
        }
    }
}

fn sites<'a>(design: &'a Design, m: &'a Module) -> Vec<Site<'a>> {
    let mut out = vec![];
    for d in &m.decls {
        if matches!(d.kind, DeclKind::Param | DeclKind::Const) {
            if let Some(e) = &d.init {
                out.push(Site {
                    dest: d.ty,
                    partial: false,
                    rhs: e,
                });
            }
        }
    }
    for it in &m.items {
        match it {
            Item::Assign { lhs, rhs } => out.push(Site {
                dest: ref_ty(m, lhs),
                partial: ref_partial(lhs),
                rhs,
            }),
            Item::Let { decl, rhs } => out.push(Site {
                dest: m.decls[*decl].ty,
                partial: false,
                rhs,
            }),
            Item::AlwaysComb(b) => stmts(m, b, None, &mut out),
            Item::AlwaysFf { reset, body, .. } => {
                stmts(m, reset, None, &mut out);
                stmts(m, body, None, &mut out);
            }
            Item::Inst { module, params, conns, .. } => {
                let cm = &design.modules[*module];
                for (p, e) in params {
                    out.push(Site {
                        dest: cm.decls[*p].ty,
                        partial: false,
                        rhs: e,
                    });
                }
                for (p, c) in conns {
                    if let Conn::In(e) = c {
                        out.push(Site {
                            dest: cm.decls[*p].ty,
                            partial: false,
                            rhs: e,
                        });
                    }
                }
            }
        }
    }
    for f in &m.funcs {
        stmts(m, &f.body, Some(f.ret), &mut out);
    }
    out
}

fn bare_signed_constant(m: &Module, e: &Expr) -> bool {
    match e {
        Expr::Ref(r) => {
            matches!(r.sel, Sel::None)
                && r.field.is_none()
                && r.idx.is_none()
                && matches!(m.decls[r.decl].kind, DeclKind::Param | DeclKind::Const)
                && m.decls[r.decl].ty.signed
        }
        _ => false,
    }
}

fn sub_exprs<'a>(e: &'a Expr, f: &mut dyn FnMut(&'a Expr)) {
    f(e);
    let item = |it: &'a vdesign::RangeItem, f: &mut dyn FnMut(&'a Expr)| match it {
        vdesign::RangeItem::Val(x) => sub_exprs(x, f),
        vdesign::RangeItem::Excl(a, b) | vdesign::RangeItem::Incl(a, b) => {
            sub_exprs(a, f);
            sub_exprs(b, f);
        }
    };
    let rf = |r: &'a Ref, f: &mut dyn FnMut(&'a Expr)| {
        if let Some(i) = &r.idx {
            sub_exprs(i, f);
        }
        match &r.sel {
            Sel::BitD(x) | Sel::PlusC(x, _) | Sel::MinusC(x, _) | Sel::Step(x, _) => sub_exprs(x, f),
            _ => {}
        }
    };
    match e {
        Expr::Lit(_) | Expr::EnumVal(..) | Expr::Bits(_) => {}
        Expr::Ref(r) => rf(r, f),
        Expr::Un(_, a) | Expr::Cast(a, _) | Expr::Signed(a) | Expr::Unsigned(a) | Expr::Clog2(a) => sub_exprs(a, f),
        Expr::Bin(_, a, b) => {
            sub_exprs(a, f);
            sub_exprs(b, f);
        }
        Expr::If(c, a, b) => {
            sub_exprs(c, f);
            sub_exprs(a, f);
            sub_exprs(b, f);
        }
        Expr::Case(s, arms, d) => {
            sub_exprs(s, f);
            for (its, x) in arms {
                for it in its {
                    item(it, f);
                }
                sub_exprs(x, f);
            }
            sub_exprs(d, f);
        }
        Expr::Switch(arms, d) => {
            for (cs, x) in arms {
                for c in cs {
                    sub_exprs(c, f);
                }
                sub_exprs(x, f);
            }
            sub_exprs(d, f);
        }
        Expr::Concat(v) => {
            for (x, _) in v {
                sub_exprs(x, f);
            }
        }
        Expr::Inside(a, its, _) => {
            sub_exprs(a, f);
            for it in its {
                item(it, f);
            }
        }
        Expr::Call(_, args) => {
            for a in args {
                sub_exprs(a, f);
            }
        }
    }
}

fn stmt_exprs<'a>(v: &'a [Stmt], f: &mut dyn FnMut(&'a Expr)) {
    for s in v {
        match s {
            Stmt::Assign { rhs, .. } | Stmt::AssignConcat { rhs, .. } => sub_exprs(rhs, f),
            Stmt::If { cond, then, els } => {
                sub_exprs(cond, f);
                stmt_exprs(then, f);
                stmt_exprs(els, f);
            }
            Stmt::Case { sel, arms, default } => {
                sub_exprs(sel, f);
                for a in arms {
                    stmt_exprs(&a.1, f);
                }
                if let Some(d) = default {
                    stmt_exprs(d, f);
                }
            }
            Stmt::Switch { arms, default } => {
                for a in arms {
                    for c in &a.0 {
                        sub_exprs(c, f);
                    }
                    stmt_exprs(&a.1, f);
                }
                if let Some(d) = default {
                    stmt_exprs(d, f);
                }
            }
            Stmt::For { body, break_if, .. } => {
                if let Some(b) = break_if {
                    sub_exprs(b, f);
                }
                stmt_exprs(body, f);
            }
            Stmt::Return(e) => sub_exprs(e, f),
            Stmt::Display { args, .. } => {
                for a in args {
                    sub_exprs(a, f);
                }
            }
        }
    }
}

/// Every expression node of a module (right-hand sides, conditions, selectors, arguments).
fn module_exprs<'a>(design: &'a Design, m: &'a Module, f: &mut dyn FnMut(&'a Expr)) {
    for s in sites(design, m) {
        sub_exprs(s.rhs, f);
    }
    for it in &m.items {
        match it {
            Item::AlwaysComb(b) => stmt_exprs(b, f),
            Item::AlwaysFf { reset, body, .. } => {
                stmt_exprs(reset, f);
                stmt_exprs(body, f);
            }
            _ => {}
        }
    }
    for func in &m.funcs {
        stmt_exprs(&func.body, f);
    }
}

fn has_signed_leaf(m: &Module, e: &Expr) -> bool {
    let mut hit = false;
    sub_exprs(e, &mut |x| {
        if matches!(x, Expr::Lit(_) | Expr::Ref(_) | Expr::Signed(_) | Expr::Call(..)) && ty_of(m, x).signed {
            hit = true;
        }
    });
    hit
}

fn reads_decl(e: &Expr, decl: usize) -> bool {
    let mut hit = false;
    sub_exprs(e, &mut |x| {
        if let Expr::Ref(r) = x {
            if r.decl == decl {
                hit = true;
            }
        }
    });
    hit
}

/// (target decl, reads its own target) of every assignment statement, in any branch.
fn ff_assigns(v: &[Stmt], out: &mut Vec<(usize, bool)>) {
    for s in v {
        match s {
            Stmt::Assign { lhs, op, rhs } => {
                let own = !matches!(op, vdesign::AssignOp::Set) || reads_decl(rhs, lhs.decl);
                out.push((lhs.decl, own));
            }
            Stmt::AssignConcat { lhs, rhs } => {
                for l in lhs {
                    out.push((l.decl, reads_decl(rhs, l.decl)));
                }
            }
            Stmt::If { then, els, .. } => {
                ff_assigns(then, out);
                ff_assigns(els, out);
            }
            Stmt::Case { arms, default, .. } => {
                for a in arms {
                    ff_assigns(&a.1, out);
                }
                if let Some(d) = default {
                    ff_assigns(d, out);
                }
            }
            Stmt::Switch { arms, default } => {
                for a in arms {
                    ff_assigns(&a.1, out);
                }
                if let Some(d) = default {
                    ff_assigns(d, out);
                }
            }
            Stmt::For { body, .. } => {
                // a loop body runs several times: one assignment is already "several"
                let mut inner = vec![];
                ff_assigns(body, &mut inner);
                out.extend(inner.iter().cloned());
                out.extend(inner);
            }
            _ => {}
        }
    }
}

fn ff_self_read(body: &[Stmt]) -> bool {
    let mut v = vec![];
    ff_assigns(body, &mut v);
    v.iter().any(|(d, own)| *own && v.iter().filter(|(d2, _)| d2 == d).count() >= 2)
}

fn has_excl(items: &[vdesign::RangeItem]) -> bool {
    items.iter().any(|i| matches!(i, vdesign::RangeItem::Excl(..)))
}

/// The selector of an exclusive range is an operator expression narrower than 32 bits.
fn excl_on_operator(m: &Module, sel: &Expr, items: &[vdesign::RangeItem]) -> bool {
    // `a..0`: the emitted upper bound `(0)-1` wraps to 32'hffffffff
    let zero_bound = items.iter().any(|i| match i {
        vdesign::RangeItem::Excl(_, Expr::Lit(vdesign::Lit::Sized { val, .. })) => val.bits() == 0,
        vdesign::RangeItem::Excl(_, Expr::Lit(vdesign::Lit::Dec(0))) => true,
        vdesign::RangeItem::Excl(_, Expr::Lit(_)) => false,
        vdesign::RangeItem::Excl(..) => true,
        _ => false,
    });
    has_excl(items) && (zero_bound || (!matches!(sel, Expr::Lit(_) | Expr::Ref(_) | Expr::EnumVal(..)) && ty_of(m, sel).w < 32))
}

fn stmt_excl(m: &Module, v: &[Stmt]) -> bool {
    v.iter().any(|s| match s {
        Stmt::Case { sel, arms, default } => {
            arms.iter().any(|a| excl_on_operator(m, sel, &a.0) || stmt_excl(m, &a.1)) || default.as_ref().is_some_and(|d| stmt_excl(m, d))
        }
        Stmt::If { then, els, .. } => stmt_excl(m, then) || stmt_excl(m, els),
        Stmt::Switch { arms, default } => arms.iter().any(|a| stmt_excl(m, &a.1)) || default.as_ref().is_some_and(|d| stmt_excl(m, d)),
        Stmt::For { body, .. } => stmt_excl(m, body),
        _ => false,
    })
}

/// Keys of the suspects the design contains, in `SUSPECTS` order.
pub fn suspects(design: &Design) -> Vec<&'static str> {
    let mut k1 = false;
    let mut k2 = false;
    let mut k3 = false;
    let mut k4 = false;
    let mut k5 = false;
    let mut k6 = false;
    let mut k7 = false;
    let mut k8 = false;
    for m in &design.modules {
        for d in &m.decls {
            if matches!(d.kind, DeclKind::Param | DeclKind::Const) {
                if let Some(e) = &d.init {
                    let t = ty_of(m, e);
                    if t.w > d.ty.w || t.signed != d.ty.signed {
                        k8 = true;
                    }
                }
            }
        }
    }
    for m in &design.modules {
        module_exprs(design, m, &mut |e| {
            if let Expr::Bin(op, a, b) = e {
                if op.is_compare() {
                    let one_bit_op = |x: &Expr| match x {
                        Expr::Bin(o, ..) => o.is_compare() || o.is_logical(),
                        Expr::Un(o, _) => o.is_reduction() || *o == vdesign::UnOp::LogNot,
                        Expr::Inside(..) => true,
                        _ => false,
                    };
                    let signed_const = |x: &Expr| match x {
                        Expr::Lit(_) => ty_of(m, x).signed,
                        Expr::Ref(_) => bare_signed_constant(m, x),
                        _ => false,
                    };
                    if (one_bit_op(a) && signed_const(b)) || (one_bit_op(b) && signed_const(a)) {
                        k7 = true;
                    }
                }
            }
        });
        module_exprs(design, m, &mut |e| match e {
            Expr::Case(sel, arms, _) => {
                if arms.iter().any(|a| excl_on_operator(m, sel, &a.0)) {
                    k6 = true;
                }
            }
            Expr::Inside(sel, items, _) => {
                if excl_on_operator(m, sel, items) {
                    k6 = true;
                }
            }
            _ => {}
        });
        for it in &m.items {
            match it {
                Item::AlwaysComb(b) => k6 |= stmt_excl(m, b),
                Item::AlwaysFf { reset, body, .. } => k6 |= stmt_excl(m, reset) || stmt_excl(m, body),
                _ => {}
            }
        }
        for f in &m.funcs {
            k6 |= stmt_excl(m, &f.body);
        }
        module_exprs(design, m, &mut |e| {
            if let Expr::Unsigned(inner) = e {
                if !matches!(**inner, Expr::Lit(_) | Expr::Ref(_)) && has_signed_leaf(m, inner) {
                    k3 = true;
                }
            }
        });
        for it in &m.items {
            if let Item::AlwaysFf { body, .. } = it {
                if ff_self_read(body) {
                    k5 = true;
                }
            }
        }
        for it in &m.items {
            let (dest, rhs) = match it {
                Item::Assign { lhs, rhs } if !ref_partial(lhs) && lhs.idx.is_none() => (m.decls[lhs.decl].ty, rhs),
                Item::Let { decl, rhs } => (m.decls[*decl].ty, rhs),
                _ => continue,
            };
            if let Expr::Ref(r) = rhs {
                let plain = matches!(r.sel, Sel::None) && r.field.is_none() && r.idx.is_none();
                let is_var = !matches!(m.decls[r.decl].kind, DeclKind::Param | DeclKind::Const);
                if plain && is_var && m.decls[r.decl].ty != dest {
                    k4 = true;
                }
            }
        }
        for s in sites(design, m) {
            let t = ty_of(m, s.rhs);
            if bare_signed_constant(m, s.rhs) && t.w < s.dest.w {
                k1 = true;
            }
            if s.partial && t.w > 64 {
                k2 = true;
            }
        }
    }
    let mut v = vec![];
    if k1 {
        v.push(SUSPECTS[0].key);
    }
    if k2 {
        v.push(SUSPECTS[1].key);
    }
    if k3 {
        v.push(SUSPECTS[2].key);
    }
    if k4 {
        v.push(SUSPECTS[3].key);
    }
    if k5 {
        v.push(SUSPECTS[4].key);
    }
    if k6 {
        v.push(SUSPECTS[5].key);
    }
    if k7 {
        v.push(SUSPECTS[6].key);
    }
    if k8 {
        v.push(SUSPECTS[7].key);
    }
    v
}
